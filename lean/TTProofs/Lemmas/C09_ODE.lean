import TTProofs.Lemmas.C09_Unit
import Mathlib.Analysis.SpecialFunctions.ExpDeriv
import Mathlib.Analysis.Calculus.Deriv.Mul
import Mathlib.Analysis.Calculus.Deriv.Inv
import Mathlib.Tactic.LinearCombination
/-! C09: the closed forms `pClosed`, `qv` satisfy the birth–death master equations (derivatives, boundary values). -/
open TT TT.C09
namespace TT.C09

/-- `A² = (λ+μ+ψ)² − 4λμ` -/
theorem Acoef_sq (r : Rates ℝ) (i : Nat) (h : 0 ≤ r.lam i * r.psi i) :
    Acoef r i * Acoef r i = (r.lam i + r.mu i + r.psi i) ^ 2 - 4 * r.lam i * r.mu i := by
  unfold Acoef
  simp only [trans_sqrt_real, four_real]
  rw [Real.mul_self_sqrt (by nlinarith [mul_self_nonneg (r.lam i - r.mu i - r.psi i)])]
  ring

/-- the Riccati right-hand side at `P = (s − A F)/(2λ)` -/
theorem riccati_alg (lam mu psi A F : ℝ) (hlam : lam ≠ 0) (hA2 : A * A = (lam + mu + psi) ^ 2 - 4 * lam * mu) :
    mu - (lam + mu + psi) * ((lam + mu + psi - A * F) / (2 * lam)) + lam * ((lam + mu + psi - A * F) / (2 * lam)) ^ 2
      = A * A * (F ^ 2 - 1) / (4 * lam) := by
  field_simp
  linear_combination (4 : ℝ) * hA2

/-- **the closed form solves the master equation for `p`** (in the distance `d` to the end of the epoch, i.e. backwards
in the code's time): `dP/dd = μ − (λ+μ+ψ) P + λ P²` -/
theorem hasDerivAt_pClosed (lam mu psi A B d : ℝ) (hlam : lam ≠ 0)
    (hA2 : A * A = (lam + mu + psi) ^ 2 - 4 * lam * mu)
    (hD : Real.exp (A * d) * (1 + B) + (1 - B) ≠ 0) :
    HasDerivAt (fun d => pClosed lam mu psi A B d)
      (mu - (lam + mu + psi) * pClosed lam mu psi A B d + lam * (pClosed lam mu psi A B d) ^ 2) d := by
  have hE : HasDerivAt (fun d => Real.exp (A * d)) (Real.exp (A * d) * A) d := by
    have := ((hasDerivAt_id d).const_mul A).exp
    simpa using this
  have hT : HasDerivAt (fun d => Real.exp (A * d) * (1 + B)) (Real.exp (A * d) * A * (1 + B)) d := hE.mul_const _
  have hN : HasDerivAt (fun d => Real.exp (A * d) * (1 + B) - (1 - B)) (Real.exp (A * d) * A * (1 + B)) d := hT.sub_const _
  have hDd : HasDerivAt (fun d => Real.exp (A * d) * (1 + B) + (1 - B)) (Real.exp (A * d) * A * (1 + B)) d := hT.add_const _
  have hF := hN.div hDd hD
  have hP : HasDerivAt (fun x => (lam + mu + psi - A * ((Real.exp (A * x) * (1 + B) - (1 - B)) / (Real.exp (A * x) * (1 + B) + (1 - B)))) / (2 * lam))
      ((0 - A * ((Real.exp (A * d) * A * (1 + B) * (Real.exp (A * d) * (1 + B) + (1 - B))
          - (Real.exp (A * d) * (1 + B) - (1 - B)) * (Real.exp (A * d) * A * (1 + B)))
            / (Real.exp (A * d) * (1 + B) + (1 - B)) ^ 2)) / (2 * lam)) d :=
    (((hF.const_mul A).const_sub (lam + mu + psi)).congr_deriv (by ring)).div_const (2 * lam)
  unfold pClosed
  simp only [trans_exp_real, two_real]
  have hform : (fun d => (lam + mu + psi - A * (Real.exp (A * d) * (1 + B) - (1 - B)) / (Real.exp (A * d) * (1 + B) + (1 - B))) / (2 * lam))
      = fun d => (lam + mu + psi - A * ((Real.exp (A * d) * (1 + B) - (1 - B)) / (Real.exp (A * d) * (1 + B) + (1 - B)))) / (2 * lam) := by
    funext x; rw [mul_div_assoc]
  rw [hform, mul_div_assoc, riccati_alg lam mu psi A _ hlam hA2]
  refine hP.congr_deriv ?_
  set E := Real.exp (A * d)
  field_simp
  ring

/-- **the branch factor solves its linear master equation** (in the distance `d` to the end of the epoch):
`dq/dd = −(λ+μ+ψ − 2λ P(d)) q` -/
theorem hasDerivAt_qv (lam mu psi A B d : ℝ) (hlam : lam ≠ 0)
    (hD : Real.exp (A * d) * (1 + B) + (1 - B) ≠ 0) :
    HasDerivAt (fun d => qv A B d)
      (-(lam + mu + psi - 2 * lam * pClosed lam mu psi A B d) * qv A B d) d := by
  have hE : HasDerivAt (fun d => Real.exp (A * d)) (Real.exp (A * d) * A) d := by
    have := ((hasDerivAt_id d).const_mul A).exp
    simpa using this
  have hDd : HasDerivAt (fun d => Real.exp (A * d) * (1 + B) + (1 - B)) (Real.exp (A * d) * A * (1 + B)) d :=
    (hE.mul_const _).add_const _
  have hD2 : HasDerivAt (fun d => (Real.exp (A * d) * (1 + B) + (1 - B)) ^ 2)
      (2 * (Real.exp (A * d) * (1 + B) + (1 - B)) ^ 1 * (Real.exp (A * d) * A * (1 + B))) d := by
    have hsq : (fun d => (Real.exp (A * d) * (1 + B) + (1 - B)) ^ 2)
        = fun d => (Real.exp (A * d) * (1 + B) + (1 - B)) * (Real.exp (A * d) * (1 + B) + (1 - B)) := by
      funext x; ring
    rw [hsq]
    exact (hDd.mul hDd).congr_deriv (by ring)
  have hq : HasDerivAt (fun x => 4 * Real.exp (A * x) / (Real.exp (A * x) * (1 + B) + (1 - B)) ^ 2)
      ((4 * (Real.exp (A * d) * A) * (Real.exp (A * d) * (1 + B) + (1 - B)) ^ 2
        - 4 * Real.exp (A * d) * (2 * (Real.exp (A * d) * (1 + B) + (1 - B)) ^ 1 * (Real.exp (A * d) * A * (1 + B))))
          / ((Real.exp (A * d) * (1 + B) + (1 - B)) ^ 2) ^ 2) d :=
    (hE.const_mul 4).div hD2 (pow_ne_zero 2 hD)
  unfold qv pClosed
  simp only [trans_exp_real, two_real]
  refine hq.congr_deriv ?_
  set E := Real.exp (A * d)
  field_simp
  ring

theorem qv_zero (A B : ℝ) : qv A B 0 = 1 := by
  unfold qv; simp; norm_num

/-- boundary value of `p` at the end of the epoch, as coded: `(1 − ρ) p_next` -/
theorem pClosed_zero (r : Rates ℝ) (i : Nat) (pn : ℝ) (hA : Acoef r i ≠ 0) (hlam : r.lam i ≠ 0) :
    pClosed (r.lam i) (r.mu i) (r.psi i) (Acoef r i) (Bcoef r i pn) 0 = (1 - r.rho i) * pn := by
  have hBA : Bcoef r i pn * Acoef r i = (1 - 2 * (1 - r.rho i) * pn) * r.lam i + r.mu i + r.psi i := by
    rw [Bcoef_def]; exact div_mul_cancel₀ _ hA
  unfold pClosed
  simp only [trans_exp_real, two_real, mul_zero, Real.exp_zero, one_mul]
  have h1 : (1 + Bcoef r i pn - (1 - Bcoef r i pn)) = 2 * Bcoef r i pn := by ring
  have h2 : (1 + Bcoef r i pn + (1 - Bcoef r i pn)) = 2 := by ring
  rw [h1, h2]
  have h3 : Acoef r i * (2 * Bcoef r i pn) / 2 = Bcoef r i pn * Acoef r i := by ring
  rw [h3, hBA]
  field_simp
  ring

end TT.C09
