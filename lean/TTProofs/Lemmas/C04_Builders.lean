import TTModel.C04_Subst
import TTProofs.Lemmas.Sums
import Mathlib.Algebra.Order.Field.Basic
import Mathlib.Algebra.BigOperators.Field
import Mathlib.Algebra.Order.BigOperators.Ring.Finset
import Mathlib.Tactic.FieldSimp
import Mathlib.Tactic.Ring
import Mathlib.Tactic.Positivity
import Mathlib.Tactic.Linarith
import Mathlib.Tactic.FinCases
import Mathlib.Tactic.NormNum
/-! helper lemmas for C04: the rate-matrix builders over a field / ordered field -/
namespace TT.C04

section field
variable {R : Type} [Field R] {n : Nat}

theorem symR_diag (r : Nat → R) (i : Fin n) : symR (n := n) r i i = 0 := by
  simp [symR]

theorem symR_symm (r : Nat → R) (i j : Fin n) : symR (n := n) r i j = symR r j i := by
  unfold symR
  rcases lt_trichotomy i.val j.val with h | h | h
  · simp [h, Nat.lt_asymm h]
  · simp [h]
  · simp [h, Nat.lt_asymm h]

theorem symR_zero_one (r : Nat → R) : symR (n := n + 2) r 0 1 = r 0 := by
  simp [symR, triuIndex]

theorem nonSymR_diag (up lo : Nat → R) (i : Fin n) : nonSymR (n := n) up lo i i = 0 := by
  simp [nonSymR]

/-- entry of `fromR` when the diagonal of `R` is zero: `R_ij π_j − [i = j] Σ_k R_ik π_k` -/
theorem fromR_apply (Rm : Mat n R) (π : Fin n → R) (hd : ∀ i, Rm i i = 0) (i j : Fin n) :
    fromR Rm π i j = Rm i j * π j - if i = j then ∑ k, Rm i k * π k else 0 := by
  unfold fromR
  rw [sumFin_eq_sum]
  by_cases h : i = j
  · subst h; simp [hd]
  · simp [h]

theorem fromR_row_sum (Rm : Mat n R) (π : Fin n → R) (hd : ∀ i, Rm i i = 0) (i : Fin n) :
    ∑ j, fromR Rm π i j = 0 := by
  simp only [fromR_apply Rm π hd, Finset.sum_sub_distrib, Finset.sum_ite_eq, Finset.mem_univ,
    if_true, sub_self]

theorem fromR_detailed_balance (Rm : Mat n R) (π : Fin n → R) (hs : ∀ i j, Rm i j = Rm j i)
    (i j : Fin n) : π i * fromR Rm π i j = π j * fromR Rm π j i := by
  by_cases h : i = j
  · subst h; rfl
  · have h' : ¬ j = i := fun e => h e.symm
    simp only [fromR, h, h', if_false]
    rw [hs i j]; ring

theorem fromR_offdiag (Rm : Mat n R) (π : Fin n → R) {i j : Fin n} (h : i ≠ j) :
    fromR Rm π i j = Rm i j * π j := by
  simp [fromR, h]

theorem fromR_diag (Rm : Mat n R) (π : Fin n → R) (i : Fin n) :
    fromR Rm π i i = -∑ k, Rm i k * π k := by
  simp [fromR, sumFin_eq_sum]

/-- `norm` as a `Finset` sum -/
theorem norm_eq (Q : Mat n R) (π : Fin n → R) : norm Q π = -∑ i, Q i i * π i := by
  unfold norm; rw [sumFin_eq_sum]

/-- after dividing by `norm`, the expected number of substitutions per unit time is one -/
theorem norm_normalised (Q : Mat n R) (π : Fin n → R) (h : norm Q π ≠ 0) :
    norm (normalised Q π) π = 1 := by
  have e : ∀ i, normalised Q π i i * π i = Q i i * π i / norm Q π := by
    intro i; unfold normalised; ring
  rw [norm_eq (normalised Q π)]
  simp only [e, ← Finset.sum_div]
  rw [← neg_div, ← norm_eq, div_self h]

theorem normalised_row_sum (Q : Mat n R) (π : Fin n → R) (i : Fin n) (h : ∑ j, Q i j = 0) :
    ∑ j, normalised Q π i j = 0 := by
  unfold normalised
  rw [← Finset.sum_div, h, zero_div]

theorem normalised_detailed_balance (Q : Mat n R) (π : Fin n → R) (i j : Fin n)
    (h : π i * Q i j = π j * Q j i) :
    π i * normalised Q π i j = π j * normalised Q π j i := by
  unfold normalised
  rw [← mul_div_assoc, ← mul_div_assoc, h]

end field

section ordered
variable {R : Type} [Field R] [LinearOrder R] [IsStrictOrderedRing R] {n : Nat}

omit [IsStrictOrderedRing R] in
theorem symR_nonneg (r : Nat → R) (hr : ∀ k, 0 ≤ r k) (i j : Fin n) : 0 ≤ symR (n := n) r i j := by
  unfold symR; split_ifs <;> first | exact hr _ | exact le_refl _

omit [IsStrictOrderedRing R] in
theorem nonSymR_nonneg (up lo : Nat → R) (hu : ∀ k, 0 ≤ up k) (hl : ∀ k, 0 ≤ lo k) (i j : Fin n) :
    0 ≤ nonSymR (n := n) up lo i j := by
  unfold nonSymR; split_ifs <;> first | exact hu _ | exact hl _ | exact le_refl _

theorem fromR_offdiag_nonneg (Rm : Mat n R) (π : Fin n → R) (hR : ∀ i j, 0 ≤ Rm i j)
    (hπ : ∀ i, 0 ≤ π i) {i j : Fin n} (h : i ≠ j) : 0 ≤ fromR Rm π i j := by
  rw [fromR_offdiag Rm π h]; exact mul_nonneg (hR i j) (hπ j)

/-- `norm (fromR R π) π = Σ_i π_i Σ_k R_ik π_k` is strictly positive as soon as all frequencies
are positive, `R ≥ 0`, and one entry of `R` is positive -/
theorem norm_fromR_pos (Rm : Mat n R) (π : Fin n → R) (hR : ∀ i j, 0 ≤ Rm i j)
    (hπ : ∀ i, 0 < π i) (i0 j0 : Fin n) (h0 : 0 < Rm i0 j0) : 0 < norm (fromR Rm π) π := by
  rw [norm_eq]
  simp only [fromR_diag, neg_mul, Finset.sum_neg_distrib, neg_neg]
  have hterm : ∀ i, 0 ≤ (∑ k, Rm i k * π k) * π i := fun i =>
    mul_nonneg (Finset.sum_nonneg fun k _ => mul_nonneg (hR i k) (hπ k).le) (hπ i).le
  have hpos : 0 < (∑ k, Rm i0 k * π k) * π i0 := by
    apply mul_pos _ (hπ i0)
    exact lt_of_lt_of_le (mul_pos h0 (hπ j0))
      (Finset.single_le_sum (f := fun k => Rm i0 k * π k)
        (fun k _ => mul_nonneg (hR i0 k) (hπ k).le) (Finset.mem_univ j0))
  exact lt_of_lt_of_le hpos
    (Finset.single_le_sum (f := fun i => (∑ k, Rm i k * π k) * π i) (fun i _ => hterm i)
      (Finset.mem_univ i0))

theorem mg94Rate_nonneg (a b k : R) (ha : 0 ≤ a) (hb : 0 ≤ b) (hk : 0 ≤ k) (m : Bool × Bool × Bool) :
    0 ≤ mg94Rate a b k m := by
  unfold mg94Rate
  have h1 : (0 : R) ≤ if m.1 then k else 1 := by split_ifs <;> first | exact hk | exact zero_le_one
  have h2 : (0 : R) ≤ if m.2.1 then a else 1 := by split_ifs <;> first | exact ha | exact zero_le_one
  have h3 : (0 : R) ≤ if m.2.2 then b else 1 := by split_ifs <;> first | exact hb | exact zero_le_one
  exact mul_nonneg (mul_nonneg h1 h2) h3

theorem mg94Rate_pos (a b k : R) (ha : 0 < a) (hb : 0 < b) (hk : 0 < k) (m : Bool × Bool × Bool) :
    0 < mg94Rate a b k m := by
  unfold mg94Rate
  have h1 : (0 : R) < if m.1 then k else 1 := by split_ifs <;> first | exact hk | exact zero_lt_one
  have h2 : (0 : R) < if m.2.1 then a else 1 := by split_ifs <;> first | exact ha | exact zero_lt_one
  have h3 : (0 : R) < if m.2.2 then b else 1 := by split_ifs <;> first | exact hb | exact zero_lt_one
  exact mul_pos (mul_pos h1 h2) h3

end ordered

/-! HKY and GTR are the general symmetric builder with the documented mappings -/
section nucleotide
variable {R : Type} [Field R]

/-- the mapping `g = [0,1,0,0,1,0]` of the HKY docstring -/
def hkyMapping : Nat → Nat := fun k => if k = 1 ∨ k = 4 then 1 else 0
/-- rates `(r_0, r_1) = (1, κ)` -/
def hkyRates (κ : R) : Nat → R := fun k => if k = 1 then κ else 1

theorem hkyQ_eq_generalSym (κ : R) (π : Fin 4 → R) :
    hkyQ κ π = generalSymQ hkyMapping (hkyRates κ) π := by
  funext i j
  fin_cases i <;> fin_cases j <;>
    simp [hkyQ, generalSymQ, fromR, symR, triuIndex, hkyMapping, hkyRates, sumFin_eq_sum,
      Fin.sum_univ_four]

theorem gtrQ_eq_generalSym (r : Fin 6 → R) (π : Fin 4 → R) :
    gtrQ r π = generalSymQ id (fun k => if h : k < 6 then r ⟨k, h⟩ else 0) π := by
  funext i j
  fin_cases i <;> fin_cases j <;>
    simp [gtrQ, generalSymQ, fromR, symR, triuIndex, sumFin_eq_sum, Fin.sum_univ_four]

end nucleotide

end TT.C04
