import TTModel.C15_Expr
import TTProofs.Lemmas.ScalarReal
/-! `ℝ` as a scalar of the C15 models -/
namespace TT.C15
noncomputable instance : FromNat ℝ := ⟨fun n => (n : ℝ)⟩
@[simp] theorem fromNat_real (n : ℕ) : (FromNat.ofNat n : ℝ) = (n : ℝ) := rfl
end TT.C15
