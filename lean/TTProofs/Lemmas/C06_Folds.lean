import TTModel.C06_Heights
import Mathlib.Data.List.Basic
/-!
Generic facts about the array loops of the C06 model: a `foldl` of `upd`s over an index list
whose write positions are pairwise distinct and never read again later computes, at every
written position, the loop body evaluated on the FINAL array.
-/
namespace TT.C06

variable {α : Type}

@[simp] theorem upd_same (f : Nat → α) (i : Nat) (v : α) : upd f i v i = v := by simp [upd]
theorem upd_other (f : Nat → α) {i j : Nat} (v : α) (h : j ≠ i) : upd f i v j = f j := by
  simp [upd, h]

/-- the `Vec` wrapper around a loop accumulator changes nothing -/
theorem foldl_vec {β : Type} (step : (Nat → α) → β → (Nat → α)) (L : List β) (x : Nat → α) :
    (L.foldl (fun (h : Vec α) a => Vec.mk (step h.get a)) ⟨x⟩).get = L.foldl step x := by
  induction L generalizing x with
  | nil => rfl
  | cons a L ih => simp only [List.foldl_cons]; exact ih _

/-! ### pre-order loop (pairs): `h[c] = g (p,c) h[p]` -/

/-- write positions distinct, and a position read by an entry is not written at or after it -/
def PairsOK (L : List (Nat × Nat)) : Prop :=
  L.Pairwise (fun a b => a.2 ≠ b.2 ∧ a.1 ≠ b.2) ∧ ∀ a ∈ L, a.1 ≠ a.2

theorem fold2_frame (g : Nat × Nat → α → α) (L : List (Nat × Nat)) (x : Nat → α) (j : Nat)
    (hj : ∀ a ∈ L, a.2 ≠ j) :
    L.foldl (fun h a => upd h a.2 (g a (h a.1))) x j = x j := by
  induction L generalizing x with
  | nil => rfl
  | cons a L ih =>
    simp only [List.foldl_cons]
    rw [ih _ (fun b hb => hj b (List.mem_cons_of_mem _ hb))]
    exact upd_other _ _ (fun h => hj a (List.mem_cons_self) h.symm)

theorem fold2_spec (g : Nat × Nat → α → α) (L : List (Nat × Nat)) (hL : PairsOK L) (x : Nat → α) :
    ∀ a ∈ L, L.foldl (fun h a => upd h a.2 (g a (h a.1))) x a.2
      = g a (L.foldl (fun h a => upd h a.2 (g a (h a.1))) x a.1) := by
  induction L generalizing x with
  | nil => intro a ha; cases ha
  | cons a0 L ih =>
    obtain ⟨hpw, hself⟩ := hL
    rw [List.pairwise_cons] at hpw
    obtain ⟨h0, hpw'⟩ := hpw
    have hL' : PairsOK L := ⟨hpw', fun a ha => hself a (List.mem_cons_of_mem _ ha)⟩
    intro a ha
    simp only [List.foldl_cons]
    rcases List.mem_cons.mp ha with rfl | ha'
    · rw [fold2_frame g L _ a.2 (fun b hb => ((h0 b hb).1).symm),
        fold2_frame g L _ a.1 (fun b hb => ((h0 b hb).2).symm)]
      rw [upd_same, upd_other _ _ (hself a List.mem_cons_self)]
    · exact ih hL' _ a ha'

/-! ### post-order loop (triples): `a[v-n] = g (v,l,r) (read l) (read r)` where a child that is a
tip (`< n`) is read from `s` and an internal child from the array at `child - n` -/

def rd (n : Nat) (s : Nat → α) (ih : Nat → α) (i : Nat) : α := if i < n then s i else ih (i - n)

def fold3 (n : Nat) (s : Nat → α) (g : Nat × Nat × Nat → α → α → α)
    (L : List (Nat × Nat × Nat)) (init : Nat → α) : Nat → α :=
  L.foldl (fun ih tr => upd ih (tr.1 - n) (g tr (rd n s ih tr.2.1) (rd n s ih tr.2.2))) init

/-- written nodes are internal (`≥ n`), strictly increasing along the list, and every child has
a smaller index than its node (post-order numbering) -/
def TriplesOK (n : Nat) (L : List (Nat × Nat × Nat)) : Prop :=
  L.Pairwise (fun a b => a.1 < b.1) ∧ ∀ a ∈ L, n ≤ a.1 ∧ a.2.1 < a.1 ∧ a.2.2 < a.1

theorem fold3_frame (n : Nat) (s : Nat → α) (g : Nat × Nat × Nat → α → α → α)
    (L : List (Nat × Nat × Nat)) (init : Nat → α) (j : Nat) (hj : ∀ a ∈ L, a.1 - n ≠ j) :
    fold3 n s g L init j = init j := by
  unfold fold3
  induction L generalizing init with
  | nil => rfl
  | cons a L ih =>
    simp only [List.foldl_cons]
    rw [ih _ (fun b hb => hj b (List.mem_cons_of_mem _ hb))]
    exact upd_other _ _ (fun h => hj a List.mem_cons_self h.symm)

theorem fold3_cons (n : Nat) (s : Nat → α) (g : Nat × Nat × Nat → α → α → α)
    (a : Nat × Nat × Nat) (L : List (Nat × Nat × Nat)) (init : Nat → α) :
    fold3 n s g (a :: L) init
      = fold3 n s g L (upd init (a.1 - n) (g a (rd n s init a.2.1) (rd n s init a.2.2))) := rfl

theorem fold3_spec (n : Nat) (s : Nat → α) (g : Nat × Nat × Nat → α → α → α)
    (L : List (Nat × Nat × Nat)) (hL : TriplesOK n L) (init : Nat → α) :
    ∀ a ∈ L, fold3 n s g L init (a.1 - n)
      = g a (rd n s (fold3 n s g L init) a.2.1) (rd n s (fold3 n s g L init) a.2.2) := by
  induction L generalizing init with
  | nil => intro a ha; cases ha
  | cons a0 L ih =>
    obtain ⟨hpw, hch⟩ := hL
    rw [List.pairwise_cons] at hpw
    obtain ⟨h0, hpw'⟩ := hpw
    have hL' : TriplesOK n L := ⟨hpw', fun a ha => hch a (List.mem_cons_of_mem _ ha)⟩
    intro a ha
    rw [fold3_cons]
    rcases List.mem_cons.mp ha with rfl | ha'
    · obtain ⟨hn, hl, hr⟩ := hch a List.mem_cons_self
      have key : ∀ c, c < a.1 → ∀ v : α,
          rd n s (fold3 n s g L (upd init (a.1 - n) v)) c = rd n s init c := by
        intro c hc v
        unfold rd
        split
        · rfl
        · rename_i hcn
          rw [fold3_frame n s g L _ (c - n) (fun b hb => by
            have := h0 b hb; have := (hch b (List.mem_cons_of_mem _ hb)).1; omega)]
          exact upd_other _ _ (by omega)
      rw [fold3_frame n s g L _ (a.1 - n) (fun b hb => by
        have := h0 b hb; have := (hch b (List.mem_cons_of_mem _ hb)).1; omega)]
      rw [upd_same]
      rw [key a.2.1 hl, key a.2.2 hr]
    · exact ih hL' _ a ha'

/-! ### map-like loop: independent values written at distinct keys -/
theorem foldKey_spec {β : Type} (key : β → Nat) (val : β → α) (L : List β)
    (hL : L.Pairwise (fun a b => key a ≠ key b)) (init : Nat → α) :
    ∀ a ∈ L, L.foldl (fun X a => upd X (key a) (val a)) init (key a) = val a := by
  induction L generalizing init with
  | nil => intro a ha; cases ha
  | cons a0 L ih =>
    rw [List.pairwise_cons] at hL
    intro a ha
    simp only [List.foldl_cons]
    rcases List.mem_cons.mp ha with rfl | ha'
    · have : ∀ (L : List β) (X : Nat → α), (∀ b ∈ L, key a ≠ key b) →
          L.foldl (fun X a => upd X (key a) (val a)) X (key a) = X (key a) := by
        intro L
        induction L with
        | nil => intro X _; rfl
        | cons b L ihL =>
          intro X hb
          simp only [List.foldl_cons]
          rw [ihL _ (fun c hc => hb c (List.mem_cons_of_mem _ hc))]
          exact upd_other _ _ (hb b List.mem_cons_self)
      rw [this L _ hL.1, upd_same]
    · exact ih hL.2 _ a ha'

/-! ### induction along a pre-order list: every parent is known or an earlier child -/
def Reach (K : Nat → Prop) : List (Nat × Nat) → Prop
  | [] => True
  | a :: L => K a.1 ∧ Reach (fun x => x = a.2 ∨ K x) L

theorem Reach.mono {K K' : Nat → Prop} (h : ∀ x, K x → K' x) :
    ∀ {L : List (Nat × Nat)}, Reach K L → Reach K' L
  | [], _ => trivial
  | _ :: _, hr => ⟨h _ hr.1, Reach.mono (fun x hx => hx.imp id (h x)) hr.2⟩

theorem Reach.append {K : Nat → Prop} : ∀ {L1 L2 : List (Nat × Nat)},
    Reach K L1 → Reach K L2 → Reach K (L1 ++ L2)
  | [], _, _, h2 => h2
  | _ :: _, _, h1, h2 =>
    ⟨h1.1, Reach.append h1.2 (Reach.mono (fun _ hx => Or.inr hx) h2)⟩

theorem Reach.ind {K : Nat → Prop} {P : Nat → Prop} :
    ∀ {L : List (Nat × Nat)}, Reach K L → (∀ x, K x → P x) →
      (∀ a ∈ L, P a.1 → P a.2) → ∀ a ∈ L, P a.1 ∧ P a.2
  | [], _, _, _ => fun a ha => by cases ha
  | a0 :: L, hr, hK, hstep => by
    intro a ha
    have p1 : P a0.1 := hK _ hr.1
    have p2 : P a0.2 := hstep a0 List.mem_cons_self p1
    rcases List.mem_cons.mp ha with rfl | ha'
    · exact ⟨p1, p2⟩
    · exact Reach.ind hr.2 (fun x hx => by rcases hx with rfl | hx; exact p2; exact hK x hx)
        (fun b hb => hstep b (List.mem_cons_of_mem _ hb)) a ha'

theorem Reach.parent {K : Nat → Prop} :
    ∀ {L : List (Nat × Nat)}, Reach K L → ∀ a ∈ L, K a.1 ∨ a.1 ∈ L.map Prod.snd
  | [], _ => fun a ha => by cases ha
  | a0 :: L, hr => by
    intro a ha
    rcases List.mem_cons.mp ha with rfl | ha'
    · exact Or.inl hr.1
    · rcases Reach.parent hr.2 a ha' with (h | h) | h
      · exact Or.inr (by simp [h])
      · exact Or.inl h
      · exact Or.inr (by simp only [List.map_cons, List.mem_cons]; exact Or.inr h)

end TT.C06
