import TTModel.C07_Torch
import TTProofs.Lemmas.C07_Calc
import Mathlib.Analysis.SpecialFunctions.Pow.Deriv
import Mathlib.Analysis.Calculus.Deriv.Inv
import Mathlib.Analysis.Calculus.Deriv.Comp
import Mathlib.Analysis.Calculus.Deriv.Inverse
/-! real-number facts about the torch transforms of `TTModel/C07_Torch.lean` -/
namespace TT.C07.Torch
open TT TT.C07

theorem nat_real (k : Nat) : (nat k : ℝ) = k := by
  induction k with
  | zero => simp [nat]
  | succ k ih => simp [nat, ih]

theorem absS_real (v : ℝ) : absS v = |v| := by
  unfold absS
  split
  · rw [abs_of_neg ‹_›]
  · rw [abs_of_nonneg (not_lt.mp ‹_›)]

theorem clamp_of_mem {lo hi v : ℝ} (h1 : lo ≤ v) (h2 : v ≤ hi) : clamp lo hi v = v := by
  unfold clamp
  rw [if_neg (not_lt.mpr h1), if_neg (not_lt.mpr h2)]

theorem clampMin_of_le {lo v : ℝ} (h1 : lo ≤ v) : clampMin lo v = v := by
  unfold clampMin
  rw [if_neg (not_lt.mpr h1)]

theorem softplusT_of_le {x : ℝ} (h : x ≤ 20) : softplusT x = softplus x := by
  unfold softplusT
  rw [if_neg (by rw [nat_real]; push_cast; exact not_lt.mpr h)]
  rfl

theorem sigmoid_eq_sigm (x : ℝ) : sigmoid x = sigm x := by
  unfold sigmoid sigm
  simp only [trans_exp_real, Real.exp_neg]
  have hx : Real.exp x ≠ 0 := ne_of_gt (Real.exp_pos x)
  have h1 : 1 + Real.exp x ≠ 0 := ne_of_gt (one_add_exp_pos x)
  field_simp
  ring

theorem sigm_lt_one (x : ℝ) : sigm x < 1 := by
  unfold sigm
  rw [div_lt_one (one_add_exp_pos x)]
  linarith [Real.exp_pos x]

theorem one_sub_sigm (x : ℝ) : 1 - sigm x = 1 / (1 + Real.exp x) := by
  unfold sigm
  have h1 : 1 + Real.exp x ≠ 0 := ne_of_gt (one_add_exp_pos x)
  field_simp
  ring

theorem log_one_sub_sigm (x : ℝ) : Real.log (1 - sigm x) = -softplus x := by
  rw [one_sub_sigm, softplus_real, one_div, Real.log_inv]

theorem hasDerivAt_sigm (x : ℝ) : HasDerivAt sigm (sigm x * (1 - sigm x)) x := by
  have h1 : HasDerivAt (fun t => 1 + Real.exp t) (Real.exp x) x := by
    simpa using (Real.hasDerivAt_exp x).const_add 1
  have h := (Real.hasDerivAt_exp x).div h1 (ne_of_gt (one_add_exp_pos x))
  have e : sigm x * (1 - sigm x)
      = (Real.exp x * (1 + Real.exp x) - Real.exp x * Real.exp x) / (1 + Real.exp x) ^ 2 := by
    unfold sigm
    have hne : 1 + Real.exp x ≠ 0 := ne_of_gt (one_add_exp_pos x)
    field_simp
  rw [e]
  exact h

theorem continuous_sigm : Continuous sigm := by
  unfold sigm
  exact Real.continuous_exp.div (continuous_const.add Real.continuous_exp)
    (fun x => ne_of_gt (one_add_exp_pos x))

/-- logit ∘ sigmoid = id -/
theorem logit_sigm (x : ℝ) : Real.log (sigm x) - Real.log (1 - sigm x) = x := by
  rw [log_sigm, log_one_sub_sigm, softplus_real, softplus_real, Real.exp_neg]
  have hx : Real.exp x ≠ 0 := ne_of_gt (Real.exp_pos x)
  have : 1 + (Real.exp x)⁻¹ = (1 + Real.exp x) / Real.exp x := by field_simp; ring
  rw [this, Real.log_div (ne_of_gt (one_add_exp_pos x)) hx, Real.log_exp]
  ring

/-- generic: the `.inv` wrapper. If `f` has derivative `d ≠ 0` at `x` and `g` is a continuous local
inverse, the reported `-ld(x, y)` of the inverse is the log-derivative of `g` at `y = f x`. -/
theorem inv_logderiv {f g : ℝ → ℝ} {x d : ℝ} (hf : HasDerivAt f d x) (hd : d ≠ 0)
    (hg : ContinuousAt g (f x)) (hgx : g (f x) = x)
    (hfg : ∀ᶠ y in nhds (f x), f (g y) = y) :
    Real.log |deriv g (f x)| = -Real.log |d| := by
  have hf' : HasDerivAt f d (g (f x)) := by rw [hgx]; exact hf
  have := (hf'.of_local_left_inverse hg hd hfg).deriv
  rw [this, abs_inv, Real.log_inv]

/-- generic: chain rule for the log-derivative -/
theorem comp_logderiv {f g : ℝ → ℝ} {x d e : ℝ} (hf : HasDerivAt f d x) (hg : HasDerivAt g e (f x))
    (hd : d ≠ 0) (he : e ≠ 0) :
    Real.log |deriv (g ∘ f) x| = Real.log |d| + Real.log |e| := by
  rw [(hg.comp x hf).deriv, abs_mul, Real.log_mul (abs_ne_zero.mpr he) (abs_ne_zero.mpr hd)]
  ring

end TT.C07.Torch
