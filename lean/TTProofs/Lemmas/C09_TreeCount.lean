import TTProofs.Lemmas.C09_Master
import Mathlib.Algebra.Order.Interval.Finset.Basic
/-! C09: the crossing terms of the density, counted lineage by lineage. -/
open TT TT.C09 Set
namespace TT.C09

/-- cost of crossing the boundary `t_j` unsampled and traversing epoch `j` to its end -/
noncomputable def crossCost (r : Rates ℝ) (t : Nat → ℝ) (Lq : Nat → ℝ → ℝ) (j : Nat) : ℝ :=
  Lq j (t j) + Real.log (1 - r.rho (j - 1))

/-- everything a lineage that is alive in epoch `a − 1` still has to pay for the later epochs -/
noncomputable def tailCost (r : Rates ℝ) (t : Nat → ℝ) (m : Nat) (Lq : Nat → ℝ → ℝ) (a : Nat) : ℝ :=
  ∑ j ∈ Finset.Ico a m, crossCost r t Lq j

/-- for a birth time `x` in epoch `k`: boundaries after `x` are those with index `> k` -/
theorem sum_ite_lt_boundary {t : Nat → ℝ} {m : Nat} (g : Grid t m) (c : Nat → ℝ) (x : ℝ) (k : Nat) (hk : k < m)
    (h1 : t k ≤ x) (h2 : x < t (k + 1)) :
    ∑ j ∈ Finset.Ico 1 m, (if x < t j then c j else 0) = ∑ j ∈ Finset.Ico (k + 1) m, c j := by
  rw [← Finset.sum_filter]
  congr 1
  ext j
  simp only [Finset.mem_filter, Finset.mem_Ico]
  constructor
  · rintro ⟨⟨_, hjm⟩, hx⟩
    refine ⟨?_, hjm⟩
    by_contra hc
    have : t j ≤ t k := g.le (by omega) (by omega)
    linarith
  · rintro ⟨hkj, hjm⟩
    refine ⟨⟨by omega, hjm⟩, ?_⟩
    have : t (k + 1) ≤ t j := g.le hkj (by omega)
    linarith

/-- for a sampling time `y` in epoch `k` (its end included): boundaries at or after `y` have index `> k` -/
theorem sum_ite_le_boundary {t : Nat → ℝ} {m : Nat} (g : Grid t m) (c : Nat → ℝ) (y : ℝ) (k : Nat) (hk : k < m)
    (h1 : t k < y) (h2 : y ≤ t (k + 1)) :
    ∑ j ∈ Finset.Ico 1 m, (if y ≤ t j then c j else 0) = ∑ j ∈ Finset.Ico (k + 1) m, c j := by
  rw [← Finset.sum_filter]
  congr 1
  ext j
  simp only [Finset.mem_filter, Finset.mem_Ico]
  constructor
  · rintro ⟨⟨_, hjm⟩, hx⟩
    refine ⟨?_, hjm⟩
    by_contra hc
    have : t j ≤ t k := g.le (by omega) (by omega)
    linarith
  · rintro ⟨hkj, hjm⟩
    refine ⟨⟨by omega, hjm⟩, ?_⟩
    have : t (k + 1) ≤ t j := g.le hkj (by omega)
    linarith

/-- **double counting**: the crossing terms `Σ_j n_j c_j` of the density are what every lineage pays, event by event:
the origin pays all boundaries, each birth adds the boundaries after it, each sampling removes them -/
theorem crossing_double_count {t : Nat → ℝ} {m : Nat} (g : Grid t m) (c : Nat → ℝ) (xs ys : List ℝ)
    (hev : Events t m xs ys) :
    ∑ j ∈ Finset.Ico 1 m, (nCross t j xs ys : ℝ) * c j
      = ∑ j ∈ Finset.Ico 1 m, c j
        + (xs.map fun x => ∑ j ∈ Finset.Ico (idxX t m x + 1) m, c j).sum
        - (ys.map fun y => ∑ j ∈ Finset.Ico (idxY t m y + 1) m, c j).sum := by
  have hX : ∀ l : List ℝ, (∀ x ∈ l, t 0 ≤ x ∧ x < t m) →
      ∑ j ∈ Finset.Ico 1 m, ((l.filter fun x => x < t j).length : ℝ) * c j
        = (l.map fun x => ∑ j ∈ Finset.Ico (idxX t m x + 1) m, c j).sum := by
    intro l
    induction l with
    | nil => intro _; simp
    | cons a l ih =>
        intro hl
        have da := hl a List.mem_cons_self
        obtain ⟨k, hk, k1, k2⟩ := exists_epoch_X (t := t) (m := m) a da.1 da.2
        rw [List.map_cons, List.sum_cons, ← ih (fun x hx => hl x (List.mem_cons_of_mem _ hx)),
          idxX_of_mem g k hk a k1 k2, ← sum_ite_lt_boundary g c a k hk k1 k2, ← Finset.sum_add_distrib]
        apply Finset.sum_congr rfl
        intro j _
        by_cases h : a < t j <;> simp [List.filter_cons, h] <;> ring
  have hY : ∀ l : List ℝ, (∀ y ∈ l, t 0 < y ∧ y ≤ t m) →
      ∑ j ∈ Finset.Ico 1 m, ((l.filter fun y => y ≤ t j).length : ℝ) * c j
        = (l.map fun y => ∑ j ∈ Finset.Ico (idxY t m y + 1) m, c j).sum := by
    intro l
    induction l with
    | nil => intro _; simp
    | cons a l ih =>
        intro hl
        have da := hl a List.mem_cons_self
        obtain ⟨k, hk, k1, k2⟩ := exists_epoch_Y (t := t) (m := m) a da.1 da.2
        rw [List.map_cons, List.sum_cons, ← ih (fun x hx => hl x (List.mem_cons_of_mem _ hx)),
          idxY_of_mem g k hk a k1 k2, ← sum_ite_le_boundary g c a k hk k1 k2, ← Finset.sum_add_distrib]
        apply Finset.sum_congr rfl
        intro j _
        by_cases h : a ≤ t j <;> simp [List.filter_cons, h] <;> ring
  rw [← hX xs hev.1, ← hY ys hev.2, ← Finset.sum_add_distrib, ← Finset.sum_sub_distrib]
  apply Finset.sum_congr rfl
  intro j _
  unfold nCross
  push_cast
  ring

end TT.C09
