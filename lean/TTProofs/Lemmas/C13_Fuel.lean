import TTModel.C13_Loader
/-! C13: fuel equal to the nesting depth is enough — the loader model never answers `fuel` then. -/
namespace TT.C13
open Json

variable {ν : Type}

theorem depth_pos (j : Json ν) : 1 ≤ depth j := by
  cases j <;> simp [depth]

theorem depth_lookup_le (k : String) :
    ∀ (kvs : List (String × Json ν)) (v : Json ν), lookup k kvs = some v → depth v ≤ depthFields kvs := by
  intro kvs
  induction kvs with
  | nil => intro v h; simp [lookup] at h
  | cons e rest ih =>
    rcases e with ⟨k', v'⟩
    intro v h
    simp only [lookup] at h
    by_cases hk : k' = k
    · simp only [hk, if_true, Option.some.injEq] at h
      subst h
      simp only [depthFields]; exact Nat.le_max_left _ _
    · simp only [hk, if_false] at h
      simp only [depthFields]
      exact Nat.le_trans (ih v h) (Nat.le_max_right _ _)

theorem depth_mem_le : ∀ (xs : List (Json ν)) (x : Json ν), x ∈ xs → depth x ≤ depthList xs := by
  intro xs
  induction xs with
  | nil => intro x h; cases h
  | cons y ys ih =>
    intro x h
    simp only [depthList]
    rcases List.mem_cons.mp h with rfl | h
    · exact Nat.le_max_left _ _
    · exact Nat.le_trans (ih x h) (Nat.le_max_right _ _)

/-- `f` never runs out of fuel on values of depth at most `b` -/
def NoFuel (f : Json ν → St → Except Err (Addr × St)) (b : Nat) : Prop :=
  ∀ j, depth j ≤ b → ∀ st, f j st ≠ .error .fuel

theorem processList_nofuel {f : Json ν → St → Except Err (Addr × St)} {b : Nat} (hf : NoFuel f b) :
    ∀ (xs : List (Json ν)), depthList xs ≤ b → ∀ st, processList f xs st ≠ .error .fuel := by
  intro xs
  induction xs with
  | nil => intro _ st; simp [processList]
  | cons x xs ih =>
    intro hd st
    simp only [depthList] at hd
    have hx : depth x ≤ b := Nat.le_trans (Nat.le_max_left _ _) hd
    have hxs : depthList xs ≤ b := Nat.le_trans (Nat.le_max_right _ _) hd
    simp only [processList]
    split
    · rename_i e he; intro h; cases h; exact hf x hx st he
    · rename_i a st1 _
      split
      · rename_i e he; intro h; cases h; exact ih hxs st1 he
      · intro h; cases h

theorem processMany_nofuel {f : Json ν → St → Except Err (Addr × St)} {b : Nat} (hf : NoFuel f b)
    (j : Json ν) (hd : depth j ≤ b) (st : St) : processMany f j st ≠ .error .fuel := by
  unfold processMany
  split
  · rename_i xs
    simp only [depth] at hd
    exact processList_nofuel hf xs (by omega) st
  · split
    · rename_i e he; intro h; cases h; exact hf j hd st he
    · intro h; cases h

theorem processSub_nofuel {f : Json ν → St → Except Err (Addr × St)} {b : Nat} (hf : NoFuel f b)
    (mode : SubMode) (cls id : String) (sub : List (String × Json ν)) (hd : depthFields sub ≤ b) :
    ∀ (args : List String) st, processSub f mode cls id sub args st ≠ .error .fuel := by
  intro args
  induction args with
  | nil => intro st; simp [processSub]
  | cons arg args ih =>
    intro st
    simp only [processSub]
    split
    · exact ih st
    · rename_i v hv
      have hvd : depth v ≤ b := Nat.le_trans (depth_lookup_le arg sub v hv) hd
      split
      · rename_i e he
        intro h; cases h
        -- the step for this argument produced `fuel`
        split at he
        · split at he <;> cases he
        · cases he
        · cases he
        · cases he
        · split at he
          · rename_i e' hfe; cases he; exact hf v hvd st hfe
          · cases he
      · rename_i as1 st1 _
        split
        · rename_i e he; intro h; cases h; exact ih st1 he
        · intro h; cases h

theorem processSlot_nofuel (tbl : ClassTable) {f : Json ν → St → Except Err (Addr × St)} {b : Nat}
    (hf : NoFuel f b) (cls id : String) (data : List (String × Json ν)) (hd : depthFields data ≤ b)
    (slot : Slot) (st : St) : processSlot tbl f cls id data slot st ≠ .error .fuel := by
  have hl : ∀ k v, lookup k data = some v → depth v ≤ b :=
    fun k v h => Nat.le_trans (depth_lookup_le k data v h) hd
  cases slot with
  | one k =>
    simp only [processSlot]
    split
    · intro h; cases h
    · rename_i v hv
      split
      · rename_i e he; intro h; cases h; exact hf v (hl k v hv) st he
      · intro h; cases h
  | many k =>
    simp only [processSlot]
    split
    · intro h; cases h
    · rename_i v hv; exact processMany_nofuel hf v (hl k v hv) st
  | optOne k =>
    simp only [processSlot]
    split
    · intro h; cases h
    · rename_i v hv
      split
      · rename_i e he; intro h; cases h; exact hf v (hl k v hv) st he
      · intro h; cases h
  | optMany k =>
    simp only [processSlot]
    split
    · intro h; cases h
    · rename_i v hv; exact processMany_nofuel hf v (hl k v hv) st
  | each k =>
    simp only [processSlot]
    split
    · intro h; cases h
    · rename_i xs hv
      have := hl k _ hv
      simp only [depth] at this
      exact processList_nofuel hf xs (by omega) st
    · intro h; cases h
  | firstOf alts =>
    simp only [processSlot]
    split
    · intro h; cases h
    · split
      · intro h; cases h
      · rename_i v hv
        split
        · rename_i e he; intro h; cases h; exact hf v (hl _ v hv) st he
        · intro h; cases h
    · intro h; cases h
  | need k =>
    simp only [processSlot]
    split <;> (intro h; cases h)
  | oneUnless k o =>
    simp only [processSlot]
    split
    · intro h; cases h
    · split
      · intro h; cases h
      · rename_i v hv
        split
        · rename_i e he; intro h; cases h; exact hf v (hl k v hv) st he
        · intro h; cases h
  | sub k by_ mode =>
    simp only [processSlot]
    split
    · intro h; cases h
    · rename_i sub hv
      have := hl k _ hv
      simp only [depth] at this
      split
      · split
        · exact processSub_nofuel hf mode cls id sub (by omega) _ st
        · intro h; cases h
      · intro h; cases h
    · intro h; cases h

theorem processSlots_nofuel (tbl : ClassTable) {f : Json ν → St → Except Err (Addr × St)} {b : Nat}
    (hf : NoFuel f b) (cls id : String) (data : List (String × Json ν)) (hd : depthFields data ≤ b) :
    ∀ (slots : List Slot) st, processSlots tbl f cls id data slots st ≠ .error .fuel := by
  intro slots
  induction slots with
  | nil => intro st; simp [processSlots]
  | cons s ss ih =>
    intro st
    simp only [processSlots]
    split
    · rename_i e he; intro h; cases h; exact processSlot_nofuel tbl hf cls id data hd s st he
    · rename_i as st1 _
      split
      · rename_i e he; intro h; cases h; exact ih st1 he
      · intro h; cases h

theorem rangeFold_nofuel (g : Nat → Option Addr) (s : String) :
    ∀ (l : List Nat) (acc : Except Err (Option Addr)), acc ≠ .error .fuel →
      rangeFold g s l acc ≠ .error .fuel := by
  intro l
  induction l with
  | nil => intro acc h; simpa [rangeFold] using h
  | cons i l ih =>
    have step : ∀ acc' : Except Err (Option Addr), rangeFold g s (i :: l) acc' = rangeFold g s l (match acc' with
        | .error e => .error e
        | .ok _ => match g i with
          | some x => .ok (some x)
          | none => .error (.notFound s)) := fun _ => rfl
    intro acc h
    rw [step]
    apply ih
    cases acc with
    | error e => simpa using h
    | ok o => simp only; split <;> simp

theorem resolveRange_nofuel (s : String) (reg : List (String × Addr)) :
    resolveRange s reg ≠ .error .fuel := by
  unfold resolveRange
  split
  · intro h; cases h
  · rename_i stem a b _
    split
    · rename_i e he
      intro h; cases h
      exact rangeFold_nofuel _ s _ _ (by simp) he
    · intro h; cases h
    · intro h; cases h

theorem wrapErr_ne_fuel (c : ClassSpec) (i : String) (e : Err) (he : e ≠ .fuel) : wrapErr c i e ≠ .fuel := by
  unfold wrapErr
  cases e <;> simp_all [Err.isParse]
  split <;> simp

theorem constructPlain_nofuel (cfg : Cfg) (tbl : ClassTable) {f : Json ν → St → Except Err (Addr × St)} {b : Nat}
    (hf : NoFuel f b) (c : ClassSpec) (id : String) (data : List (String × Json ν)) (hd : depthFields data ≤ b)
    (st : St) : constructPlain cfg tbl f c id data st ≠ .error .fuel := by
  unfold constructPlain
  split
  · rename_i e he
    intro h; injection h with h
    exact wrapErr_ne_fuel c id e (fun hfu => by subst hfu; exact processSlots_nofuel tbl hf _ _ data hd _ st he) h
  · split <;> (intro h; cases h)

theorem constructSelf_nofuel (cfg : Cfg) (tbl : ClassTable) {f : Json ν → St → Except Err (Addr × St)} {b : Nat}
    (hf : NoFuel f b) (c : ClassSpec) (k : Nat) (id : String) (data : List (String × Json ν))
    (hd : depthFields data ≤ b) (st : St) : constructSelf cfg tbl f c k id data st ≠ .error .fuel := by
  unfold constructSelf
  split
  · rename_i e he
    intro h; injection h with h
    exact wrapErr_ne_fuel c id e (fun hfu => by subst hfu; exact processSlots_nofuel tbl hf _ _ data hd _ st he) h
  · split
    · intro h; cases h
    · simp only
      split
      · rename_i e he
        intro h; injection h with h
        exact wrapErr_ne_fuel c id e
          (fun hfu => by subst hfu; exact processSlots_nofuel tbl hf _ _ data hd _ _ he) h
      · split <;> (intro h; cases h)

/-- **fuel_enough**: with fuel at least the nesting depth the loader never answers `fuel` -/
theorem processObject_fuel_enough (cfg : Cfg) (tbl : ClassTable) :
    ∀ fuel, NoFuel (ν := ν) (processObject cfg tbl fuel) fuel := by
  intro fuel
  induction fuel with
  | zero => intro j hj; have := depth_pos j; omega
  | succ fuel ih =>
    intro j hj st
    unfold processObject
    split
    · -- reference
      rename_i s
      split
      · intro h; cases h
      · rename_i e he
        intro h; cases h
        unfold resolveRef at he
        split at he
        · exact resolveRange_nofuel s st.reg he
        · split at he <;> cases he
    · rename_i data
      simp only [depth] at hj
      have hd : depthFields data ≤ fuel := by omega
      split
      · intro h; cases h
      · split
        · intro h; cases h
        · split
          · intro h; cases h
          · split
            · intro h; cases h
            · rename_i c _
              unfold constructObject
              split
              · exact constructPlain_nofuel cfg tbl ih c _ data hd st
              · exact constructSelf_nofuel cfg tbl ih c _ _ data hd st
          · intro h; cases h
      · intro h; cases h
    · intro h; cases h

end TT.C13
