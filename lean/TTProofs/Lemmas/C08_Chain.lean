import TTProofs.Lemmas.C08_Integral
import TTProofs.Lemmas.C08_LinSpec
/-!
# C08 — the walk/integral lemma when the per-piece integrand is only known between CONSECUTIVE events

For the piecewise-linear population size the closed form of `∫ 1/N` is valid on an interval only if no knot of `N`
lies strictly inside; consecutive events of the sorted list satisfy this because every knot is itself an event.
-/
namespace TT.C08
open MeasureTheory intervalIntegral

/-- `Good` holds between the times of consecutive list elements -/
def ConsecGood (Good : ℝ → ℝ → Prop) : List (Ev ℝ) → Prop
  | e1 :: e2 :: rest => Good e1.t e2.t ∧ ConsecGood Good (e2 :: rest)
  | _ => True

theorem walk_integral_chain (φ : ℤ → ℕ → ℝ → ℝ) (c : ℤ → ℕ → ℝ → ℝ → ℝ) (v : Int) (Good : ℝ → ℝ → Prop)
    (hφ : ∀ k j a b, a ≤ b → Good a b →
      IntervalIntegrable (φ k j) volume a b ∧ ∫ x in a..b, φ k j x = c k j a b) :
    ∀ (l : List (Ev ℝ)) (e1 : Ev ℝ) (k : ℤ) (j : ℕ), TimeSorted (e1 :: l) → ConsecGood Good (e1 :: l) →
      IntervalIntegrable (stateFn φ v k j (e1 :: l)) volume e1.t (lastTime e1 l) ∧
      ∫ x in e1.t..lastTime e1 l, stateFn φ v k j (e1 :: l) x = walk c v k j (e1 :: l)
  | [], e1, k, j, _, _ => by
      simp [lastTime, walk]
  | e2 :: rest, e1, k, j, hs, hg => by
      have hp := List.pairwise_cons.mp hs
      have h12 : e1.t ≤ e2.t := hp.1 e2 (List.mem_cons_self)
      have h2l : e2.t ≤ lastTime e2 rest := le_lastTime rest e2 hp.2 e2 (List.mem_cons_self)
      have hp2 := List.pairwise_cons.mp hp.2
      obtain ⟨ihI, ihV⟩ := walk_integral_chain φ c v Good hφ rest e2 (k + e1.mark)
        (j + if e1.mark = v then 1 else 0) hp.2 hg.2
      obtain ⟨hI1, hV1⟩ := hφ (k + e1.mark) (j + if e1.mark = v then 1 else 0) e1.t e2.t h12 hg.1
      have hA : ∀ x ∈ Set.Ioc e1.t e2.t, stateFn φ v k j (e1 :: e2 :: rest) x
          = φ (k + e1.mark) (j + if e1.mark = v then 1 else 0) x := by
        intro x hx
        have hz : ∀ e ∈ e2 :: rest, x ≤ e.t := by
          intro e he
          rcases List.mem_cons.mp he with rfl | he
          · exact hx.2
          · exact le_trans hx.2 (hp2.1 e he)
        unfold stateFn
        rw [kAt_cons, jAt_cons, kAt_eq_zero hz, jAt_eq_zero v hz]
        simp only [hx.1, if_true, and_true, add_zero]
      have hB : ∀ x ∈ Set.Ioc e2.t (lastTime e2 rest), stateFn φ v k j (e1 :: e2 :: rest) x
          = stateFn φ v (k + e1.mark) (j + if e1.mark = v then 1 else 0) (e2 :: rest) x := by
        intro x hx
        have hlt : e1.t < x := lt_of_le_of_lt h12 hx.1
        unfold stateFn
        rw [kAt_cons (e1) (e2 :: rest), jAt_cons v e1 (e2 :: rest)]
        simp only [hlt, if_true, and_true, add_assoc]
      have hIA := integrable_congr_Ioc h12 hI1 hA
      have hIB := integrable_congr_Ioc h2l ihI hB
      refine ⟨hIA.trans hIB, ?_⟩
      show ∫ x in e1.t..lastTime e2 rest, stateFn φ v k j (e1 :: e2 :: rest) x = _
      rw [← intervalIntegral.integral_add_adjacent_intervals hIA hIB, integral_congr_Ioc h12 hA,
        integral_congr_Ioc h2l hB, hV1, ihV]
      rfl

/-- extension to any window `[a, b]` containing all events (as `walk_integral_window`) -/
theorem walk_integral_chain_window (φ : ℤ → ℕ → ℝ → ℝ) (c : ℤ → ℕ → ℝ → ℝ → ℝ) (v : Int)
    (Good : ℝ → ℝ → Prop)
    (hφ : ∀ k j a b, a ≤ b → Good a b →
      IntervalIntegrable (φ k j) volume a b ∧ ∫ x in a..b, φ k j x = c k j a b)
    (l : List (Ev ℝ)) (e1 : Ev ℝ) (k : ℤ) (j : ℕ) (hs : TimeSorted (e1 :: l)) (hg : ConsecGood Good (e1 :: l))
    (a b : ℝ) (ha : ∀ e ∈ e1 :: l, a ≤ e.t) (hb : ∀ e ∈ e1 :: l, e.t ≤ b)
    (h0 : ∀ j x, φ k j x = 0) (h1 : ∀ j x, φ (k + ((e1 :: l).map (·.mark)).sum) j x = 0) :
    ∫ x in a..b, stateFn φ v k j (e1 :: l) x = walk c v k j (e1 :: l) := by
  obtain ⟨hI, hV⟩ := walk_integral_chain φ c v Good hφ l e1 k j hs hg
  have hp := List.pairwise_cons.mp hs
  have ha1 : a ≤ e1.t := ha e1 (List.mem_cons_self)
  have hlast : ∀ e ∈ e1 :: l, e.t ≤ lastTime e1 l := le_lastTime l e1 hs
  have hlb : lastTime e1 l ≤ b := by
    have : ∀ (l : List (Ev ℝ)) (e : Ev ℝ), ∃ x ∈ e :: l, lastTime e l = x.t := by
      intro l
      induction l with
      | nil => intro e; exact ⟨e, List.mem_cons_self, rfl⟩
      | cons y ys ih =>
        intro e
        obtain ⟨x, hx, hxe⟩ := ih y
        exact ⟨x, List.mem_cons_of_mem _ hx, hxe⟩
    obtain ⟨x, hx, hxe⟩ := this l e1
    rw [hxe]; exact hb x hx
  have hL : ∀ x ∈ Set.Ioc a e1.t, stateFn φ v k j (e1 :: l) x = (fun _ => (0 : ℝ)) x := by
    intro x hx
    have hz : ∀ e ∈ e1 :: l, x ≤ e.t := by
      intro e he
      rcases List.mem_cons.mp he with rfl | he
      · exact hx.2
      · exact le_trans hx.2 (hp.1 e he)
    unfold stateFn
    rw [kAt_eq_zero hz, add_zero]
    exact h0 _ _
  have hR : ∀ x ∈ Set.Ioc (lastTime e1 l) b, stateFn φ v k j (e1 :: l) x = (fun _ => (0 : ℝ)) x := by
    intro x hx
    have hz : ∀ e ∈ e1 :: l, e.t < x := fun e he => lt_of_le_of_lt (hlast e he) hx.1
    unfold stateFn
    rw [kAt_eq_total hz]
    exact h1 _ _
  have hzero : ∀ p q : ℝ, IntervalIntegrable (fun _ : ℝ => (0 : ℝ)) volume p q := fun p q =>
    intervalIntegrable_const
  have hIL := integrable_congr_Ioc ha1 (hzero a e1.t) hL
  have hIR := integrable_congr_Ioc hlb (hzero (lastTime e1 l) b) hR
  rw [← intervalIntegral.integral_add_adjacent_intervals (hIL.trans hI) hIR,
    ← intervalIntegral.integral_add_adjacent_intervals hIL hI, integral_congr_Ioc ha1 hL,
    integral_congr_Ioc hlb hR, hV]
  simp

/-- every knot is the time of an event of `S`, or lies at/below all of them -/
def KnotsCovered (knots : List ℝ) (S : List (Ev ℝ)) : Prop :=
  ∀ g ∈ knots, (∃ e ∈ S, e.t = g) ∨ (∀ e ∈ S, g ≤ e.t)

theorem consecGood_of_covered (knots : List ℝ) : ∀ (S : List (Ev ℝ)), TimeSorted S → KnotsCovered knots S →
    ConsecGood (NoKnotInside knots) S
  | [], _, _ => trivial
  | [_], _, _ => trivial
  | e1 :: e2 :: rest, hs, hc => by
      have hp := List.pairwise_cons.mp hs
      have hp2 := List.pairwise_cons.mp hp.2
      refine ⟨?_, consecGood_of_covered knots (e2 :: rest) hp.2 ?_⟩
      · intro g hg ⟨h1, h2⟩
        rcases hc g hg with ⟨e, he, rfl⟩ | hall
        · rcases List.mem_cons.mp he with rfl | he
          · exact lt_irrefl _ h1
          · have : e2.t ≤ e.t := by
              rcases List.mem_cons.mp he with rfl | he
              · exact le_refl _
              · exact hp2.1 e he
            linarith
        · have := hall e1 (List.mem_cons_self); linarith
      · intro g hg
        rcases hc g hg with ⟨e, he, rfl⟩ | hall
        · rcases List.mem_cons.mp he with rfl | he
          · exact Or.inr (fun e' he' => hp.1 e' he')
          · exact Or.inl ⟨e, he, rfl⟩
        · exact Or.inr (fun e' he' => hall e' (List.mem_cons_of_mem _ he'))

end TT.C08
