import Mathlib.Analysis.SpecialFunctions.Integrals.Basic
/-!
# C08 — the integral of `1/N` over an interval on which `N` is linear
-/
namespace TT.C08
open MeasureTheory intervalIntegral

theorem linear_piece_integral (a b Na Nb : ℝ) (hab : a < b) (hNa : 0 < Na) (hNb : 0 < Nb) :
    ∫ t in a..b, 1 / (Na + (Nb - Na) * (t - a) / (b - a))
      = if Na = Nb then (b - a) / Na else (b - a) * (Real.log Nb - Real.log Na) / (Nb - Na) := by
  have hba : 0 < b - a := sub_pos.mpr hab
  split
  · rename_i h
    rw [h]
    simp only [sub_self, zero_mul, zero_div, add_zero]
    rw [intervalIntegral.integral_const]
    simp [div_eq_mul_inv]
  · rename_i hne
    have hd : Nb - Na ≠ 0 := sub_ne_zero.mpr (Ne.symm hne)
    -- N is positive on [a, b]: a convex combination of Na and Nb
    have hpos : ∀ t ∈ Set.uIcc a b, 0 < Na + (Nb - Na) * (t - a) / (b - a) := by
      intro t ht
      rw [Set.uIcc_of_le hab.le] at ht
      have h0 : 0 ≤ (t - a) / (b - a) := div_nonneg (sub_nonneg.mpr ht.1) hba.le
      have h1 : (t - a) / (b - a) ≤ 1 := (div_le_one hba).mpr (by linarith [ht.2])
      have : Na + (Nb - Na) * (t - a) / (b - a)
          = (1 - (t - a) / (b - a)) * Na + ((t - a) / (b - a)) * Nb := by ring
      rw [this]
      rcases eq_or_lt_of_le h0 with h | h
      · rw [← h]; simpa using hNa
      · have : 0 < ((t - a) / (b - a)) * Nb := mul_pos h hNb
        have : 0 ≤ (1 - (t - a) / (b - a)) * Na := mul_nonneg (by linarith) hNa.le
        linarith
    have hderiv : ∀ t ∈ Set.uIcc a b,
        HasDerivAt (fun t => (b - a) / (Nb - Na) * Real.log (Na + (Nb - Na) * (t - a) / (b - a)))
          (1 / (Na + (Nb - Na) * (t - a) / (b - a))) t := by
      intro t ht
      have hN : HasDerivAt (fun t => Na + (Nb - Na) * (t - a) / (b - a)) ((Nb - Na) / (b - a)) t := by
        have h1 : HasDerivAt (fun t : ℝ => t - a) 1 t := (hasDerivAt_id t).sub_const a
        have h2 := ((h1.const_mul (Nb - Na)).div_const (b - a)).const_add Na
        simpa using h2
      have hl := (hN.log (hpos t ht).ne').const_mul ((b - a) / (Nb - Na))
      have hp := (hpos t ht).ne'
      have hba' : b - a ≠ 0 := hba.ne'
      have heq : (b - a) / (Nb - Na) * ((Nb - Na) / (b - a) / (Na + (Nb - Na) * (t - a) / (b - a)))
          = 1 / (Na + (Nb - Na) * (t - a) / (b - a)) := by
        field_simp
      rw [heq] at hl
      exact hl
    have hcont : ContinuousOn (fun t => 1 / (Na + (Nb - Na) * (t - a) / (b - a))) (Set.uIcc a b) := by
      apply ContinuousOn.div continuousOn_const
      · fun_prop
      · intro t ht; exact (hpos t ht).ne'
    rw [intervalIntegral.integral_eq_sub_of_hasDerivAt hderiv hcont.intervalIntegrable]
    have ea : Na + (Nb - Na) * (a - a) / (b - a) = Na := by simp
    have eb : Na + (Nb - Na) * (b - a) / (b - a) = Nb := by field_simp; ring
    rw [ea, eb]
    field_simp

end TT.C08
