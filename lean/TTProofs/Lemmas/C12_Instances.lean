import TTProofs.Lemmas.C12_Builders
import TTModel.C04_Subst
import TTModel.C05_SiteModel
import TTModel.C06_Heights
import TTProofs.Lemmas.Sums
/-!
# C12 — value and definedness lemmas of the individual expression builders

`eval_X`: the builder `X` evaluated over `ℝ` is the readable closed form (the formula the Python code
computes after its sort / fold); `defined_X`: the builder only divides by, takes logs of, and raises to
real powers the quantities the natural hypotheses make non-zero / positive.  The property theorems in
`TTProofs/Props/C12.lean` combine these with `dual_sound`.
-/
namespace TTProps.C12
open TT TT.C12 TT.C12.Expr

/-- value of the builder: `Σ -C(k,2)·Δt/θ − m·log θ` over the sorted events -/
theorem eval_constantE (ρ : Nat → ℝ) (θ : Expr) (ts : List Expr) (marks : List Int) (m : Nat) :
    eval ρ (constantE θ ts marks m) =
      (List.zipWith (fun k d => -(C08.choose2 k : ℝ) * d / eval ρ θ) (lineagesM marks)
        (C08.diffs (ts.map (eval ρ)))).sum - (m : ℝ) * Real.log (eval ρ θ) := by
  simp only [constantE, eval, eval_sumL_real, List.map_zipWith, eval_choose2E, trans_log_real]
  rw [← map_eval_diffsE, List.zipWith_map_right]

theorem defined_constantE (ρ : Nat → ℝ) (θ : Expr) (ts : List Expr) (marks : List Int) (m : Nat)
    (hθ : Defined ρ θ) (h0 : eval ρ θ ≠ 0) (hts : ∀ e ∈ ts, Defined ρ e) :
    Defined ρ (constantE θ ts marks m) := by
  refine ⟨(defined_sumL _ _).2 (mem_zipWith fun k _ d hd => ?_), trivial, hθ, h0⟩
  exact ⟨⟨defined_choose2E ρ k, defined_diffsE ρ ts hts d hd⟩, hθ, h0⟩

theorem eval_skyrideE (ρ : Nat → ℝ) (θs ts : List Expr) (marks : List Int) :
    eval ρ (skyrideE θs ts marks) =
      -(C08.zipWith3 (fun k d i => (C08.choose2 k : ℝ) * d / (θs.map (eval ρ)).getD i 0) (lineagesM marks)
          (C08.diffs (ts.map (eval ρ))) (skyrideIdxM marks)).sum
        - ((θs.map (eval ρ)).map Real.log).sum := by
  simp only [skyrideE, eval, eval_sumL_real, map_zipWith3, eval_choose2E, eval_getD, List.map_map]
  rw [← map_eval_diffsE, zipWith3_map_mid]
  rfl

theorem defined_skyrideE (ρ : Nat → ℝ) (θs ts : List Expr) (marks : List Int)
    (hθ : ∀ e ∈ θs, Defined ρ e ∧ eval ρ e ≠ 0) (hts : ∀ e ∈ ts, Defined ρ e)
    (hidx : ∀ i ∈ skyrideIdxM marks, i < θs.length) :
    Defined ρ (skyrideE θs ts marks) := by
  refine ⟨(defined_sumL _ _).2 (mem_zipWith3 fun k _ d hd i hi => ?_), (defined_sumL _ _).2 ?_⟩
  · have hmem : θs.getD i (nat 0) ∈ θs := by
      rw [List.getD_eq_getElem?_getD, List.getElem?_eq_getElem (hidx i hi)]; simp
    exact ⟨⟨defined_choose2E ρ k, defined_diffsE ρ ts hts d hd⟩, (hθ _ hmem).1, (hθ _ hmem).2⟩
  · intro e he
    obtain ⟨a, ha, rfl⟩ := List.mem_map.mp he
    exact hθ a ha

theorem sum_zipWith3_neg {α β γ : Type} (g : α → β → γ → ℝ) :
    ∀ (l₁ : List α) (l₂ : List β) (l₃ : List γ),
      (C08.zipWith3 (fun a b c => -(g a b c)) l₁ l₂ l₃).sum = -(C08.zipWith3 g l₁ l₂ l₃).sum
  | [], _, _ => by simp [C08.zipWith3]
  | _ :: _, [], _ => by simp [C08.zipWith3]
  | _ :: _, _ :: _, [] => by simp [C08.zipWith3]
  | a :: l₁, b :: l₂, c :: l₃ => by
    simp only [C08.zipWith3, List.sum_cons, sum_zipWith3_neg g l₁ l₂ l₃]; ring

theorem eval_skygridE (ρ : Nat → ℝ) (θs ts : List Expr) (marks : List Int) (hL : marks.length = ts.length) :
    eval ρ (skygridE θs ts marks) =
      -(C08.zipWith3 (fun k d i => (C08.choose2 k : ℝ) * d / (θs.map (eval ρ)).getD i 0) (lineagesM marks)
          (C08.diffs (ts.map (eval ρ))) (skygridIdxM marks).dropLast).sum
        - ((List.zipWith (fun m i => if m = -1 then Real.log ((θs.map (eval ρ)).getD i 0) else (0 : ℝ)) marks
            (skygridIdxM marks)).tail).sum := by
  simp only [skygridE, eval_sumL_real, List.map_zipWith, eval]
  have h1 : ∀ (l₁ l₂ : List Expr), List.zipWith (fun a b => eval ρ a - eval ρ b) l₁ l₂
      = List.zipWith (fun a b => a - b) (l₁.map (eval ρ)) (l₂.map (eval ρ)) := by
    intro l₁ l₂; rw [List.zipWith_map]
  rw [h1, sum_zipWith_sub]
  · congr 1
    · rw [map_zipWith3]
      simp only [eval, eval_choose2E, eval_getD]
      rw [← sum_zipWith3_neg, ← map_eval_diffsE, zipWith3_map_mid]
      have hf : (fun (a : Int) (b : Expr) (c : Nat) => -C08.choose2 a * eval ρ b / (List.map (eval ρ) θs).getD c 0)
          = fun a b c => -((C08.choose2 a : ℝ) * eval ρ b / (List.map (eval ρ) θs).getD c 0) := by
        funext k d i; ring
      rw [hf]
    · rw [List.map_tail, List.map_zipWith]
      have hf : (fun (x : Int) (y : Nat) => eval ρ (if x = -1 then (θs.getD y (nat 0)).log else nat 0))
          = fun m i => if m = -1 then Real.log ((List.map (eval ρ) θs).getD i 0) else (0 : ℝ) := by
        funext m i
        split
        · simp only [eval, trans_log_real, eval_getD]
        · simp [eval]
      rw [hf]
  · simp only [List.length_map, List.length_tail, List.length_zipWith, length_zipWith3, lineagesM, skygridIdxM,
      List.length_dropLast, length_cumsum, C08.isMark]
    have : (diffsE ts).length = ts.length - 1 := by
      have := congrArg List.length (map_eval_diffsE ρ ts)
      simpa [length_diffs] using this
    rw [this]
    omega

theorem defined_skygridE (ρ : Nat → ℝ) (θs ts : List Expr) (marks : List Int)
    (hθ : ∀ e ∈ θs, Defined ρ e ∧ eval ρ e ≠ 0) (hts : ∀ e ∈ ts, Defined ρ e)
    (hidx : ∀ i ∈ skygridIdxM marks, i < θs.length) :
    Defined ρ (skygridE θs ts marks) := by
  have hget : ∀ i, i < θs.length → θs.getD i (nat 0) ∈ θs := fun i hi => by
    rw [List.getD_eq_getElem?_getD, List.getElem?_eq_getElem hi]; simp
  refine (defined_sumL _ _).2 (mem_zipWith fun a ha b hb => ⟨?_, ?_⟩)
  · revert a
    refine mem_zipWith3 fun k _ d hd i hi => ?_
    have hi' := hidx i (List.mem_of_mem_dropLast hi)
    exact ⟨⟨defined_choose2E ρ k, defined_diffsE ρ ts hts d hd⟩, (hθ _ (hget i hi')).1, (hθ _ (hget i hi')).2⟩
  · have hall : ∀ b ∈ List.zipWith (fun (m : Int) (i : Nat) => if m = -1 then (θs.getD i (nat 0)).log else nat 0)
        marks (skygridIdxM marks), Defined ρ b := by
      refine mem_zipWith fun m _ i hi => ?_
      split
      · exact ⟨(hθ _ (hget i (hidx i hi))).1, (hθ _ (hget i (hidx i hi))).2⟩
      · trivial
    exact hall b (List.mem_of_mem_tail hb)

/-- `log τ · (N−1)/2 − Σ (x_i − x_{i+1})² [/ w_i] · τ/2 − (N−1)/2 · c` (`c` = the literal `log 2π`) -/
noncomputable def gmrfLogDensity (x : List ℝ) (τ : ℝ) (w : Option (List ℝ)) (c : ℝ) : ℝ :=
  let sq := (diffsRev x).map fun d => d * d
  let sq := match w with
    | none => sq
    | some w => List.zipWith (fun a b => a / b) sq w
  Real.log τ * ((x.length - 1 : ℕ) : ℝ) / 2 - sq.sum * τ / 2 - ((x.length - 1 : ℕ) : ℝ) / 2 * c

theorem map_eval_sq (ρ : Nat → ℝ) (xs : List Expr) :
    ((diffsRevE xs).map fun d => mul d d).map (eval ρ) = (diffsRev (xs.map (eval ρ))).map fun d => d * d := by
  rw [← map_eval_diffsRevE, List.map_map, List.map_map]
  apply List.map_congr_left
  intro d _
  simp [eval]

theorem eval_gmrfE (ρ : Nat → ℝ) (xs : List Expr) (τ c : Expr) (ws : Option (List Expr)) :
    eval ρ (gmrfE xs τ ws c) =
      gmrfLogDensity (xs.map (eval ρ)) (eval ρ τ) (ws.map fun w => w.map (eval ρ)) (eval ρ c) := by
  cases ws with
  | none =>
    simp only [gmrfE, gmrfLogDensity, eval, eval_sumL_real, Option.map_none, trans_log_real, List.length_map]
    rw [map_eval_sq]
    simp only [Nat.cast_ofNat]
  | some w =>
    simp only [gmrfE, gmrfLogDensity, eval, eval_sumL_real, Option.map_some, trans_log_real, List.length_map]
    have : (List.zipWith div ((diffsRevE xs).map fun d => mul d d) w).map (eval ρ)
        = List.zipWith (fun a b => a / b) ((diffsRev (xs.map (eval ρ))).map fun d => d * d) (w.map (eval ρ)) := by
      rw [List.map_zipWith, ← map_eval_sq, List.zipWith_map]
      rfl
    rw [this]
    simp only [Nat.cast_ofNat]

theorem defined_div_nat2 (ρ : Nat → ℝ) (a : Expr) (ha : Defined ρ a) : Defined ρ (div a (nat 2)) :=
  ⟨ha, trivial, by simp [eval]⟩

theorem defined_gmrfE (ρ : Nat → ℝ) (xs : List Expr) (τ c : Expr) (ws : Option (List Expr))
    (hx : ∀ e ∈ xs, Defined ρ e) (hτ : Defined ρ τ) (hτ0 : eval ρ τ ≠ 0) (hc : Defined ρ c)
    (hw : ∀ w, ws = some w → ∀ e ∈ w, Defined ρ e ∧ eval ρ e ≠ 0) :
    Defined ρ (gmrfE xs τ ws c) := by
  have hsq : ∀ e ∈ (diffsRevE xs).map (fun d => mul d d), Defined ρ e := by
    intro e he
    obtain ⟨d, hd, rfl⟩ := List.mem_map.mp he
    exact ⟨defined_diffsRevE ρ xs hx d hd, defined_diffsRevE ρ xs hx d hd⟩
  cases ws with
  | none =>
    exact ⟨⟨defined_div_nat2 _ _ ⟨⟨hτ, hτ0⟩, trivial⟩, defined_div_nat2 _ _ ⟨(defined_sumL _ _).2 hsq, hτ⟩⟩,
      ⟨defined_div_nat2 _ _ trivial, hc⟩⟩
  | some w =>
    refine ⟨⟨defined_div_nat2 _ _ ⟨⟨hτ, hτ0⟩, trivial⟩,
      defined_div_nat2 _ _ ⟨(defined_sumL _ _).2 (mem_zipWith fun a ha b hb => ?_), hτ⟩⟩,
      ⟨defined_div_nat2 _ _ trivial, hc⟩⟩
    exact ⟨hsq a ha, (hw w rfl b hb).1, (hw w rfl b hb).2⟩

/-- the builder on the variable layout `field ++ [τ, c] ++ weights` evaluates to the closed form -/
theorem gmrf_eval_env (y : List ℝ) (τ c : ℝ) (w : Option (List ℝ)) :
    eval (envOf (y ++ ([τ, c] ++ (w.getD []))))
      (gmrfE (vars 0 y.length) (var y.length) (w.map fun l => vars (y.length + 2) l.length) (var (y.length + 1)))
      = gmrfLogDensity y τ w c := by
  rw [eval_gmrfE, map_eval_vars_envOf_prefix]
  have h1 : eval (envOf (y ++ ([τ, c] ++ (w.getD [])))) (var y.length) = τ := by
    simp [eval, envOf, List.getD_eq_getElem?_getD]
  have h2 : eval (envOf (y ++ ([τ, c] ++ (w.getD [])))) (var (y.length + 1)) = c := by
    simp [eval, envOf, List.getD_eq_getElem?_getD]
  rw [h1, h2]
  cases w with
  | none => rfl
  | some l =>
    have h3 : (vars (y.length + 2) l.length).map (eval (envOf (y ++ ([τ, c] ++ l)))) = l := by
      have := map_eval_vars_envOf (y ++ [τ, c]) l
      simpa [List.append_assoc] using this
    simp only [Option.map_some, Option.getD_some, h3]

theorem gmrf_defined_env (y : List ℝ) (τ c : ℝ) (w : Option (List ℝ)) (hτ : τ ≠ 0)
    (hw : ∀ l, w = some l → ∀ v ∈ l, v ≠ 0) :
    Defined (envOf (y ++ ([τ, c] ++ (w.getD []))))
      (gmrfE (vars 0 y.length) (var y.length) (w.map fun l => vars (y.length + 2) l.length) (var (y.length + 1))) := by
  refine defined_gmrfE _ _ _ _ _ (defined_vars _ _ _) trivial ?_ trivial ?_
  · simpa [eval, envOf, List.getD_eq_getElem?_getD] using hτ
  · intro l' hl' e he
    cases w with
    | none => simp at hl'
    | some l =>
      simp only [Option.map_some, Option.some.injEq] at hl'
      subst hl'
      refine ⟨defined_vars _ _ _ e he, ?_⟩
      have h3 : (vars (y.length + 2) l.length).map (eval (envOf (y ++ ([τ, c] ++ l)))) = l := by
        have := map_eval_vars_envOf (y ++ [τ, c]) l
        simpa [List.append_assoc] using this
      have hm : eval (envOf (y ++ ([τ, c] ++ l))) e ∈
          (vars (y.length + 2) l.length).map (eval (envOf (y ++ ([τ, c] ++ l)))) := List.mem_map_of_mem he
      rw [h3] at hm
      exact hw l rfl _ hm

theorem defined_jc (ρ : Nat → ℝ) (i j : Fin 4) : Defined ρ (if i = j then jcDiagE (var 0) else jcOffE (var 0)) := by
  by_cases h : i = j <;> simp [h, jcDiagE, jcOffE, ratio, Defined, eval]

theorem map_finRange_val {β : Type} (K : Nat) (g : Nat → β) :
    (List.finRange K).map (fun j => g j.val) = (List.range K).map g := by
  apply List.ext_getElem
  · simp
  · intro i h1 h2
    simp

theorem eval_quantileE (ρ : Nat → ℝ) (K i : Nat) (hi : i < K) :
    eval ρ (quantileE K i) = C05.quantile K ⟨i, hi⟩ := by
  simp [quantileE, eval, C05.quantile, C05.two]
  norm_num

theorem eval_weibullIcdfE (ρ : Nat → ℝ) (shape : Expr) (K i : Nat) (hi : i < K) :
    eval ρ (weibullIcdfE shape K i) = C05.weibullIcdf (eval ρ shape) (C05.quantile K ⟨i, hi⟩) := by
  simp only [weibullIcdfE, eval, eval_quantileE ρ K i hi, C05.weibullIcdf]
  simp

/-- the normaliser `Σ raw·probs` of the builder is the C05 normaliser (no invariant category) -/
theorem eval_weibull_norm (ρ : Nat → ℝ) (shape : Expr) (K : Nat) :
    eval ρ (sumL (List.zipWith mul ((List.range K).map (weibullIcdfE shape K))
        ((List.range K).map fun _ => div (nat 1) (nat K))))
      = C05.normaliser (C05.weibullRaw K (eval ρ shape)) (C05.probsPlain K) := by
  rw [eval_sumL_real, C05.normaliser, TT.sumFin_eq_sum, Fin.sum_univ_def]
  congr 1
  have : (List.finRange K).map (fun j : Fin K => C05.weibullRaw K (eval ρ shape) j * C05.probsPlain K j)
      = (List.range K).map fun j => (if h : j < K then C05.weibullIcdf (eval ρ shape) (C05.quantile K ⟨j, h⟩) else 0)
          * (1 / (K : ℝ)) := by
    rw [← map_finRange_val]
    apply List.map_congr_left
    intro j _
    simp [C05.weibullRaw, C05.probsPlain, j.isLt]
  rw [this, List.map_zipWith, List.zipWith_map, List.zipWith_self]
  apply List.ext_getElem
  · simp
  · intro i h1 h2
    have hi : i < K := by simpa using h1
    simp [eval, eval_weibullIcdfE ρ shape K i hi, hi]

theorem quantile_mem (K : Nat) (i : Fin K) : 0 < (C05.quantile K i : ℝ) ∧ (C05.quantile K i : ℝ) < 1 := by
  have hK : (0 : ℝ) < K := by exact_mod_cast Nat.lt_of_le_of_lt (Nat.zero_le _) i.isLt
  have hi : ((i.val : ℕ) : ℝ) + 1 ≤ K := by exact_mod_cast i.isLt
  have hi0 : (0 : ℝ) ≤ ((i.val : ℕ) : ℝ) := Nat.cast_nonneg _
  simp only [C05.quantile, C05.two]
  constructor
  · apply div_pos <;> linarith
  · rw [div_lt_one (by linarith)]
    linarith

theorem weibull_base_pos (K : Nat) (i : Fin K) : 0 < -Real.log (1 - C05.quantile K i) := by
  have h := quantile_mem K i
  have : Real.log (1 - C05.quantile K i) < 0 := Real.log_neg (by linarith) (by linarith)
  linarith

theorem defined_weibullIcdfE (ρ : Nat → ℝ) (shape : Expr) (K i : Nat) (hi : i < K) (hs : Defined ρ shape)
    (hs0 : eval ρ shape ≠ 0) : Defined ρ (weibullIcdfE shape K i) := by
  have hq := quantile_mem K ⟨i, hi⟩
  have hK : ((K : ℕ) : ℝ) ≠ 0 := by
    have : 0 < K := Nat.lt_of_le_of_lt (Nat.zero_le _) hi
    exact_mod_cast this.ne'
  have hqd : Defined ρ (quantileE K i) := ⟨⟨⟨trivial, trivial⟩, trivial⟩, ⟨trivial, trivial⟩, by simp [eval, hK]⟩
  refine ⟨⟨⟨trivial, hqd⟩, ?_⟩, ⟨trivial, hs, hs0⟩, ?_⟩
  · simp only [eval, eval_quantileE ρ K i hi]
    have : (1 : ℝ) - C05.quantile K ⟨i, hi⟩ ≠ 0 := by linarith [hq.2]
    simpa using this
  · simp only [eval, eval_quantileE ρ K i hi, trans_log_real]
    have := weibull_base_pos K ⟨i, hi⟩
    simpa using this

theorem weibull_normaliser_pos (K : Nat) (hK : 0 < K) (shape : ℝ) :
    0 < C05.normaliser (C05.weibullRaw K shape) (C05.probsPlain K) := by
  rw [C05.normaliser, TT.sumFin_eq_sum]
  have : Nonempty (Fin K) := ⟨⟨0, hK⟩⟩
  apply Finset.sum_pos
  · intro j _
    apply mul_pos
    · exact Real.rpow_pos_of_pos (weibull_base_pos K j) _
    · simp only [C05.probsPlain]
      have : (0 : ℝ) < K := by exact_mod_cast hK
      positivity
  · exact Finset.univ_nonempty

/-- variable layout: ratio/root-height `x_j` is `var (2j)`, bound `b (n+j)` is `var (2j+1)` -/
def ratioEnv (n : Nat) (b x : Nat → ℝ) : Nat → ℝ := fun v => if v % 2 = 0 then x (v / 2) else b (n + v / 2)

theorem ratioEnv_x (n : Nat) (b x : Nat → ℝ) (j : Nat) : ratioEnv n b x (2 * j) = x j := by
  simp [ratioEnv]

theorem ratioEnv_b (n : Nat) (b x : Nat → ℝ) (j : Nat) : ratioEnv n b x (2 * j + 1) = b (n + j) := by
  have h1 : (2 * j + 1) % 2 = 1 := by omega
  have h2 : (2 * j + 1) / 2 = j := by omega
  simp [ratioEnv, h1, h2]

theorem ratioEnv_update (n : Nat) (b x : Nat → ℝ) (i : Nat) (t : ℝ) :
    Function.update (ratioEnv n b x) (2 * i) t = ratioEnv n b (C06.upd x i t) := by
  funext v
  by_cases hv : v = 2 * i
  · subst hv; simp [ratioEnv, C06.upd]
  · rw [Function.update_of_ne hv]
    by_cases hp : v % 2 = 0
    · have : v / 2 ≠ i := by omega
      simp [ratioEnv, hp, C06.upd, this]
    · simp [ratioEnv, hp]

/-- the fold of the builder evaluates to the fold of the C06 model (`Vec` accumulator), node by node -/
theorem eval_heights_fold (ρ : Nat → ℝ) (n : Nat) (b x : Nat → ℝ) (bE xE : Nat → Expr)
    (hb : ∀ j, eval ρ (bE j) = b (n + j)) (hx : ∀ j, eval ρ (xE j) = x j) :
    ∀ (fwd : List (Nat × Nat)) (hE : Nat → Expr) (h : C06.Vec ℝ), (∀ k, eval ρ (hE k) = h.get k) →
      ∀ k, eval ρ ((fwd.foldl (fun h (a : Nat × Nat) =>
          updE h a.2 (add (bE a.2) (mul (xE a.2) (sub (h a.1) (bE a.2))))) hE) k)
        = (fwd.foldl (fun (h : C06.Vec ℝ) (a : Nat × Nat) =>
          C06.Vec.mk (C06.upd h.get a.2 (b (n + a.2) + x a.2 * (h.get a.1 - b (n + a.2))))) h).get k
  | [], _, _, hh => hh
  | a :: fwd, hE, h, hh => by
    simp only [List.foldl_cons]
    apply eval_heights_fold ρ n b x bE xE hb hx fwd
    intro k
    by_cases hk : k = a.2
    · simp [updE, C06.upd, hk, eval, hb, hx, hh]
    · simp [updE, C06.upd, hk, hh]

/-- the bound variables and the ratio variables of the layout -/
def bV (j : Nat) : Expr := var (2 * j + 1)
def xV (j : Nat) : Expr := var (2 * j)

theorem defined_heights_fold (ρ : Nat → ℝ) (bE xE : Nat → Expr) (hb : ∀ j, Defined ρ (bE j))
    (hx : ∀ j, Defined ρ (xE j)) :
    ∀ (fwd : List (Nat × Nat)) (hE : Nat → Expr), (∀ k, Defined ρ (hE k)) →
      ∀ k, Defined ρ ((fwd.foldl (fun h (a : Nat × Nat) =>
          updE h a.2 (add (bE a.2) (mul (xE a.2) (sub (h a.1) (bE a.2))))) hE) k)
  | [], _, hh => hh
  | a :: fwd, hE, hh => by
    simp only [List.foldl_cons]
    apply defined_heights_fold ρ bE xE hb hx fwd
    intro k
    by_cases hk : k = a.2
    · simp only [updE, hk, if_true]
      exact ⟨hb _, hx _, hh _, hb _⟩
    · simp only [updE, hk, if_false]
      exact hh k

theorem defined_heightsE (ρ : Nat → ℝ) (fwd : List (Nat × Nat)) (k : Nat) : Defined ρ (heightsE fwd bV xV k) := by
  unfold heightsE
  exact defined_heights_fold ρ bV xV (fun _ => trivial) (fun _ => trivial) fwd xV (fun _ => trivial) k

end TTProps.C12
