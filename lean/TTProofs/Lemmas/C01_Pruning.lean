import TTModel.C01_Pruning
import TTProofs.Lemmas.Sums
import Mathlib.Algebra.BigOperators.Fin
import Mathlib.Algebra.BigOperators.Ring.Finset
import Mathlib.Data.Fintype.BigOperators
import Mathlib.Data.Fintype.Prod
import Mathlib.Tactic.Ring
/-! helper lemmas for C01: the index-addressed pruning loop refines the recursive form, and the
    recursive form equals the explicit sum over all labelings -/
namespace TT.C01

/-! ### the recursive form -/

/-- conditional likelihood vector of a subtree, one category (the textbook recursion) -/
def partialRec1 {R : Type} [Add R] [Mul R] [Zero R] {S : Nat} (tip : Nat → Fin S → R)
    (mat : Nat → Fin S → Fin S → R) : ITree → Fin S → R
  | .leaf i => tip i
  | .node _ l r => fun s =>
      matVec (mat l.idx) (partialRec1 tip mat l) s * matVec (mat r.idx) (partialRec1 tip mat r) s

/-- all categories at once: what the loop stores for a node -/
def partialRec {R : Type} [Add R] [Mul R] [Zero R] {K S : Nat} (tip : Nat → Fin S → R)
    (mats : Mats R K S) (t : ITree) : Partial R K S :=
  fun k => partialRec1 tip (fun b => mats b k) t

/-! ### well-indexed trees -/

/-- leaves are numbered below `n`, internal nodes from `n` up, pairwise distinct -/
structure WF (n : Nat) (t : ITree) : Prop where
  leaves_lt : ∀ i ∈ t.leaves, i < n
  internals_ge : ∀ i ∈ t.internals, n ≤ i
  nodup : t.internals.Nodup

theorem WF.left {n i l r} (h : WF n (.node i l r)) : WF n l := by
  refine ⟨fun j hj => h.leaves_lt j ?_, fun j hj => h.internals_ge j ?_, ?_⟩
  · simp [ITree.leaves, hj]
  · simp [ITree.internals, hj]
  · have := h.nodup
    simp only [ITree.internals] at this
    exact (List.nodup_append.mp (List.nodup_append.mp this).1).1

theorem WF.right {n i l r} (h : WF n (.node i l r)) : WF n r := by
  refine ⟨fun j hj => h.leaves_lt j ?_, fun j hj => h.internals_ge j ?_, ?_⟩
  · simp [ITree.leaves, hj]
  · simp [ITree.internals, hj]
  · have := h.nodup
    simp only [ITree.internals] at this
    exact (List.nodup_append.mp (List.nodup_append.mp this).1).2.1

theorem idx_mem_or_lt {n t} (h : WF n t) : t.idx ∈ t.internals ∨ t.idx < n := by
  cases t with
  | leaf i => right; exact h.leaves_lt i (by simp [ITree.leaves])
  | node i l r => left; simp [ITree.internals, ITree.idx]

theorem WF.root_not_mem {n i l r} (h : WF n (.node i l r)) : i ∉ l.internals ∧ i ∉ r.internals := by
  have := h.nodup
  simp only [ITree.internals] at this
  have h2 := (List.nodup_append.mp this).2.2
  constructor
  · intro hm; exact h2 i (by simp [hm]) i (by simp) rfl
  · intro hm; exact h2 i (by simp [hm]) i (by simp) rfl

theorem WF.left_idx_not_mem_right {n i l r} (h : WF n (.node i l r)) : l.idx ∉ r.internals := by
  rcases idx_mem_or_lt h.left with hm | hlt
  · have := h.nodup
    simp only [ITree.internals] at this
    have h2 := (List.nodup_append.mp (List.nodup_append.mp this).1).2.2
    intro hr; exact h2 _ hm _ hr rfl
  · intro hr
    have := h.right.internals_ge _ hr
    omega

/-! ### the loop -/

section loop
variable {R : Type} [Add R] [Mul R] [Zero R] {K S : Nat}

theorem peelLoop_append (mats : Mats R K S) (a b : List (Nat × Nat × Nat)) (st : Store R K S) :
    peelLoop mats (a ++ b) st = (peelLoop mats a st).bind (peelLoop mats b) := by
  induction a generalizing st with
  | nil => simp [peelLoop]
  | cons t ts ih =>
    simp only [List.cons_append, peelLoop]
    cases h : peelStep mats st t with
    | none => simp
    | some st' => simp [ih]

theorem peelStep_some (mats : Mats R K S) (st : Store R K S) (node l r : Nat) (pl pr : Partial R K S)
    (hl : st l = some pl) (hr : st r = some pr) :
    peelStep mats st (node, l, r) = some (st.set node fun k s =>
      matVec (mats l k) (pl k) s * matVec (mats r k) (pr k) s) := by
  simp only [peelStep, hl, hr]
  congr 2
  funext k s
  simp [Tab.get_ofFn]

/-- the loop over the post-order of a well-indexed tree fills every internal slot of the subtree
    with the recursive partial, touches no other slot, and never reads an unset slot -/
theorem peelLoop_postorder (mats : Mats R K S) (tip : Nat → Fin S → R) (n : Nat) :
    ∀ (t : ITree), WF n t → ∀ (st : Store R K S), (∀ i, i < n → st i = some (fun _ => tip i)) →
      ∃ st', peelLoop mats (postorder t) st = some st' ∧ (∀ j, j ∉ t.internals → st' j = st j) ∧
        st' t.idx = some (partialRec tip mats t)
  | .leaf i, h, st, hst => by
    refine ⟨st, by simp [postorder, peelLoop], fun _ _ => rfl, ?_⟩
    exact hst i (h.leaves_lt i (by simp [ITree.leaves]))
  | .node i l r, h, st, hst => by
    obtain ⟨st1, e1, k1, v1⟩ := peelLoop_postorder mats tip n l h.left st hst
    have hst1 : ∀ j, j < n → st1 j = some (fun _ => tip j) := by
      intro j hj
      rw [k1 j (fun hm => by have := h.left.internals_ge j hm; omega)]
      exact hst j hj
    obtain ⟨st2, e2, k2, v2⟩ := peelLoop_postorder mats tip n r h.right st1 hst1
    have vl : st2 l.idx = some (partialRec tip mats l) := by
      rw [k2 _ h.left_idx_not_mem_right]; exact v1
    refine ⟨st2.set i (partialRec tip mats (.node i l r)), ?_, ?_, ?_⟩
    · simp only [postorder, peelLoop_append, e1, e2, Option.bind_some, peelLoop]
      rw [peelStep_some mats st2 i l.idx r.idx _ _ vl v2]
      rfl
    · intro j hj
      simp only [ITree.internals, List.mem_append, List.mem_singleton, not_or] at hj
      simp only [Store.set, hj.2, if_false]
      rw [k2 j hj.1.2, k1 j hj.1.1]
    · simp [Store.set, ITree.idx]

theorem postorder_getLast (i : Nat) (l r : ITree) :
    (postorder (.node i l r)).getLast? = some (i, l.idx, r.idx) := by
  simp [postorder]

/-- on a well-indexed tree the loop returns the recursive root partial -/
theorem rootPartial_postorder (mats : Mats R K S) (tip : Nat → Fin S → R) (n i : Nat) (l r : ITree)
    (h : WF n (.node i l r)) :
    rootPartial mats (postorder (.node i l r)) (tipStore n tip) = some (partialRec tip mats (.node i l r)) := by
  obtain ⟨st', e, _, v⟩ := peelLoop_postorder mats tip n (.node i l r) h (tipStore n tip)
    (fun j hj => by simp [tipStore, hj])
  simp only [rootPartial, e, postorder_getLast]
  exact v

end loop

/-! ### the labelings -/

instance instFintypeLab (S : Nat) : (t : ITree) → Fintype (Lab S t)
  | .leaf _ => inferInstanceAs (Fintype Unit)
  | .node _ l r =>
      letI := instFintypeLab S l
      letI := instFintypeLab S r
      inferInstanceAs (Fintype (Fin S × Lab S l × Lab S r))

theorem card_lab (S : Nat) : ∀ t : ITree, Fintype.card (Lab S t) = S ^ t.internals.length
  | .leaf _ => by
      show Fintype.card Unit = _
      simp [ITree.internals]
  | .node _ l r => by
      have hl := card_lab S l
      have hr := card_lab S r
      show Fintype.card (Fin S × Lab S l × Lab S r) = _
      rw [Fintype.card_prod, Fintype.card_prod, hl, hr, Fintype.card_fin]
      simp [ITree.internals]; ring

theorem sum_map_flatMap {α β M : Type} [AddCommMonoid M] (l : List α) (g : α → List β) (f : β → M) :
    ((l.flatMap g).map f).sum = (l.map fun a => ((g a).map f).sum).sum := by
  induction l with
  | nil => simp
  | cons a l ih => simp [List.flatMap_cons, ih]

/-- the executable enumeration sums like the `Fintype` -/
theorem sum_allLabs {M : Type} [AddCommMonoid M] (S : Nat) :
    ∀ (t : ITree) (f : Lab S t → M), ((allLabs S t).map f).sum = ∑ lab : Lab S t, f lab
  | .leaf _, f => by
      show (([()] : List Unit).map f).sum = ∑ lab : Unit, f lab
      simp
  | .node _ l r, f => by
      show (((List.finRange S).flatMap fun a => (allLabs S l).flatMap fun x =>
              (allLabs S r).map fun y => ((a, x, y) : Fin S × Lab S l × Lab S r)).map f).sum
            = ∑ lab : Fin S × Lab S l × Lab S r, f lab
      rw [Fintype.sum_prod_type, sum_map_flatMap, ← Fin.sum_univ_def]
      refine Finset.sum_congr rfl fun a _ => ?_
      rw [Fintype.sum_prod_type, sum_map_flatMap, ← sum_allLabs S l]
      congr 1
      refine List.map_congr_left fun x _ => ?_
      rw [List.map_map, ← sum_allLabs S r]
      rfl

theorem allLabs_complete (S : Nat) : ∀ (t : ITree) (lab : Lab S t), lab ∈ allLabs S t
  | .leaf _, lab => by
      show lab ∈ ([()] : List Unit)
      simp
  | .node _ l r, lab => by
      obtain ⟨a, x, y⟩ := (lab : Fin S × Lab S l × Lab S r)
      show ((a, x, y) : Fin S × Lab S l × Lab S r) ∈ (List.finRange S).flatMap fun a =>
        (allLabs S l).flatMap fun x => (allLabs S r).map fun y => ((a, x, y) : Fin S × Lab S l × Lab S r)
      simp only [List.mem_flatMap, List.mem_map, List.mem_finRange, true_and]
      exact ⟨a, x, allLabs_complete S l x, y, allLabs_complete S r y, rfl⟩

theorem allLabs_length (S : Nat) : ∀ t : ITree, (allLabs S t).length = S ^ t.internals.length := by
  intro t
  have h := sum_allLabs (M := Nat) S t (fun _ => 1)
  simp only [List.map_const', List.sum_replicate, smul_eq_mul, mul_one, Finset.sum_const,
    Finset.card_univ] at h
  rw [h, card_lab]

theorem allLabs_nodup (S : Nat) (t : ITree) : (allLabs S t).Nodup := by
  classical
  have hcard : (allLabs S t).toFinset.card = (allLabs S t).length := by
    have : (allLabs S t).toFinset = Finset.univ := by
      ext lab; simp [allLabs_complete S t lab]
    rw [this, Finset.card_univ, card_lab, allLabs_length]
  exact (Multiset.toFinset_card_eq_card_iff_nodup (m := (allLabs S t : Multiset (Lab S t)))).mp hcard

/-! ### recursive form = sum over all labelings -/

section marg
variable {R : Type} [CommSemiring R] {S : Nat}

theorem below_sum (tip : Nat → Fin S → R) (mat : Nat → Fin S → Fin S → R) :
    ∀ (c : ITree) (s : Fin S),
      (∑ lab : Lab S c, below tip mat c lab s) = matVec (mat c.idx) (partialRec1 tip mat c) s
  | .leaf i, s => by
      show (∑ lab : Unit, below tip mat (.leaf i) lab s) = _
      simp [below, partialRec1, matVec, ITree.idx]
  | .node i l r, s => by
      have hl := below_sum tip mat l
      have hr := below_sum tip mat r
      show (∑ lab : Fin S × Lab S l × Lab S r, below tip mat (.node i l r) lab s) = _
      rw [Fintype.sum_prod_type]
      simp only [matVec, sumFin_eq_sum, ITree.idx]
      refine Finset.sum_congr rfl fun a _ => ?_
      rw [Fintype.sum_prod_type]
      simp only [below, partialRec1]
      rw [← hl a, ← hr a, Finset.sum_mul_sum, Finset.mul_sum]
      refine Finset.sum_congr rfl fun x _ => ?_
      rw [Finset.mul_sum]

theorem weight_sum (π : Fin S → R) (tip : Nat → Fin S → R) (mat : Nat → Fin S → Fin S → R)
    (i : Nat) (l r : ITree) :
    (∑ lab : Lab S (.node i l r), weight π tip mat (.node i l r) lab)
      = ∑ s, π s * partialRec1 tip mat (.node i l r) s := by
  show (∑ lab : Fin S × Lab S l × Lab S r, weight π tip mat (.node i l r) lab) = _
  rw [Fintype.sum_prod_type]
  refine Finset.sum_congr rfl fun a _ => ?_
  rw [Fintype.sum_prod_type]
  simp only [weight, partialRec1]
  rw [← below_sum tip mat l a, ← below_sum tip mat r a, Finset.sum_mul_sum, Finset.mul_sum]
  refine Finset.sum_congr rfl fun x _ => ?_
  rw [Finset.mul_sum]

/-- `freqs @ sum(props * partial)` of the recursive partial is the marginal over all labelings -/
theorem rootSum_eq_marginal {K : Nat} (π : Fin S → R) (props : Fin K → R) (mats : Mats R K S)
    (tip : Nat → Fin S → R) (i : Nat) (l r : ITree) :
    rootSum π props (partialRec tip mats (.node i l r)) = marginal π props mats tip (.node i l r) := by
  simp only [rootSum, marginal, sumFin_eq_sum]
  have hk : ∀ k : Fin K, ((allLabs S (.node i l r)).map (weight π tip (fun b => mats b k) (.node i l r))).sum
      = ∑ s, π s * partialRec1 tip (fun b => mats b k) (.node i l r) s := by
    intro k
    rw [sum_allLabs, weight_sum]
  simp only [hk, partialRec, Finset.mul_sum]
  rw [Finset.sum_comm]
  refine Finset.sum_congr rfl fun k _ => Finset.sum_congr rfl fun s _ => ?_
  ring

end marg

end TT.C01
