import TTProofs.Lemmas.C07_Trees
/-!
Scaling law of the ratio transform's log-Jacobian: expressing the same tree in another time unit
(sampling times and root height multiplied by `c > 0`, ratios unchanged) multiplies every bound and
every node height by `c`, hence every Jacobian factor `h_parent − bound`, and adds `(n−2)·log c` to
the reported `log|det J|`. Used as an oracle by the scale sweep of the C07 harness: a floor or
epsilon inside the logarithm breaks it.
-/
namespace TT.C07
open TT.C06 BTree

variable {n : Nat} {T : BTree}

/-- bounds scale with the sampling times -/
theorem bounds_scale (hT : WF n T) (s : Nat → ℝ) {c : ℝ} (hc : 0 ≤ c) :
    ∀ i, i < 2 * n - 1 →
      bounds n (fun k => c * s k) (T.post n) i = c * bounds n s (T.post n) i := by
  have hi := hT.ints
  have key : ∀ m i, i < m → i < 2 * n - 1 →
      bounds n (fun k => c * s k) (T.post n) i = c * bounds n s (T.post n) i := by
    intro m
    induction m with
    | zero => intro i h; omega
    | succ m ih =>
      intro i hm hlt
      by_cases hin : i < n
      · rw [bounds_tip _ _ hin, bounds_tip _ _ hin]
      · obtain ⟨a, ha, hai⟩ := post_has hT (j := i - n) (by omega)
        have hai' : a.1 = i := by omega
        obtain ⟨_, _, c1, c2⟩ := post_mem hT.tipsOK a ha
        have e' := bounds_triple hT (fun k => c * s k) a ha
        have e := bounds_triple hT s a ha
        rw [hai'] at e e' c1 c2
        rw [e', e, ih a.2.1 (by omega) (by omega), ih a.2.2 (by omega) (by omega), mul_max_of_nonneg _ _ hc]
  intro i h
  exact key (i + 1) i (by omega) h

/-- parameters of the same tree in a time unit `c` times smaller: ratios kept, root height scaled -/
noncomputable def scaleRoot (n : Nat) (c : ℝ) (x : Nat → ℝ) : Nat → ℝ :=
  fun j => if j = n - 2 then c * x j else x j

/-- node heights scale with the time unit -/
theorem ratioFwd_scale (hT : WF n T) (hn : 2 ≤ n) (s x : Nat → ℝ) {c : ℝ} (hc : 0 ≤ c) :
    ∀ j, j < n - 1 →
      ratioFwd n (bounds n (fun k => c * s k) (T.post n)) (forwardIndices n T) (scaleRoot n c x) j
        = c * ratioFwd n (bounds n s (T.post n)) (forwardIndices n T) x j := by
  obtain ⟨spec', root'⟩ := ratio_spec (scaleRoot n c x) hT (bounds n (fun k => c * s k) (T.post n))
  obtain ⟨spec, root⟩ := ratio_spec x hT (bounds n s (T.post n))
  have hB := bounds_scale hT s hc
  have hP := Reach.ind
    (P := fun j => ratioFwd n (bounds n (fun k => c * s k) (T.post n)) (forwardIndices n T) (scaleRoot n c x) j
      = c * ratioFwd n (bounds n s (T.post n)) (forwardIndices n T) x j) (fwd_reach hT hn)
    (fun j hj => by
      subst hj
      show ratioFwd _ _ _ _ (n - 2) = c * ratioFwd _ _ _ _ (n - 2)
      rw [root', root]; simp [scaleRoot])
    (fun a ha hp => by
      have hlt := fwd_child_lt hT a ha
      show ratioFwd _ _ _ _ a.2 = c * ratioFwd _ _ _ _ a.2
      rw [spec' a ha, spec a ha, hp, hB (n + a.2) (by omega)]
      have : scaleRoot n c x a.2 = x a.2 := by simp [scaleRoot]; omega
      rw [this]; ring)
  intro j hj
  rcases fwd_nodes hT hj with rfl | ⟨a, ha, rfl⟩
  · rw [root', root]; simp [scaleRoot]
  · exact (hP a ha).2

/-- **scaling law**: in a time unit `c` times smaller the reported log-Jacobian of the ratio transform
is larger by `(n−2)·log c` (one factor per non-root internal node), at every point where the factors
are positive (the open domain) -/
theorem ratio_logdet_scaling_lemma (hT : WF n T) (hn : 2 ≤ n) (s x : Nat → ℝ) {c : ℝ} (hc : 0 < c)
    (hpos : ∀ j, j < n - 2 →
      0 < ratioFwd n (bounds n s (T.post n)) (forwardIndices n T) x (par n T j) - bounds n s (T.post n) (n + j)) :
    ratioLd (ratioDetTerms n (bounds n (fun k => c * s k) (T.post n)) (detIndices n T)
        (ratioFwd n (bounds n (fun k => c * s k) (T.post n)) (forwardIndices n T) (scaleRoot n c x)))
      = ratioLd (ratioDetTerms n (bounds n s (T.post n)) (detIndices n T)
          (ratioFwd n (bounds n s (T.post n)) (forwardIndices n T) x))
        + ((n - 2 : Nat) : ℝ) * Real.log c := by
  rw [ratioLd_eq _ hT, ratioLd_eq _ hT]
  have hterm : ∀ j ∈ Finset.range (n - 2),
      Real.log (ratioFwd n (bounds n (fun k => c * s k) (T.post n)) (forwardIndices n T) (scaleRoot n c x) (par n T j)
          - bounds n (fun k => c * s k) (T.post n) (n + j))
        = Real.log c + Real.log (ratioFwd n (bounds n s (T.post n)) (forwardIndices n T) x (par n T j)
          - bounds n s (T.post n) (n + j)) := by
    intro j hj
    have hj' : j < n - 2 := Finset.mem_range.mp hj
    have hm := par_mem hT hj'
    have hlt := (fwd_child_lt hT _ hm).2
    rw [ratioFwd_scale hT hn s x (le_of_lt hc) _ hlt, bounds_scale hT s (le_of_lt hc) (n + j) (by omega),
      ← mul_sub, Real.log_mul (ne_of_gt hc) (ne_of_gt (hpos j hj'))]
  rw [Finset.sum_congr rfl hterm, Finset.sum_add_distrib, Finset.sum_const, Finset.card_range]
  simp only [nsmul_eq_mul]
  ring

end TT.C07
