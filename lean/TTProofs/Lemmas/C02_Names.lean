import TTModel.C02_Names
import TTProofs.Lemmas.C01_Pruning
import TTProofs.Lemmas.C01_Tree
import Mathlib.Data.List.Perm.Basic
import Mathlib.Data.List.Nodup
/-! helper lemmas for C02: the index-addressed pipeline equals the name-based recursion -/
namespace TT.C02
open TT TT.C01

variable {β : Type}

theorem shape_leaves (T : LTree β) : T.shape.leaves = T.names := by
  induction T with
  | leaf nm b => rfl
  | node l r b hl hr => simp [LTree.shape, NTree.leaves, LTree.names, hl, hr]

theorem toBTree_leaves (taxa : List String) (t : NTree) :
    (t.toBTree taxa).leaves = t.leaves.map (taxa.idxOf ·) := by
  induction t with
  | leaf nm => rfl
  | node l r hl hr => simp [NTree.toBTree, BTree.leaves, NTree.leaves, hl, hr]

theorem idxOf_inj {taxa : List String} {a b : String} (ha : a ∈ taxa)
    (h : taxa.idxOf a = taxa.idxOf b) : a = b := by
  have h1 : taxa.idxOf a < taxa.length := List.idxOf_lt_length_iff.mpr ha
  have hb : b ∈ taxa := by
    rw [← List.idxOf_lt_length_iff, ← h]; exact h1
  have h2 : taxa.idxOf b < taxa.length := List.idxOf_lt_length_iff.mpr hb
  have e1 := List.getElem_idxOf (xs := taxa) (x := a) h1
  have e2 := List.getElem_idxOf (xs := taxa) (x := b) h2
  rw [← e1, ← e2]
  simp only [h]

theorem getD_idxOf {taxa : List String} {a : String} (ha : a ∈ taxa) :
    taxa.getD (taxa.idxOf a) "" = a := by
  have h1 : taxa.idxOf a < taxa.length := List.idxOf_lt_length_iff.mpr ha
  rw [List.getD_eq_getElem?_getD, List.getElem?_eq_getElem h1, Option.getD_some, List.getElem_idxOf]

/-- leaf indices are below `n = taxa.length` when every leaf name is a taxon -/
theorem leaves_lt (taxa : List String) (T : LTree β) (hsub : ∀ nm ∈ T.names, nm ∈ taxa) :
    ∀ i ∈ (T.shape.toBTree taxa).leaves, i < taxa.length := by
  intro i hi
  rw [toBTree_leaves, shape_leaves, List.mem_map] at hi
  obtain ⟨nm, hnm, rfl⟩ := hi
  exact List.idxOf_lt_length_iff.mpr (hsub nm hnm)

/-- the walk of `edges` and the walk of `setupIdx` stay in step: same counter, and the keys of `edges`
    are the leaf and internal indices of the indexed tree; the pair of the subtree's root is listed -/
theorem edges_spec (taxa : List String) : ∀ (c : LTree β) (k : Nat),
    (c.edges taxa k).2 = (setupIdx (c.shape.toBTree taxa) k).2 ∧
    ((c.edges taxa k).1.map (·.1)).Perm
      ((setupIdx (c.shape.toBTree taxa) k).1.leaves ++ (setupIdx (c.shape.toBTree taxa) k).1.internals) ∧
    ((setupIdx (c.shape.toBTree taxa) k).1.idx, c.branch) ∈ (c.edges taxa k).1
  | .leaf nm b, k => by
    simp [LTree.edges, LTree.shape, NTree.toBTree, setupIdx, ITree.leaves, ITree.internals, ITree.idx,
      LTree.branch]
  | .node l r b, k => by
    obtain ⟨a2, ap, _⟩ := edges_spec taxa l k
    obtain ⟨c2, cp, _⟩ := edges_spec taxa r (l.edges taxa k).2
    simp only [LTree.edges, LTree.shape, NTree.toBTree, setupIdx, ITree.leaves, ITree.internals,
      ITree.idx, LTree.branch]
    rw [a2] at c2 cp ⊢
    refine ⟨by rw [c2], ?_, by simp [c2]⟩
    simp only [List.map_append, List.map_cons, List.map_nil]
    rw [c2]
    -- (kl ++ kr ++ [x]) ~ (ll ++ lr) ++ (il ++ ir ++ [x])
    rw [List.perm_iff_count]
    intro x
    have e1 := ap.count_eq x
    have e2 := cp.count_eq x
    simp only [List.count_append] at e1 e2 ⊢
    omega

theorem lookupIdx_mem (es : List (Nat × β)) (d : β) (i : Nat) (b : β)
    (hnd : (es.map (·.1)).Nodup) (hm : (i, b) ∈ es) : lookupIdx es d i = b := by
  induction es with
  | nil => cases hm
  | cons p rest ih =>
    simp only [List.map_cons, List.nodup_cons] at hnd
    unfold lookupIdx
    simp only [List.find?_cons]
    rcases List.mem_cons.mp hm with e | hm'
    · subst e; simp
    · have hne : p.1 ≠ i := by
        intro e
        apply hnd.1
        rw [e]
        exact List.mem_map.mpr ⟨(i, b), hm', rfl⟩
      have : (p.1 == i) = false := by simpa using hne
      rw [this]
      exact ih hnd.2 hm'

section bridge
variable {R : Type} [CommSemiring R] {K S : Nat}

/-- per category: the recursive partial of the indexed tree, with matrices addressed by node index,
    is the name-based partial, provided the addressing returns each node's own branch datum -/
theorem partialRec1_eq_partialN (taxa : List String) (P : β → Fin K → Fin S → Fin S → R)
    (data : String → Fin S → R) (kc : Fin K) (mat : Nat → Fin S → Fin S → R) :
    ∀ (c : LTree β) (k : Nat), (∀ nm ∈ c.names, nm ∈ taxa) →
      (∀ p ∈ (c.edges taxa k).1, mat p.1 = P p.2 kc) →
      partialRec1 (fun i => data (taxa.getD i "")) mat (setupIdx (c.shape.toBTree taxa) k).1
        = partialN P data c kc
  | .leaf nm b, k, hsub, _ => by
    simp only [LTree.shape, NTree.toBTree, setupIdx, partialRec1, partialN]
    rw [getD_idxOf (hsub nm (by simp [LTree.names]))]
  | .node l r b, k, hsub, hmat => by
    have hl := partialRec1_eq_partialN taxa P data kc mat l k
      (fun nm h => hsub nm (by simp [LTree.names, h]))
      (fun p h => hmat p (by simp [LTree.edges, h]))
    have hr := partialRec1_eq_partialN taxa P data kc mat r (l.edges taxa k).2
      (fun nm h => hsub nm (by simp [LTree.names, h]))
      (fun p h => hmat p (by simp [LTree.edges, h]))
    obtain ⟨a2, _, am⟩ := edges_spec taxa l k
    obtain ⟨_, _, cm⟩ := edges_spec taxa r (l.edges taxa k).2
    have ml := hmat ((setupIdx (l.shape.toBTree taxa) k).1.idx, l.branch)
      (by simp [LTree.edges, am])
    have mr := hmat ((setupIdx (r.shape.toBTree taxa) (l.edges taxa k).2).1.idx, r.branch)
      (by simp [LTree.edges, cm])
    simp only [LTree.shape, NTree.toBTree, setupIdx, partialRec1, partialN]
    rw [a2] at hr mr
    funext s
    rw [hl, hr, ml, mr]

theorem keys_nodup (taxa : List String) (T : LTree β) (hsub : ∀ nm ∈ T.names, nm ∈ taxa)
    (hnd : T.names.Nodup) : ((T.edges taxa taxa.length).1.map (·.1)).Nodup := by
  obtain ⟨_, hp, _⟩ := edges_spec taxa T taxa.length
  rw [hp.nodup_iff]
  have hwf := setupIndexes_WF taxa.length (T.shape.toBTree taxa) (leaves_lt taxa T hsub)
  have hl : (setupIdx (T.shape.toBTree taxa) taxa.length).1.leaves = T.names.map (taxa.idxOf ·) := by
    have := setupIndexes_leaves taxa.length (T.shape.toBTree taxa)
    unfold setupIndexes at this
    rw [this, toBTree_leaves, shape_leaves]
  rw [List.nodup_append]
  refine ⟨?_, hwf.nodup, ?_⟩
  · rw [hl]
    refine List.Nodup.map_on ?_ hnd
    intro a ha b _ e
    exact idxOf_inj (hsub a ha) e
  · intro a ha b hb e
    have h1 := hwf.leaves_lt a ha
    have h2 := hwf.internals_ge b hb
    omega

/-- **the index-addressed pipeline is the name-based likelihood** -/
theorem likIdx_eq_likN (π : Fin S → R) (props : Fin K → R) (P : β → Fin K → Fin S → Fin S → R) (d : β)
    (taxa : List String) (l r : LTree β) (b : β) (data : String → Fin S → R)
    (hsub : ∀ nm ∈ (LTree.node l r b).names, nm ∈ taxa) (hnd : (LTree.node l r b).names.Nodup) :
    likIdx π props P d taxa (.node l r b) data = some (likN π props P data (.node l r b)) := by
  have hwf := setupIndexes_WF taxa.length ((LTree.node l r b).shape.toBTree taxa)
    (leaves_lt taxa _ hsub)
  obtain ⟨i, il, ir, e⟩ := setupIndexes_node taxa.length (l.shape.toBTree taxa) (r.shape.toBTree taxa)
  have e' : setupIndexes taxa.length ((LTree.node l r b).shape.toBTree taxa) = .node i il ir := e
  unfold likIdx siteLik
  rw [e'] at hwf ⊢
  rw [rootPartial_postorder _ _ taxa.length i il ir hwf, Option.map_some]
  congr 1
  unfold likN
  congr 1
  funext k
  have hk := partialRec1_eq_partialN taxa P data k
    (fun b' => P (lookupIdx ((LTree.node l r b).edges taxa taxa.length).1 d b') k)
    (.node l r b) taxa.length hsub
    (fun p hp => by
      rw [lookupIdx_mem _ d p.1 p.2 (keys_nodup taxa _ hsub hnd) hp])
  unfold setupIndexes at e'
  rw [e'] at hk
  exact hk

end bridge
end TT.C02
