import TTModel.C13_Loader
import Mathlib.Data.List.Nodup
/-!
Helper lemmas for C13: a relation `P` on loader states that is reflexive and transitive and is
established by every successful `process_object` call is established by every combinator
(`processList`, `processMany`, `processSub`, `processSlot`, `processSlots`) built from it.
Then the concrete relation `Ext` (the heap grew by some objects and the registry grew by exactly
one entry `id ↦ address` per new object) and its consequences.
-/
namespace TT.C13
open Json

variable {ν : Type}

/-- `f` establishes `P` whenever it succeeds -/
def Establishes (P : St → St → Prop) (f : Json ν → St → Except Err (Addr × St)) : Prop :=
  ∀ j st a st', f j st = .ok (a, st') → P st st'

structure PreOrd (P : St → St → Prop) : Prop where
  refl : ∀ s, P s s
  trans : ∀ {a b c}, P a b → P b c → P a c

theorem processList_rel {P} (hP : PreOrd P) {f : Json ν → St → Except Err (Addr × St)}
    (hf : Establishes P f) :
    ∀ (xs : List (Json ν)) st as st', processList f xs st = .ok (as, st') → P st st' := by
  intro xs
  induction xs with
  | nil => intro st as st' h; simp [processList] at h; rcases h with ⟨_, rfl⟩; exact hP.refl _
  | cons x xs ih =>
    intro st as st' h
    simp only [processList] at h
    split at h
    · cases h
    · rename_i a st1 h1
      split at h
      · cases h
      · rename_i as' st2 h2
        cases h
        exact hP.trans (hf _ _ _ _ h1) (ih _ _ _ h2)

theorem processMany_rel {P} (hP : PreOrd P) {f : Json ν → St → Except Err (Addr × St)}
    (hf : Establishes P f) :
    ∀ (j : Json ν) st as st', processMany f j st = .ok (as, st') → P st st' := by
  intro j st as st' h
  unfold processMany at h
  split at h
  · exact processList_rel hP hf _ _ _ _ h
  · split at h
    · cases h
    · rename_i a st1 h1
      cases h
      exact hf _ _ _ _ h1

theorem processSub_rel {P} (hP : PreOrd P) {f : Json ν → St → Except Err (Addr × St)}
    (hf : Establishes P f) (mode : SubMode) (cls id : String) (sub : List (String × Json ν)) :
    ∀ (args : List String) st as st', processSub f mode cls id sub args st = .ok (as, st') → P st st' := by
  intro args
  induction args with
  | nil => intro st as st' h; simp [processSub] at h; rcases h with ⟨_, rfl⟩; exact hP.refl _
  | cons arg args ih =>
    intro st as st' h
    simp only [processSub] at h
    split at h
    · exact ih _ _ _ h
    · rename_i v hv
      split at h
      · cases h
      · rename_i as1 st1 h1
        split at h
        · cases h
        · rename_i bs st2 h2
          cases h
          refine hP.trans ?_ (ih _ _ _ h2)
          -- the step for this argument
          split at h1
          · split at h1
            · cases h1; exact hP.refl _
            · cases h1
          · cases h1; exact hP.refl _
          · cases h1; exact hP.refl _
          · cases h1; exact hP.refl _
          · split at h1
            · cases h1
            · rename_i a st1' hfv
              cases h1
              exact hf _ _ _ _ hfv

theorem processSlot_rel {P} (hP : PreOrd P) (tbl : ClassTable)
    {f : Json ν → St → Except Err (Addr × St)} (hf : Establishes P f)
    (cls id : String) (data : List (String × Json ν)) (slot : Slot) :
    ∀ st as st', processSlot tbl f cls id data slot st = .ok (as, st') → P st st' := by
  intro st as st' h
  cases slot with
  | one k =>
    simp only [processSlot] at h
    split at h
    · cases h
    · split at h
      · cases h
      · rename_i a st1 h1; cases h; exact hf _ _ _ _ h1
  | many k =>
    simp only [processSlot] at h
    split at h
    · cases h
    · exact processMany_rel hP hf _ _ _ _ h
  | optOne k =>
    simp only [processSlot] at h
    split at h
    · cases h; exact hP.refl _
    · split at h
      · cases h
      · rename_i a st1 h1; cases h; exact hf _ _ _ _ h1
  | optMany k =>
    simp only [processSlot] at h
    split at h
    · cases h; exact hP.refl _
    · exact processMany_rel hP hf _ _ _ _ h
  | each k =>
    simp only [processSlot] at h
    split at h
    · cases h
    · exact processList_rel hP hf _ _ _ _ h
    · cases h
  | firstOf alts =>
    simp only [processSlot] at h
    split at h
    · cases h; exact hP.refl _
    · split at h
      · cases h; exact hP.refl _
      · split at h
        · cases h
        · rename_i a st1 h1; cases h; exact hf _ _ _ _ h1
    · cases h; exact hP.refl _
  | need k =>
    simp only [processSlot] at h
    split at h
    · cases h
    · cases h; exact hP.refl _
  | sub k by_ mode =>
    simp only [processSlot] at h
    split at h
    · cases h; exact hP.refl _
    · split at h
      · split at h
        · exact processSub_rel hP hf _ _ _ _ _ _ _ _ h
        · cases h
      · cases h
    · cases h

theorem processSlots_rel {P} (hP : PreOrd P) (tbl : ClassTable)
    {f : Json ν → St → Except Err (Addr × St)} (hf : Establishes P f)
    (cls id : String) (data : List (String × Json ν)) :
    ∀ (slots : List Slot) st kids st',
      processSlots tbl f cls id data slots st = .ok (kids, st') → P st st' := by
  intro slots
  induction slots with
  | nil => intro st kids st' h; simp [processSlots] at h; rcases h with ⟨_, rfl⟩; exact hP.refl _
  | cons s ss ih =>
    intro st kids st' h
    simp only [processSlots] at h
    split at h
    · cases h
    · rename_i as st1 h1
      split at h
      · cases h
      · rename_i bs st2 h2
        cases h
        exact hP.trans (processSlot_rel hP tbl hf _ _ _ _ _ _ _ h1) (ih _ _ _ h2)

/-! ## registry facts -/

def keys (reg : List (String × Addr)) : List String := reg.map Prod.fst

theorem regLookup_none_iff (k : String) (reg : List (String × Addr)) :
    regLookup k reg = none ↔ k ∉ keys reg := by
  induction reg with
  | nil => simp [regLookup, keys]
  | cons e rest ih =>
    rcases e with ⟨k', a⟩
    simp only [regLookup, keys, List.map_cons, List.mem_cons, not_or]
    by_cases h : k' = k
    · simp [h]
    · simp only [h, if_false]
      constructor
      · intro hh; exact ⟨fun e => h e.symm, (ih.mp hh)⟩
      · intro hh; exact ih.mpr hh.2

theorem regSet_of_none (k : String) (a : Addr) (reg : List (String × Addr))
    (h : regLookup k reg = none) : regSet k a reg = reg ++ [(k, a)] := by
  induction reg with
  | nil => simp [regSet]
  | cons e rest ih =>
    rcases e with ⟨k', a'⟩
    simp only [regLookup] at h
    by_cases hk : k' = k
    · simp [hk] at h
    · simp only [hk, if_false] at h
      simp [regSet, hk, ih h]

theorem regLookup_append_left (k : String) (a : Addr) (r1 r2 : List (String × Addr))
    (h : regLookup k r1 = some a) : regLookup k (r1 ++ r2) = some a := by
  induction r1 with
  | nil => simp [regLookup] at h
  | cons e rest ih =>
    rcases e with ⟨k', a'⟩
    simp only [regLookup, List.cons_append] at h ⊢
    by_cases hk : k' = k
    · simpa [hk] using h
    · simp only [hk, if_false] at h ⊢; exact ih h

/-- the registry entries of freshly allocated objects: `id ↦ address`, addresses counted from `base` -/
def entries (base : Nat) : List Obj → List (String × Addr)
  | [] => []
  | o :: os => (o.id, base) :: entries (base + 1) os

theorem entries_append (base : Nat) (xs ys : List Obj) :
    entries base (xs ++ ys) = entries base xs ++ entries (base + xs.length) ys := by
  induction xs generalizing base with
  | nil => simp [entries]
  | cons o os ih => simp [entries, ih, Nat.add_assoc, Nat.add_comm 1]

theorem keys_entries (base : Nat) (os : List Obj) : keys (entries base os) = os.map (·.id) := by
  induction os generalizing base with
  | nil => rfl
  | cons o os ih => simp [entries, keys] at ih ⊢; exact ih _

/-- `st'` extends `st`: the heap grew by `objs`, and the registry grew by exactly the entries of
those objects, appended in allocation order.  Nothing was replaced, nothing else was added. -/
def Ext (st st' : St) : Prop :=
  ∃ objs, st'.heap = st.heap ++ objs ∧ st'.reg = st.reg ++ entries st.heap.length objs

theorem Ext.refl (s : St) : Ext s s := ⟨[], by simp, by simp [entries]⟩

theorem Ext.trans {a b c : St} (h1 : Ext a b) (h2 : Ext b c) : Ext a c := by
  rcases h1 with ⟨o1, hh1, hr1⟩
  rcases h2 with ⟨o2, hh2, hr2⟩
  refine ⟨o1 ++ o2, by rw [hh2, hh1, List.append_assoc], ?_⟩
  rw [hr2, hr1, hh1, entries_append, List.length_append, List.append_assoc]

def NodupKeys (st : St) : Prop := (keys st.reg).Nodup

/-- the invariant relation threaded through a load with the post-construction check in place -/
def Good (st st' : St) : Prop := Ext st st' ∧ (NodupKeys st → NodupKeys st')

theorem Good.preOrd : PreOrd Good where
  refl s := ⟨Ext.refl s, id⟩
  trans h1 h2 := ⟨h1.1.trans h2.1, fun h => h2.2 (h1.2 h)⟩

/-- **core step**: with the duplicate test standing between construction and registration,
every successful `process_object` extends the state and keeps the registry keys distinct -/
theorem processObject_good (cfg : Cfg) (hc : cfg.checkAfter = true) (tbl : ClassTable) :
    ∀ fuel, Establishes (ν := ν) Good (processObject cfg tbl fuel) := by
  intro fuel
  induction fuel with
  | zero => intro j st a st' h; simp [processObject] at h
  | succ fuel ih =>
    intro j st a st' h
    unfold processObject at h
    split at h
    · -- reference
      split at h
      · cases h; exact Good.preOrd.refl _
      · cases h
    · -- object literal
      split at h
      · cases h
      · rename_i id hid
        split at h
        · cases h
        · split at h
          · cases h
          · rename_i ty hty
            split at h
            · cases h
            · rename_i c hc'
              split at h
              · -- from_json failed
                rename_i e he
                split at h
                · split at h <;> cases h
                · split at h <;> cases h
              · rename_i kids st1 hs
                have hg : Good st st1 := processSlots_rel Good.preOrd tbl ih _ _ _ _ _ _ _ hs
                simp only [hc, Bool.true_and] at h
                split at h
                · cases h
                · rename_i hno
                  cases h
                  have hnone : regLookup id st1.reg = none := by
                    cases hl : regLookup id st1.reg with
                    | none => rfl
                    | some x => simp [hl] at hno
                  refine Good.preOrd.trans hg ⟨⟨[⟨c.name, id, _⟩], rfl, ?_⟩, ?_⟩
                  · simp [entries, regSet_of_none _ _ _ hnone]
                  · intro hnd
                    simp only [NodupKeys, regSet_of_none _ _ _ hnone, keys, List.map_append,
                      List.map_cons, List.map_nil] at hnd ⊢
                    rw [List.nodup_append]
                    refine ⟨hnd, by simp, ?_⟩
                    intro x hx y hy
                    simp at hy
                    subst hy
                    intro hxy
                    subst hxy
                    exact (regLookup_none_iff _ _).mp hnone hx
          · cases h
      · cases h
    · cases h

theorem loadAll_good (cfg : Cfg) (hc : cfg.checkAfter = true) (tbl : ClassTable) (fuel : Nat) :
    ∀ (xs : List (Json ν)) st rs st', loadAll cfg tbl fuel xs st = .ok (rs, st') → Good st st' := by
  intro xs
  induction xs with
  | nil => intro st rs st' h; simp [loadAll] at h; rcases h with ⟨_, rfl⟩; exact Good.preOrd.refl _
  | cons x xs ih =>
    intro st rs st' h
    simp only [loadAll] at h
    split at h
    · cases h
    · rename_i r st1 h1
      split at h
      · cases h
      · rename_i rs' st2 h2
        cases h
        exact Good.preOrd.trans
          (processMany_rel Good.preOrd (processObject_good cfg hc tbl fuel) _ _ _ _ h1) (ih _ _ _ h2)

end TT.C13
