import TTModel.C13_Loader
import Mathlib.Data.List.Nodup
/-!
Helper lemmas for C13: a relation `P` on loader states that is reflexive and transitive and is
established by every successful `process_object` call is established by every combinator
(`processList`, `processMany`, `processSub`, `processSlot`, `processSlots`) built from it.
Then the concrete relation `Ext` (the heap grew by some objects and the registry grew by exactly
one entry `id ↦ address` per new object) and its consequences.
-/
namespace TT.C13
open Json

variable {ν : Type}

/-- `f` establishes `P` whenever it succeeds -/
def Establishes (P : St → St → Prop) (f : Json ν → St → Except Err (Addr × St)) : Prop :=
  ∀ j st a st', f j st = .ok (a, st') → P st st'

structure PreOrd (P : St → St → Prop) : Prop where
  refl : ∀ s, P s s
  trans : ∀ {a b c}, P a b → P b c → P a c

theorem processList_rel {P} (hP : PreOrd P) {f : Json ν → St → Except Err (Addr × St)}
    (hf : Establishes P f) :
    ∀ (xs : List (Json ν)) st as st', processList f xs st = .ok (as, st') → P st st' := by
  intro xs
  induction xs with
  | nil => intro st as st' h; simp [processList] at h; rcases h with ⟨_, rfl⟩; exact hP.refl _
  | cons x xs ih =>
    intro st as st' h
    simp only [processList] at h
    split at h
    · cases h
    · rename_i a st1 h1
      split at h
      · cases h
      · rename_i as' st2 h2
        cases h
        exact hP.trans (hf _ _ _ _ h1) (ih _ _ _ h2)

theorem processMany_rel {P} (hP : PreOrd P) {f : Json ν → St → Except Err (Addr × St)}
    (hf : Establishes P f) :
    ∀ (j : Json ν) st as st', processMany f j st = .ok (as, st') → P st st' := by
  intro j st as st' h
  unfold processMany at h
  split at h
  · exact processList_rel hP hf _ _ _ _ h
  · split at h
    · cases h
    · rename_i a st1 h1
      cases h
      exact hf _ _ _ _ h1

theorem processSub_rel {P} (hP : PreOrd P) {f : Json ν → St → Except Err (Addr × St)}
    (hf : Establishes P f) (mode : SubMode) (cls id : String) (sub : List (String × Json ν)) :
    ∀ (args : List String) st as st', processSub f mode cls id sub args st = .ok (as, st') → P st st' := by
  intro args
  induction args with
  | nil => intro st as st' h; simp [processSub] at h; rcases h with ⟨_, rfl⟩; exact hP.refl _
  | cons arg args ih =>
    intro st as st' h
    simp only [processSub] at h
    split at h
    · exact ih _ _ _ h
    · rename_i v hv
      split at h
      · cases h
      · rename_i as1 st1 h1
        split at h
        · cases h
        · rename_i bs st2 h2
          cases h
          refine hP.trans ?_ (ih _ _ _ h2)
          -- the step for this argument
          split at h1
          · split at h1
            · cases h1; exact hP.refl _
            · cases h1
          · cases h1; exact hP.refl _
          · cases h1; exact hP.refl _
          · cases h1; exact hP.refl _
          · split at h1
            · cases h1
            · rename_i a st1' hfv
              cases h1
              exact hf _ _ _ _ hfv

theorem processSlot_rel {P} (hP : PreOrd P) (tbl : ClassTable)
    {f : Json ν → St → Except Err (Addr × St)} (hf : Establishes P f)
    (cls id : String) (data : List (String × Json ν)) (slot : Slot) :
    ∀ st as st', processSlot tbl f cls id data slot st = .ok (as, st') → P st st' := by
  intro st as st' h
  cases slot with
  | one k =>
    simp only [processSlot] at h
    split at h
    · cases h
    · split at h
      · cases h
      · rename_i a st1 h1; cases h; exact hf _ _ _ _ h1
  | many k =>
    simp only [processSlot] at h
    split at h
    · cases h
    · exact processMany_rel hP hf _ _ _ _ h
  | optOne k =>
    simp only [processSlot] at h
    split at h
    · cases h; exact hP.refl _
    · split at h
      · cases h
      · rename_i a st1 h1; cases h; exact hf _ _ _ _ h1
  | optMany k =>
    simp only [processSlot] at h
    split at h
    · cases h; exact hP.refl _
    · exact processMany_rel hP hf _ _ _ _ h
  | each k =>
    simp only [processSlot] at h
    split at h
    · cases h
    · exact processList_rel hP hf _ _ _ _ h
    · cases h
  | firstOf alts =>
    simp only [processSlot] at h
    split at h
    · cases h; exact hP.refl _
    · split at h
      · cases h; exact hP.refl _
      · split at h
        · cases h
        · rename_i a st1 h1; cases h; exact hf _ _ _ _ h1
    · cases h; exact hP.refl _
  | need k =>
    simp only [processSlot] at h
    split at h
    · cases h
    · cases h; exact hP.refl _
  | oneUnless k o =>
    simp only [processSlot] at h
    split at h
    · cases h; exact hP.refl _
    · split at h
      · cases h
      · split at h
        · cases h
        · rename_i a st1 h1; cases h; exact hf _ _ _ _ h1
  | sub k by_ mode =>
    simp only [processSlot] at h
    split at h
    · cases h; exact hP.refl _
    · split at h
      · split at h
        · exact processSub_rel hP hf _ _ _ _ _ _ _ _ h
        · cases h
      · cases h
    · cases h

theorem processSlots_rel {P} (hP : PreOrd P) (tbl : ClassTable)
    {f : Json ν → St → Except Err (Addr × St)} (hf : Establishes P f)
    (cls id : String) (data : List (String × Json ν)) :
    ∀ (slots : List Slot) st kids st',
      processSlots tbl f cls id data slots st = .ok (kids, st') → P st st' := by
  intro slots
  induction slots with
  | nil => intro st kids st' h; simp [processSlots] at h; rcases h with ⟨_, rfl⟩; exact hP.refl _
  | cons s ss ih =>
    intro st kids st' h
    simp only [processSlots] at h
    split at h
    · cases h
    · rename_i as st1 h1
      split at h
      · cases h
      · rename_i bs st2 h2
        cases h
        exact hP.trans (processSlot_rel hP tbl hf _ _ _ _ _ _ _ h1) (ih _ _ _ h2)

/-! ## registry facts -/

def keys (reg : List (String × Addr)) : List String := reg.map Prod.fst

theorem regLookup_none_iff (k : String) (reg : List (String × Addr)) :
    regLookup k reg = none ↔ k ∉ keys reg := by
  induction reg with
  | nil => simp [regLookup, keys]
  | cons e rest ih =>
    rcases e with ⟨k', a⟩
    simp only [regLookup, keys, List.map_cons, List.mem_cons, not_or]
    by_cases h : k' = k
    · simp [h]
    · simp only [h, if_false]
      constructor
      · intro hh; exact ⟨fun e => h e.symm, (ih.mp hh)⟩
      · intro hh; exact ih.mpr hh.2

theorem regSet_of_none (k : String) (a : Addr) (reg : List (String × Addr))
    (h : regLookup k reg = none) : regSet k a reg = reg ++ [(k, a)] := by
  induction reg with
  | nil => simp [regSet]
  | cons e rest ih =>
    rcases e with ⟨k', a'⟩
    simp only [regLookup] at h
    by_cases hk : k' = k
    · simp [hk] at h
    · simp only [hk, if_false] at h
      simp [regSet, hk, ih h]

theorem regLookup_append_left (k : String) (a : Addr) (r1 r2 : List (String × Addr))
    (h : regLookup k r1 = some a) : regLookup k (r1 ++ r2) = some a := by
  induction r1 with
  | nil => simp [regLookup] at h
  | cons e rest ih =>
    rcases e with ⟨k', a'⟩
    simp only [regLookup, List.cons_append] at h ⊢
    by_cases hk : k' = k
    · simpa [hk] using h
    · simp only [hk, if_false] at h ⊢; exact ih h

/-- the registry entries of freshly allocated objects: `id ↦ address`, addresses counted from `base` -/
def entries (base : Nat) : List String → List (String × Addr)
  | [] => []
  | i :: is => (i, base) :: entries (base + 1) is

theorem entries_append (base : Nat) (xs ys : List String) :
    entries base (xs ++ ys) = entries base xs ++ entries (base + xs.length) ys := by
  induction xs generalizing base with
  | nil => simp [entries]
  | cons o os ih => simp [entries, ih, Nat.add_assoc, Nat.add_comm 1]

theorem keys_entries (base : Nat) (ids : List String) : keys (entries base ids) = ids := by
  induction ids generalizing base with
  | nil => rfl
  | cons o os ih => simp [entries, keys] at ih ⊢; exact ih _

/-- the ids of the objects on the heap, by address -/
def heapIds (st : St) : List String := st.heap.map (·.id)

theorem heapIds_length (st : St) : (heapIds st).length = st.heap.length := by simp [heapIds]

/-- `st'` extends `st`: the heap grew by objects with ids `ids` (objects already there keep their
id and address; a self-registering object may get its remaining attributes assigned), and the
registry grew by exactly one entry `id ↦ address` per new object, appended in allocation order.
Nothing was replaced, nothing else was added. -/
def Ext (st st' : St) : Prop :=
  ∃ ids, heapIds st' = heapIds st ++ ids ∧ st'.reg = st.reg ++ entries st.heap.length ids

theorem Ext.refl (s : St) : Ext s s := ⟨[], by simp, by simp [entries]⟩

theorem Ext.trans {a b c : St} (h1 : Ext a b) (h2 : Ext b c) : Ext a c := by
  rcases h1 with ⟨o1, hh1, hr1⟩
  rcases h2 with ⟨o2, hh2, hr2⟩
  have hlen : b.heap.length = a.heap.length + o1.length := by
    have := congrArg List.length hh1
    simpa [heapIds_length] using this
  refine ⟨o1 ++ o2, by rw [hh2, hh1, List.append_assoc], ?_⟩
  rw [hr2, hr1, hlen, entries_append, List.append_assoc]

def NodupKeys (st : St) : Prop := (keys st.reg).Nodup

/-- the invariant relation threaded through a load with the post-construction check in place -/
def Good (st st' : St) : Prop := Ext st st' ∧ (NodupKeys st → NodupKeys st')

theorem Good.preOrd : PreOrd Good where
  refl s := ⟨Ext.refl s, id⟩
  trans h1 h2 := ⟨h1.1.trans h2.1, fun h => h2.2 (h1.2 h)⟩

theorem regLookup_regSet_same (k : String) (a : Addr) (reg : List (String × Addr)) :
    regLookup k (regSet k a reg) = some a := by
  induction reg with
  | nil => simp [regSet, regLookup]
  | cons e rest ih =>
    rcases e with ⟨k', a'⟩
    by_cases hk : k' = k <;> simp [regSet, regLookup, hk, ih]

theorem regSet_same (k : String) (a : Addr) (reg : List (String × Addr))
    (h : regLookup k reg = some a) : regSet k a reg = reg := by
  induction reg with
  | nil => simp [regLookup] at h
  | cons e rest ih =>
    rcases e with ⟨k', a'⟩
    simp only [regLookup] at h
    by_cases hk : k' = k
    · simp only [hk, if_true, Option.some.injEq] at h
      subst h; subst hk
      simp [regSet]
    · simp only [hk, if_false] at h
      simp [regSet, hk, ih h]

/-- allocating a fresh object at the end of the heap and registering it under an id that is free -/
theorem alloc_good (st1 : St) (id : String) (o : Obj) (ho : o.id = id)
    (hnone : regLookup id st1.reg = none) :
    Good st1 { reg := regSet id st1.heap.length st1.reg, heap := st1.heap ++ [o] } := by
  refine ⟨⟨[id], by simp [heapIds, ho], by simp [entries, regSet_of_none _ _ _ hnone]⟩, ?_⟩
  intro hnd
  simp only [NodupKeys, regSet_of_none _ _ _ hnone, keys, List.map_append,
    List.map_cons, List.map_nil] at hnd ⊢
  rw [List.nodup_append]
  refine ⟨hnd, by simp, ?_⟩
  intro x hx y hy
  simp at hy
  subst hy
  intro hxy
  subst hxy
  exact (regLookup_none_iff _ _).mp hnone hx

/-- assigning further attributes to the object at address `a` (same id) and re-registering it under
its own id at its own address changes neither the ids on the heap nor the registry -/
theorem finalize_good (st2 : St) (id : String) (a : Addr) (o : Obj) (ho : o.id = id)
    (hreg : regLookup id st2.reg = some a) (hat : (heapIds st2)[a]? = some id) :
    Good st2 { reg := regSet id a st2.reg, heap := st2.heap.set a o } := by
  have hids : heapIds { reg := regSet id a st2.reg, heap := st2.heap.set a o } = heapIds st2 := by
    simp only [heapIds, List.map_set, ho]
    apply List.ext_getElem?
    intro i
    rw [List.getElem?_set]
    by_cases hi : a = i
    · subst hi
      simp only [heapIds] at hat
      simp only [if_true]
      split
      · exact hat.symm
      · rename_i hlt
        simp at hlt
        rw [List.getElem?_eq_none (by simpa using hlt)] at hat
        cases hat
    · simp [hi]
  refine ⟨⟨[], by simp [hids], by simp [entries, regSet_same _ _ _ hreg]⟩, ?_⟩
  intro hnd
  simpa [NodupKeys, regSet_same _ _ _ hreg] using hnd

theorem ext_lookup {st st' : St} (h : Ext st st') (k : String) (a : Addr)
    (hk : regLookup k st.reg = some a) : regLookup k st'.reg = some a := by
  rcases h with ⟨ids, _, hr⟩
  rw [hr]; exact regLookup_append_left _ _ _ _ hk

theorem ext_heapId {st st' : St} (h : Ext st st') (a : Addr) (i : String)
    (hk : (heapIds st)[a]? = some i) : (heapIds st')[a]? = some i := by
  rcases h with ⟨ids, hh, _⟩
  rw [hh]
  have hlt : a < (heapIds st).length := by
    by_contra hn
    rw [List.getElem?_eq_none (Nat.le_of_not_lt hn)] at hk
    cases hk
  rw [List.getElem?_append_left hlt]; exact hk

theorem alloc_heapId (reg : List (String × Addr)) (heap : List Obj) (o : Obj) :
    (heapIds { reg := reg, heap := heap ++ [o] })[heap.length]? = some o.id := by
  simp [heapIds]

theorem isSome_false_none {α} (o : Option α) (h : ¬ o.isSome = true) : o = none := by
  cases o <;> simp_all

theorem constructPlain_good (cfg : Cfg) (hc : cfg.checkAfter = true) (tbl : ClassTable)
    {f : Json ν → St → Except Err (Addr × St)} (hf : Establishes Good f)
    (c : ClassSpec) (id : String) (data : List (String × Json ν)) (st : St) (a : Addr) (st' : St)
    (h : constructPlain cfg tbl f c id data st = .ok (a, st')) : Good st st' := by
  unfold constructPlain at h
  split at h
  · cases h
  · rename_i kids st1 hs
    have hg : Good st st1 := processSlots_rel Good.preOrd tbl hf _ _ _ _ _ _ _ hs
    simp only [hc, Bool.true_and] at h
    split at h
    · cases h
    · rename_i hno
      cases h
      exact Good.preOrd.trans hg (alloc_good st1 _ _ rfl (isSome_false_none _ hno))

theorem constructSelf_good (cfg : Cfg) (tbl : ClassTable)
    {f : Json ν → St → Except Err (Addr × St)} (hf : Establishes Good f)
    (c : ClassSpec) (k : Nat) (id : String) (data : List (String × Json ν)) (st : St) (a : Addr) (st' : St)
    (h : constructSelf cfg tbl f c k id data st = .ok (a, st')) : Good st st' := by
  unfold constructSelf at h
  split at h
  · cases h
  · rename_i kids1 st1 hs1
    have hg1 : Good st st1 := processSlots_rel Good.preOrd tbl hf _ _ _ _ _ _ _ hs1
    split at h
    · cases h
    · rename_i hno
      have hnone := isSome_false_none _ hno
      simp only at h
      split at h
      · cases h
      · rename_i kids2 st2 hs2
        have hg2 := processSlots_rel Good.preOrd tbl hf _ _ _ _ _ _ _ hs2
        have hga := alloc_good st1 id ⟨c.name, id, ((c.slots.map slotKey).take k).zip kids1⟩ rfl hnone
        have hreg2 := ext_lookup hg2.1 _ _ (regLookup_regSet_same id st1.heap.length st1.reg)
        have hat2 := ext_heapId hg2.1 _ _ (alloc_heapId (regSet id st1.heap.length st1.reg) st1.heap
          ⟨c.name, id, ((c.slots.map slotKey).take k).zip kids1⟩)
        split at h
        · cases h
        · cases h
          exact Good.preOrd.trans hg1 (Good.preOrd.trans hga (Good.preOrd.trans hg2
            (finalize_good st2 id _ _ rfl hreg2 hat2)))

/-! ## references (plain and `stem{a:b}`) are stable under registry growth -/

theorem rangeFold_error (g : Nat → Option Addr) (s : String) (e : Err) :
    ∀ l, rangeFold g s l (.error e) = .error e := by
  intro l
  induction l with
  | nil => rfl
  | cons i l ih => simpa [rangeFold] using ih

theorem rangeFold_mono (g g' : Nat → Option Addr) (s : String)
    (hgg : ∀ i x, g i = some x → g' i = some x) :
    ∀ (l : List Nat) (acc : Except Err (Option Addr)) (o : Option Addr),
      rangeFold g s l acc = .ok o → rangeFold g' s l acc = .ok o := by
  intro l
  induction l with
  | nil => intro acc o h; simpa [rangeFold] using h
  | cons i l ih =>
    intro acc o h
    cases acc with
    | error e =>
      have := rangeFold_error g s e (i :: l)
      rw [this] at h; cases h
    | ok v =>
      have step : ∀ g0 : Nat → Option Addr, rangeFold g0 s (i :: l) (.ok v) =
          rangeFold g0 s l (match g0 i with | some x => .ok (some x) | none => .error (.notFound s)) := by
        intro g0; rfl
      rw [step] at h ⊢
      cases hg : g i with
      | none =>
        simp only [hg] at h
        rw [rangeFold_error] at h; cases h
      | some x =>
        simp only [hg, hgg i x hg] at h ⊢
        exact ih _ _ h

/-- a range loop that did not fail found EVERY member (not only the last one it returns) -/
theorem rangeFold_all (g : Nat → Option Addr) (s : String) :
    ∀ (l : List Nat) (acc : Except Err (Option Addr)) (o : Option Addr),
      rangeFold g s l acc = .ok o → ∀ i ∈ l, ∃ x, g i = some x := by
  intro l
  induction l with
  | nil => intro acc o _ i hi; cases hi
  | cons j l ih =>
    intro acc o h i hi
    cases acc with
    | error e =>
      have := rangeFold_error g s e (j :: l)
      rw [this] at h; cases h
    | ok v =>
      have step : rangeFold g s (j :: l) (.ok v) =
          rangeFold g s l (match g j with | some x => .ok (some x) | none => .error (.notFound s)) := rfl
      rw [step] at h
      cases hg : g j with
      | none =>
        simp only [hg] at h
        rw [rangeFold_error] at h; cases h
      | some x =>
        simp only [hg] at h
        rcases List.mem_cons.mp hi with rfl | hi'
        · exact ⟨x, hg⟩
        · exact ih _ _ h i hi'

/-- `stem{a:b}` resolves only if EVERY id `stem+a … stem+(b-1)` is registered -/
theorem resolveRange_all (s : String) (reg : List (String × Addr)) (x : Addr) (stem : String) (a b : Int)
    (hp : parseRangeRef s = some (stem, a, b)) (h : resolveRange s reg = .ok x) :
    ∀ i : Nat, i < (b - a).toNat → ∃ y, regLookup (stem ++ toString (a + (i : Int))) reg = some y := by
  unfold resolveRange at h
  simp only [hp] at h
  cases hf : rangeFold (fun i => regLookup (stem ++ toString (a + (i : Int))) reg) s
      (List.range (b - a).toNat) (.ok none) with
  | error e => rw [hf] at h; cases h
  | ok o =>
    intro i hi
    exact rangeFold_all _ s _ _ o hf i (List.mem_range.mpr hi)

theorem resolveRange_mono (s : String) (reg reg' : List (String × Addr)) (a : Addr)
    (hm : ∀ k x, regLookup k reg = some x → regLookup k reg' = some x)
    (h : resolveRange s reg = .ok a) : resolveRange s reg' = .ok a := by
  unfold resolveRange at h ⊢
  cases hp : parseRangeRef s with
  | none => simp [hp] at h
  | some t =>
    rcases t with ⟨stem, a0, b0⟩
    simp only [hp] at h ⊢
    cases hf : rangeFold (fun i => regLookup (stem ++ toString (a0 + (i : Int))) reg) s
        (List.range (b0 - a0).toNat) (.ok none) with
    | error e => rw [hf] at h; cases h
    | ok o =>
      have hfold := rangeFold_mono
        (fun i => regLookup (stem ++ toString (a0 + (i : Int))) reg)
        (fun i => regLookup (stem ++ toString (a0 + (i : Int))) reg') s
        (fun i x hx => hm _ x hx) (List.range (b0 - a0).toNat) (.ok none) o hf
      rw [hf] at h
      rw [hfold]
      exact h

/-- a reference (either form) that resolved keeps resolving to the same address after the
registry has grown -/
theorem resolveRef_mono (s : String) (reg reg' : List (String × Addr)) (a : Addr)
    (hm : ∀ k x, regLookup k reg = some x → regLookup k reg' = some x)
    (h : resolveRef s reg = .ok a) : resolveRef s reg' = .ok a := by
  unfold resolveRef at h ⊢
  by_cases hc : s.toList.contains '{' = true
  · simp only [hc, if_true] at h ⊢
    exact resolveRange_mono s reg reg' a hm h
  · have hc' : s.toList.contains '{' = false := by simpa using hc
    simp only [hc', Bool.false_eq_true, if_false] at h ⊢
    cases hl : regLookup s reg with
    | none => simp [hl] at h
    | some x =>
      simp only [hl, Except.ok.injEq] at h
      subst h
      simp [hm s x hl]

/-- a constructed object sits at the returned address, carries the literal's id and is registered
under it -/
theorem constructObject_registers (cfg : Cfg) (tbl : ClassTable)
    {f : Json ν → St → Except Err (Addr × St)} (hf : Establishes Good f)
    (c : ClassSpec) (id : String) (data : List (String × Json ν)) (st : St) (a : Addr) (st' : St)
    (h : constructObject cfg tbl f c id data st = .ok (a, st')) :
    regLookup id st'.reg = some a ∧ (heapIds st')[a]? = some id := by
  unfold constructObject at h
  split at h
  · unfold constructPlain at h
    split at h
    · cases h
    · split at h
      · cases h
      · cases h
        exact ⟨regLookup_regSet_same _ _ _, alloc_heapId _ _ _⟩
  · rename_i k _
    unfold constructSelf at h
    split at h
    · cases h
    · rename_i kids1 st1 hs1
      split at h
      · cases h
      · simp only at h
        split at h
        · cases h
        · rename_i kids2 st2 hs2
          have hg2 := processSlots_rel Good.preOrd tbl hf _ _ _ _ _ _ _ hs2
          have hat2 := ext_heapId hg2.1 _ _ (alloc_heapId (regSet id st1.heap.length st1.reg) st1.heap
            ⟨c.name, id, ((c.slots.map slotKey).take k).zip kids1⟩)
          split at h
          · cases h
          · cases h
            refine ⟨regLookup_regSet_same _ _ _, ?_⟩
            have hlt : st1.heap.length < st2.heap.length := by
              by_contra hn
              rw [List.getElem?_eq_none (by simpa [heapIds_length] using Nat.le_of_not_lt hn)] at hat2
              cases hat2
            simp [heapIds, hlt]

/-- **core step**: with the duplicate test standing between construction and registration,
every successful `process_object` extends the state and keeps the registry keys distinct —
for ordinary classes and for classes whose `from_json` registers the object itself -/
theorem processObject_good (cfg : Cfg) (hc : cfg.checkAfter = true) (tbl : ClassTable) :
    ∀ fuel, Establishes (ν := ν) Good (processObject cfg tbl fuel) := by
  intro fuel
  induction fuel with
  | zero => intro j st a st' h; simp [processObject] at h
  | succ fuel ih =>
    intro j st a st' h
    unfold processObject at h
    split at h
    · -- reference
      split at h
      · cases h; exact Good.preOrd.refl _
      · cases h
    · -- object literal
      split at h
      · cases h
      · split at h
        · cases h
        · split at h
          · cases h
          · split at h
            · cases h
            · rename_i c _
              unfold constructObject at h
              split at h
              · exact constructPlain_good cfg hc tbl ih c _ _ _ _ _ h
              · exact constructSelf_good cfg tbl ih c _ _ _ _ _ _ h
          · cases h
      · cases h
    · cases h

theorem loadAll_good (cfg : Cfg) (hc : cfg.checkAfter = true) (tbl : ClassTable) (fuel : Nat) :
    ∀ (xs : List (Json ν)) st rs st', loadAll cfg tbl fuel xs st = .ok (rs, st') → Good st st' := by
  intro xs
  induction xs with
  | nil => intro st rs st' h; simp [loadAll] at h; rcases h with ⟨_, rfl⟩; exact Good.preOrd.refl _
  | cons x xs ih =>
    intro st rs st' h
    simp only [loadAll] at h
    split at h
    · cases h
    · rename_i r st1 h1
      split at h
      · cases h
      · rename_i rs' st2 h2
        cases h
        exact Good.preOrd.trans
          (processMany_rel Good.preOrd (processObject_good cfg hc tbl fuel) _ _ _ _ h1) (ih _ _ _ h2)

end TT.C13
