import TTModel.C12_Expr
import TTProofs.Lemmas.ScalarReal
import Mathlib.Analysis.SpecialFunctions.Pow.Deriv
import Mathlib.Analysis.SpecialFunctions.Sqrt
import Mathlib.Analysis.SpecialFunctions.Log.Deriv
import Mathlib.Analysis.SpecialFunctions.ExpDeriv
/-!
# C12 — forward-mode evaluation of an expression is its partial derivative

`dual_sound`: for EVERY expression `e` (structural induction, no size bound), every point `x` and
coordinate `i`, if `e` is `Defined` at `x` (divisors `≠ 0`, `log` arguments `≠ 0`, `sqrt` / `pow`
bases `> 0`) then `t ↦ eval e (x[i := t])` has derivative `(eval e (seed x i)).d` at `x i`.
-/
namespace TT

namespace Dual
variable {α : Type}
@[simp] theorem add_v [Add α] (a b : Dual α) : (a + b).v = a.v + b.v := rfl
@[simp] theorem add_d [Add α] (a b : Dual α) : (a + b).d = a.d + b.d := rfl
@[simp] theorem sub_v [Sub α] (a b : Dual α) : (a - b).v = a.v - b.v := rfl
@[simp] theorem sub_d [Sub α] (a b : Dual α) : (a - b).d = a.d - b.d := rfl
@[simp] theorem neg_v [Neg α] (a : Dual α) : (-a).v = -a.v := rfl
@[simp] theorem neg_d [Neg α] (a : Dual α) : (-a).d = -a.d := rfl
@[simp] theorem mul_v [Add α] [Mul α] (a b : Dual α) : (a * b).v = a.v * b.v := rfl
@[simp] theorem mul_d [Add α] [Mul α] (a b : Dual α) : (a * b).d = a.d * b.v + a.v * b.d := rfl
@[simp] theorem div_v [Add α] [Sub α] [Mul α] [Div α] (a b : Dual α) : (a / b).v = a.v / b.v := rfl
@[simp] theorem div_d [Add α] [Sub α] [Mul α] [Div α] (a b : Dual α) :
    (a / b).d = (a.d * b.v - a.v * b.d) / (b.v * b.v) := rfl
@[simp] theorem natCast_v [NatCast α] [Zero α] (n : Nat) : ((n : Dual α)).v = (n : α) := rfl
@[simp] theorem natCast_d [NatCast α] [Zero α] (n : Nat) : ((n : Dual α)).d = 0 := rfl
@[simp] theorem intCast_v [IntCast α] [Zero α] (n : Int) : ((n : Dual α)).v = (n : α) := rfl
@[simp] theorem intCast_d [IntCast α] [Zero α] (n : Int) : ((n : Dual α)).d = 0 := rfl
section
variable [Add α] [Sub α] [Mul α] [Div α] [One α] [Trans α]
@[simp] theorem exp_v (a : Dual α) : (Trans.exp a).v = Trans.exp a.v := rfl
@[simp] theorem exp_d (a : Dual α) : (Trans.exp a).d = a.d * Trans.exp a.v := rfl
@[simp] theorem log_v (a : Dual α) : (Trans.log a).v = Trans.log a.v := rfl
@[simp] theorem log_d (a : Dual α) : (Trans.log a).d = a.d / a.v := rfl
@[simp] theorem sqrt_v (a : Dual α) : (Trans.sqrt a).v = Trans.sqrt a.v := rfl
@[simp] theorem sqrt_d (a : Dual α) : (Trans.sqrt a).d = a.d / (Trans.sqrt a.v + Trans.sqrt a.v) := rfl
@[simp] theorem pow_v (a b : Dual α) : (Trans.pow a b).v = Trans.pow a.v b.v := rfl
@[simp] theorem pow_d (a b : Dual α) :
    (Trans.pow a b).d = Trans.pow a.v b.v * (b.d * Trans.log a.v + b.v * a.d / a.v) := rfl
end
end Dual

namespace C12
open Expr

/-- `e` only divides by non-zero values, takes logs of non-zero values and roots / real powers of
positive values at the point `ρ` -/
def Defined (ρ : Nat → ℝ) : Expr → Prop
  | .var _ | .nat _ | .int _ => True
  | .add a b | .sub a b | .mul a b => Defined ρ a ∧ Defined ρ b
  | .div a b => Defined ρ a ∧ Defined ρ b ∧ eval ρ b ≠ 0
  | .neg a | .exp a => Defined ρ a
  | .log a => Defined ρ a ∧ eval ρ a ≠ 0
  | .sqrt a => Defined ρ a ∧ 0 < eval ρ a
  | .pow a b => Defined ρ a ∧ Defined ρ b ∧ 0 < eval ρ a

/-- the value component of the dual evaluation is the plain evaluation -/
theorem dual_value (e : Expr) (x : Nat → ℝ) (i : Nat) : (eval (seed x i) e).v = eval x e := by
  induction e with
  | var j => simp [eval, seed]
  | nat n => simp [eval]
  | int k => simp [eval]
  | add a b iha ihb => simp [eval, iha, ihb]
  | sub a b iha ihb => simp [eval, iha, ihb]
  | mul a b iha ihb => simp [eval, iha, ihb]
  | div a b iha ihb => simp [eval, iha, ihb]
  | neg a iha => simp [eval, iha]
  | exp a iha => simp [eval, iha]
  | log a iha => simp [eval, iha]
  | sqrt a iha => simp [eval, iha]
  | pow a b iha ihb => simp [eval, iha, ihb]

theorem eval_update_self (e : Expr) (x : Nat → ℝ) (i : Nat) :
    eval (Function.update x i (x i)) e = eval x e := by
  rw [Function.update_eq_self]

/-- **Forward-mode evaluation computes the partial derivative, for every expression.** -/
theorem dual_sound (e : Expr) (x : Nat → ℝ) (i : Nat) (h : Defined x e) :
    HasDerivAt (fun t => eval (Function.update x i t) e) (eval (seed x i) e).d (x i) := by
  induction e with
  | var j =>
    by_cases hj : j = i
    · subst hj
      have : (fun t => eval (Function.update x j t) (var j)) = fun t => t := by
        funext t; simp [eval]
      rw [this]
      simpa [eval, seed] using hasDerivAt_id' (x j)
    · have : (fun t => eval (Function.update x i t) (var j)) = fun _ => x j := by
        funext t; simp [eval, Function.update_of_ne hj]
      rw [this]
      simpa [eval, seed, hj] using hasDerivAt_const (x i) (x j)
  | nat n => simpa [eval] using hasDerivAt_const (x i) ((n : ℝ))
  | int k => simpa [eval] using hasDerivAt_const (x i) ((k : ℝ))
  | add a b iha ihb =>
    simp only [eval, Dual.add_d]
    exact (iha h.1).add (ihb h.2)
  | sub a b iha ihb =>
    simp only [eval, Dual.sub_d]
    exact (iha h.1).sub (ihb h.2)
  | mul a b iha ihb =>
    have := (iha h.1).mul (ihb h.2)
    simp only [eval_update_self] at this
    simp only [eval, Dual.mul_d, dual_value]
    exact this
  | div a b iha ihb =>
    have hb : eval (Function.update x i (x i)) b ≠ 0 := by rw [eval_update_self]; exact h.2.2
    have := (iha h.1).div (ihb h.2.1) hb
    simp only [eval_update_self, pow_two] at this
    simp only [eval, Dual.div_d, dual_value]
    exact this
  | neg a iha =>
    simp only [eval, Dual.neg_d]
    exact (iha h).neg
  | exp a iha =>
    have := (iha h).exp
    simp only [eval_update_self] at this
    simp only [eval, Dual.exp_d, dual_value, trans_exp_real]
    rw [mul_comm]
    exact this
  | log a iha =>
    have ha : eval (Function.update x i (x i)) a ≠ 0 := by rw [eval_update_self]; exact h.2
    have := (iha h.1).log ha
    simp only [eval_update_self] at this
    simp only [eval, Dual.log_d, dual_value, trans_log_real]
    exact this
  | sqrt a iha =>
    have ha : eval (Function.update x i (x i)) a ≠ 0 := by rw [eval_update_self]; exact h.2.ne'
    have := (iha h.1).sqrt ha
    simp only [eval_update_self] at this
    simp only [eval, Dual.sqrt_d, dual_value, trans_sqrt_real]
    rw [← two_mul]
    exact this
  | pow a b iha ihb =>
    have ha : 0 < eval (Function.update x i (x i)) a := by rw [eval_update_self]; exact h.2.2
    have := (iha h.1).rpow (ihb h.2.1) ha
    have hne : eval x a ≠ 0 := h.2.2.ne'
    simp only [eval_update_self] at this
    simp only [eval, trans_pow_real, Dual.pow_d, dual_value, trans_log_real]
    convert this using 1
    rw [Real.rpow_sub_one hne]
    field_simp
    ring

/-- the same statement with the derivative written as `partialD` -/
theorem partialD_sound (e : Expr) (x : Nat → ℝ) (i : Nat) (h : Defined x e) :
    HasDerivAt (fun t => eval (Function.update x i t) e) (partialD e x i) (x i) :=
  dual_sound e x i h

/-! ### derived forms: finite sums and products -/

theorem eval_sumL {α : Type} [Add α] [Sub α] [Mul α] [Div α] [Neg α] [NatCast α] [IntCast α] [Trans α]
    (ρ : Nat → α) (l : List Expr) :
    eval ρ (sumL l) = l.foldr (fun e acc => eval ρ e + acc) ((0 : Nat) : α) := by
  induction l with
  | nil => rfl
  | cons e es ih =>
    show eval ρ e + eval ρ (sumL es) = eval ρ e + es.foldr (fun e acc => eval ρ e + acc) ((0 : Nat) : α)
    rw [ih]

theorem eval_sumL_real (ρ : Nat → ℝ) (l : List Expr) : eval ρ (sumL l) = (l.map (eval ρ)).sum := by
  induction l with
  | nil => simp [sumL, eval]
  | cons e es ih => simp only [sumL, List.foldr_cons, eval, List.map_cons, List.sum_cons] at ih ⊢; rw [ih]

theorem eval_prodL_real (ρ : Nat → ℝ) (l : List Expr) : eval ρ (prodL l) = (l.map (eval ρ)).prod := by
  induction l with
  | nil => simp [prodL, eval]
  | cons e es ih => simp only [prodL, List.foldr_cons, eval, List.map_cons, List.prod_cons] at ih ⊢; rw [ih]

theorem defined_sumL (ρ : Nat → ℝ) (l : List Expr) : Defined ρ (sumL l) ↔ ∀ e ∈ l, Defined ρ e := by
  induction l with
  | nil => simp [sumL, Defined]
  | cons e es ih => simp only [sumL, List.foldr_cons, Defined, List.mem_cons, forall_eq_or_imp] at ih ⊢; rw [ih]

theorem defined_prodL (ρ : Nat → ℝ) (l : List Expr) : Defined ρ (prodL l) ↔ ∀ e ∈ l, Defined ρ e := by
  induction l with
  | nil => simp [prodL, Defined]
  | cons e es ih => simp only [prodL, List.foldr_cons, Defined, List.mem_cons, forall_eq_or_imp] at ih ⊢; rw [ih]

/-- derivative of a finite sum = sum of the forward-mode derivatives -/
theorem partialD_sumL (x : Nat → ℝ) (i : Nat) (l : List Expr) :
    partialD (sumL l) x i = (l.map fun e => partialD e x i).sum := by
  induction l with
  | nil => simp [sumL, partialD, eval]
  | cons e es ih =>
    simp only [sumL, List.foldr_cons, partialD, eval, Dual.add_d, List.map_cons, List.sum_cons] at ih ⊢
    rw [ih]

end C12
end TT
