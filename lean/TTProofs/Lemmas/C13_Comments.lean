import TTModel.C13_Json
/-! Helper lemmas for C13: `removeComments`. -/
namespace TT.C13.Json
variable {ν : Type} [JNum ν]

/-- a falsy value is left unchanged by `removeComments` -/
theorem removeComments_of_falsy (v : Json ν) (h : truthy v = false) : removeComments v = v := by
  cases v with
  | arr xs => cases xs <;> simp_all [truthy, removeComments, rcList]
  | obj kvs => cases kvs <;> simp_all [truthy, removeComments, rcFields]
  | _ => simp [removeComments]

/-- an ignored dict is truthy (it has at least the key `ignore`) -/
theorem truthy_of_ignored (v : Json ν) (h : ignored v = true) : truthy v = true := by
  cases v with
  | obj kvs => cases kvs <;> simp_all [ignored, truthy, lookup]
  | _ => simp [ignored] at h

theorem lookup_ignore_rcFields (kvs : List (String × Json ν)) :
    (lookup "ignore" kvs = none → lookup "ignore" (rcFields kvs) = none) ∧
    (∀ v, lookup "ignore" kvs = some v → truthy v = false →
        lookup "ignore" (rcFields kvs) = some v) := by
  induction kvs with
  | nil => simp [lookup, rcFields]
  | cons e rest ih =>
    rcases e with ⟨k, v⟩
    constructor
    · intro h
      simp only [lookup] at h
      by_cases hk : k = "ignore"
      · simp [hk] at h
      · simp only [hk, if_false] at h
        simp only [rcFields]
        split
        · exact ih.1 h
        · simp [lookup, hk, ih.1 h]
    · intro w h hw
      simp only [lookup] at h
      by_cases hk : k = "ignore"
      · simp only [hk, if_true, Option.some.injEq] at h
        subst h
        have hu : underscore "ignore" = false := by decide +kernel
        have hi : ignored v = false := by
          cases hv : ignored v with
          | false => rfl
          | true => rw [truthy_of_ignored v hv] at hw; cases hw
        subst hk
        simp [rcFields, hu, hi, lookup, removeComments_of_falsy v hw]
      · simp only [hk, if_false] at h
        simp only [rcFields]
        split
        · exact ih.2 w h hw
        · simp [lookup, hk, ih.2 w h hw]

/-- cleaning never turns a kept value into an ignored one -/
theorem ignored_removeComments (x : Json ν) (h : ignored x = false) :
    ignored (removeComments x) = false := by
  cases x with
  | obj kvs =>
    simp only [removeComments, ignored] at h ⊢
    cases hl : lookup "ignore" kvs with
    | none => simp [(lookup_ignore_rcFields kvs).1 hl]
    | some v =>
      simp only [hl] at h
      simp [(lookup_ignore_rcFields kvs).2 v hl h, h]
  | arr xs => simp [removeComments, ignored]
  | _ => simpa [removeComments] using h

mutual
theorem clean_removeComments : ∀ j : Json ν, clean (removeComments j) = true
  | .arr xs => by simp only [removeComments, clean]; exact cleanList_rcList xs
  | .obj kvs => by simp only [removeComments, clean]; exact cleanFields_rcFields kvs
  | .null => by simp [removeComments, clean]
  | .bool _ => by simp [removeComments, clean]
  | .num _ => by simp [removeComments, clean]
  | .str _ => by simp [removeComments, clean]
theorem cleanList_rcList : ∀ xs : List (Json ν), cleanList (rcList xs) = true
  | [] => by simp [rcList, cleanList]
  | x :: xs => by
    simp only [rcList]
    split
    · exact cleanList_rcList xs
    · rename_i h
      have h' : ignored x = false := by simpa using h
      simp [cleanList, ignored_removeComments x h', clean_removeComments x, cleanList_rcList xs]
theorem cleanFields_rcFields : ∀ kvs : List (String × Json ν), cleanFields (rcFields kvs) = true
  | [] => by simp [rcFields, cleanFields]
  | (k, v) :: rest => by
    simp only [rcFields]
    split
    · exact cleanFields_rcFields rest
    · rename_i h
      simp only [Bool.or_eq_true, not_or, Bool.not_eq_true] at h
      simp [cleanFields, h.1, ignored_removeComments v h.2, clean_removeComments v,
        cleanFields_rcFields rest]
end

mutual
theorem removeComments_of_clean : ∀ j : Json ν, clean j = true → removeComments j = j
  | .arr xs, h => by
    simp only [clean] at h; simp only [removeComments]; rw [rcList_of_clean xs h]
  | .obj kvs, h => by
    simp only [clean] at h; simp only [removeComments]; rw [rcFields_of_clean kvs h]
  | .null, _ => by simp [removeComments]
  | .bool _, _ => by simp [removeComments]
  | .num _, _ => by simp [removeComments]
  | .str _, _ => by simp [removeComments]
theorem rcList_of_clean : ∀ xs : List (Json ν), cleanList xs = true → rcList xs = xs
  | [], _ => by simp [rcList]
  | x :: xs, h => by
    simp only [cleanList, Bool.and_eq_true, Bool.not_eq_true'] at h
    simp [rcList, h.1.1, removeComments_of_clean x h.1.2, rcList_of_clean xs h.2]
theorem rcFields_of_clean : ∀ kvs : List (String × Json ν), cleanFields kvs = true → rcFields kvs = kvs
  | [], _ => by simp [rcFields]
  | (k, v) :: rest, h => by
    simp only [cleanFields, Bool.and_eq_true, Bool.not_eq_true'] at h
    simp [rcFields, h.1.1.1, h.1.1.2, removeComments_of_clean v h.1.2, rcFields_of_clean rest h.2]
end

theorem rcList_append (xs ys : List (Json ν)) : rcList (xs ++ ys) = rcList xs ++ rcList ys := by
  induction xs with
  | nil => simp [rcList]
  | cons x xs ih => simp only [List.cons_append, rcList]; split <;> simp [ih]

theorem rcFields_append (xs ys : List (String × Json ν)) :
    rcFields (xs ++ ys) = rcFields xs ++ rcFields ys := by
  induction xs with
  | nil => simp [rcFields]
  | cons e xs ih => rcases e with ⟨k, v⟩; simp only [List.cons_append, rcFields]; split <;> simp [ih]

end TT.C13.Json
