import TTModel.C14_Objectives
import TTProofs.Lemmas.ScalarReal
import Mathlib.Algebra.BigOperators.Group.List.Basic
import Mathlib.Analysis.SpecialFunctions.Log.Basic
/-! C14 helper lemmas: the list reductions of the objectives on constant lists, over `ℝ` -/
namespace TT.C14
open TT

theorem natTo_real (n : Nat) : (natTo n : ℝ) = n := by
  induction n with
  | zero => simp [natTo]
  | succ n ih => simp [natTo, ih]

theorem const_list {l : List ℝ} {c : ℝ} (h : ∀ x ∈ l, x = c) : l = List.replicate l.length c :=
  List.eq_replicate_iff.mpr ⟨rfl, h⟩

theorem sum_replicate_real (n : Nat) (c : ℝ) : (List.replicate n c).sum = n * c := by
  rw [List.sum_replicate, nsmul_eq_mul]

theorem mean_replicate (n : Nat) (hn : n ≠ 0) (c : ℝ) : mean (List.replicate n c) = c := by
  unfold mean
  rw [sum_replicate_real, List.length_replicate, natTo_real]
  have : (n : ℝ) ≠ 0 := by exact_mod_cast hn
  field_simp

theorem maxL_replicate (n : Nat) (c : ℝ) : maxL (List.replicate (n + 1) c) = c := by
  simp only [List.replicate_succ, maxL]
  induction n with
  | zero => simp
  | succ n ih => simp [List.replicate_succ, List.foldl_cons, ih]

theorem lse_replicate (n : Nat) (c : ℝ) :
    lse (List.replicate (n + 1) c) = c + Real.log (n + 1) := by
  unfold lse
  rw [maxL_replicate]
  simp only [List.map_replicate, sub_self, trans_exp_real, Real.exp_zero, trans_log_real]
  rw [sum_replicate_real]
  push_cast
  ring_nf

/-- the max-shifted `logsumexp` is the log of the sum of the exponentials -/
theorem maxL_mem : ∀ (l : List ℝ), l ≠ [] → maxL l ∈ l := by
  intro l hl
  cases l with
  | nil => exact absurd rfl hl
  | cons x xs =>
    simp only [maxL]
    induction xs generalizing x with
    | nil => simp
    | cons y ys ih =>
      simp only [List.foldl_cons]
      by_cases h : x < y
      · simp only [h, if_true]
        have := ih y (by simp)
        simp only [List.mem_cons] at this ⊢
        rcases this with h1 | h1
        · right; left; exact h1
        · right; right; exact h1
      · simp only [h, if_false]
        have := ih x (by simp)
        simp only [List.mem_cons] at this ⊢
        rcases this with h1 | h1
        · left; exact h1
        · right; right; exact h1

theorem lse_eq_log_sum_exp (l : List ℝ) (hl : l ≠ []) :
    lse l = Real.log ((l.map Real.exp).sum) := by
  unfold lse
  simp only [trans_exp_real, trans_log_real]
  have hpos : 0 < (l.map fun x => Real.exp (x - maxL l)).sum := by
    cases l with
    | nil => exact absurd rfl hl
    | cons x xs =>
      simp only [List.map_cons, List.sum_cons]
      have : 0 ≤ (xs.map fun y => Real.exp (y - maxL (x :: xs))).sum := by
        apply List.sum_nonneg
        intro y hy
        obtain ⟨z, _, rfl⟩ := List.mem_map.mp hy
        exact (Real.exp_pos _).le
      linarith [Real.exp_pos (x - maxL (x :: xs))]
  have hsum : (l.map Real.exp).sum = Real.exp (maxL l) * (l.map fun x => Real.exp (x - maxL l)).sum := by
    rw [← List.sum_map_mul_left]
    congr 1
    apply List.map_congr_left
    intro x _
    rw [← Real.exp_add]; congr 1; ring
  rw [hsum, Real.log_mul (Real.exp_pos _).ne' hpos.ne', Real.log_exp]

theorem rows_const {w : List (List ℝ)} {c : ℝ}
    (h : ∀ row ∈ w, row ≠ [] ∧ ∀ x ∈ row, x = c) (f : List ℝ → ℝ)
    (hf : ∀ n : Nat, f (List.replicate (n + 1) c) = c) : ∀ y ∈ w.map f, y = c := by
  intro y hy
  obtain ⟨row, hrow, rfl⟩ := List.mem_map.mp hy
  obtain ⟨hne, hc⟩ := h row hrow
  rw [const_list hc]
  obtain ⟨n, hn⟩ : ∃ n, row.length = n + 1 :=
    ⟨row.length - 1, by have := List.length_pos_iff.mpr hne; omega⟩
  rw [hn]; exact hf n


theorem vrRow_const (a c : ℝ) (ha : a ≠ 1) (n : Nat) :
    vrRow a (List.replicate (n + 1) c) / (1 - a) = c := by
  unfold vrRow
  simp only [List.map_replicate, lse_replicate, List.length_replicate, natTo_real, trans_log_real]
  have : (1 - a) ≠ 0 := sub_ne_zero.mpr (Ne.symm ha)
  push_cast
  field_simp
  ring


theorem klpqRow_const (c : ℝ) (n : Nat) : klpqRow (List.replicate (n + 1) c) = c := by
  unfold klpqRow
  simp only [lse_replicate, List.map_replicate, trans_exp_real]
  rw [sum_replicate_real]
  have hpos : (0 : ℝ) < (n : ℝ) + 1 := by positivity
  rw [show c - (c + Real.log ((n : ℝ) + 1)) = -Real.log ((n : ℝ) + 1) by ring, Real.exp_neg,
    Real.exp_log hpos]
  push_cast
  field_simp


theorem zip_shift (l : List ℝ) (c : ℝ) :
    ((l.map (· + c)).zip l).map (fun pq => pq.1 - pq.2) = List.replicate l.length c := by
  induction l with
  | nil => rfl
  | cons x xs ih => simp [List.replicate_succ, ih]

theorem sum_zip_replicate_div_mul (l : List ℝ) (a t : ℝ) :
    (((List.replicate l.length a).zip l).map fun wq => wq.1 / t * wq.2).sum = a / t * l.sum := by
  induction l with
  | nil => simp
  | cons x xs ih => simp [List.replicate_succ, ih, mul_add]


end TT.C14
