import TTProofs.Lemmas.C08_Spec
/-!
# C08 — assembly: sorted events of the code ↔ declarative integral, for any input order
-/
namespace TT.C08
open MeasureTheory intervalIntegral

/-- the sorted event list the code works on, for ANY order of the sampling block and of the coalescent
block: a time-sorted permutation of the canonical event list, and non-empty -/
theorem sorted_events {samp coal samp' coal' : List ℝ} (grid : List ℝ)
    (hs : samp'.Perm samp) (hc : coal'.Perm coal) (hlen : samp.length = coal.length + 1) :
    ∃ e1 l, sortEvents (mkEvents (samp' ++ coal') grid) = e1 :: l ∧
      (e1 :: l).Perm (evs samp coal grid) ∧ TimeSorted (e1 :: l) := by
  have hlen' : samp'.length = coal'.length + 1 := by rw [hs.length_eq, hc.length_eq]; exact hlen
  have hperm : (sortEvents (mkEvents (samp' ++ coal') grid)).Perm (evs samp coal grid) := by
    rw [mkEvents_eq samp' coal' grid hlen']
    exact (sortEvents_perm _).trans (evs_perm grid hs hc)
  have hsorted := sortEvents_sorted (mkEvents (samp' ++ coal') grid)
  cases hS : sortEvents (mkEvents (samp' ++ coal') grid) with
  | nil =>
    rw [hS] at hperm
    have := hperm.length_eq
    simp [evs] at this
    omega
  | cons e1 l =>
    rw [hS] at hperm hsorted
    exact ⟨e1, l, rfl, hperm, hsorted⟩

/-- the integral of the declarative step-state function over any window containing all events equals
the walk over the code's sorted events -/
theorem window_integral (φ : ℤ → ℕ → ℝ → ℝ) (c : ℤ → ℕ → ℝ → ℝ → ℝ) (v : Int)
    (hφ : ∀ k j a b, a ≤ b → IntervalIntegrable (φ k j) volume a b ∧ ∫ x in a..b, φ k j x = c k j a b)
    (hz0 : ∀ j x, φ 0 j x = 0) (hz1 : ∀ j x, φ 1 j x = 0)
    {samp coal samp' coal' : List ℝ} (grid : List ℝ)
    (hs : samp'.Perm samp) (hc : coal'.Perm coal) (hlen : samp.length = coal.length + 1) (a b : ℝ)
    (ha : ∀ t ∈ samp ++ coal ++ grid, a ≤ t) (hb : ∀ t ∈ samp ++ coal ++ grid, t ≤ b) :
    ∫ x in a..b, φ (lineagesAt samp coal x) (jAt v (evs samp coal grid) x) x
      = walk c v 0 0 (sortEvents (mkEvents (samp' ++ coal') grid)) := by
  obtain ⟨e1, l, hS, hperm, hsorted⟩ := sorted_events grid hs hc hlen
  rw [hS]
  have hmemt : ∀ e ∈ e1 :: l, e.t ∈ samp ++ coal ++ grid := by
    intro e he
    have := mem_evs.mp (hperm.mem_iff.mp he)
    simp only [List.mem_append]
    rcases this with ⟨_, h⟩ | ⟨_, h⟩ | ⟨_, h⟩
    · exact Or.inl (Or.inl h)
    · exact Or.inl (Or.inr h)
    · exact Or.inr h
  have htotal : ((e1 :: l).map (·.mark)).sum = 1 := by
    rw [(hperm.map _).sum_eq, marks_sum_evs, hlen]; push_cast; ring
  have hw := walk_integral_window φ c v hφ l e1 0 0 hsorted a b
    (fun e he => ha _ (hmemt e he)) (fun e he => hb _ (hmemt e he)) hz0
    (by rw [htotal]; simpa using hz1)
  rw [← hw]
  congr 1
  funext x
  unfold stateFn
  rw [kAt_perm hperm, jAt_perm v hperm, kAt_evs, zero_add, zero_add]

/-- the skygrid's log terms: the code's `where(mask == -1, log thetas, 0)[1:]` is the sum of
`ψ(#{grid points < c})` over the coalescent times -/
theorem grid_logs (ψ : ℕ → ℝ) {samp coal samp' coal' : List ℝ} (grid : List ℝ)
    (hs : samp'.Perm samp) (hc : coal'.Perm coal) (hlen : samp.length = coal.length + 1)
    (hyoung : ∀ c ∈ coal, ∃ s ∈ samp, s < c) (hne : ∀ c ∈ coal, ∀ g ∈ grid, g ≠ c) :
    ((List.zipWith (fun m i => if m = -1 then ψ i else (0 : ℝ))
        (marks (sortEvents (mkEvents (samp' ++ coal') grid)))
        (skygridIdx (sortEvents (mkEvents (samp' ++ coal') grid)))).tail).sum
      = (coal.map (fun c => ψ (grid.countP (fun g => decide (g < c))))).sum := by
  obtain ⟨e1, l, hS, hperm, hsorted⟩ := sorted_events grid hs hc hlen
  rw [hS]
  have hhead := head_not_coal hperm hsorted hyoung
  -- drop the head: it is not a coalescent event
  have h1 : ((List.zipWith (fun m i => if m = -1 then ψ i else (0 : ℝ)) (marks (e1 :: l))
        (skygridIdx (e1 :: l))).tail).sum = pts ψ 0 0 (e1 :: l) := by
    unfold skygridIdx cumsum
    simp only [marks, isMark, List.map_cons, cumsumFrom, List.zipWith_cons_cons, List.tail_cons, pts,
      if_neg hhead, zero_add]
    exact zipWith_eq_pts ψ 0 l _
  rw [h1]
  have hne' : ∀ e ∈ e1 :: l, ∀ e' ∈ e1 :: l, e.mark = 0 → e'.mark = -1 → e.t ≠ e'.t := by
    intro e he e' he' hm hm'
    rcases mem_evs.mp (hperm.mem_iff.mp he) with ⟨h, _⟩ | ⟨h, _⟩ | ⟨_, hg⟩
    · rw [hm] at h; exact absurd h (by decide)
    · rw [hm] at h; exact absurd h (by decide)
    · rcases mem_evs.mp (hperm.mem_iff.mp he') with ⟨h, _⟩ | ⟨_, hc'⟩ | ⟨h, _⟩
      · rw [hm'] at h; exact absurd h (by decide)
      · exact hne _ hc' _ hg
      · rw [hm'] at h; exact absurd h (by decide)
  rw [pts_eq_sum ψ 0 (by decide) (e1 :: l) 0 hsorted hne']
  have hfun : (fun e : Ev ℝ => ψ (0 + jAt 0 (e1 :: l) e.t))
      = (fun e : Ev ℝ => ψ (grid.countP (fun g => decide (g < e.t)))) := by
    funext e; rw [zero_add, jAt_perm 0 hperm, jAt_zero_evs]
  rw [hfun, ((hperm.filter _).map _).sum_eq, filter_coal_evs, List.map_map]
  rfl

/-- log terms that do not depend on a running index (exponential growth): the `[1:]` slice drops a
non-coalescent head, the rest is a sum over the coalescent times -/
theorem plain_logs (ψ : ℝ → ℝ) {samp coal samp' coal' : List ℝ}
    (hs : samp'.Perm samp) (hc : coal'.Perm coal) (hlen : samp.length = coal.length + 1)
    (hyoung : ∀ c ∈ coal, ∃ s ∈ samp, s < c) :
    (((sortEvents (mkEvents (samp' ++ coal') [])).map
        (fun e => if e.mark = -1 then ψ e.t else (0 : ℝ))).tail).sum
      = (coal.map ψ).sum := by
  obtain ⟨e1, l, hS, hperm, hsorted⟩ := sorted_events [] hs hc hlen
  rw [hS]
  have hhead := head_not_coal hperm hsorted hyoung
  have h1 : (((e1 :: l).map (fun e => if e.mark = -1 then ψ e.t else (0 : ℝ))).tail).sum
      = ((e1 :: l).map (fun e => if e.mark = -1 then ψ e.t else (0 : ℝ))).sum := by
    simp [hhead]
  rw [h1, (hperm.map _).sum_eq]
  unfold evs
  simp only [List.map_append, List.map_map, List.sum_append, List.map_nil, List.sum_nil, add_zero]
  have hz : (samp.map ((fun e : Ev ℝ => if e.mark = -1 then ψ e.t else (0 : ℝ)) ∘ fun s => ⟨s, 1⟩)).sum = 0 := by
    apply List.sum_eq_zero
    intro x hx
    obtain ⟨s, _, rfl⟩ := List.mem_map.mp hx
    simp
  rw [hz, zero_add]
  congr 1

end TT.C08
