import TTProofs.Lemmas.C03_Rescale
import TTProofs.Lemmas.ScalarReal
import Mathlib.Data.Real.Basic
import Mathlib.Tactic.NormNum
import Mathlib.Tactic.FinCases
/-!
# C03: a concrete instance on which the hypotheses of the theorems hold

3 tips, 2 states, 1 category, 1 site; every branch has the matrix `[[3/4,1/4],[1/4,3/4]]`;
tips show states 0, 1, 0; post-order `[(3,0,1),(4,3,2)]`.
Plain pass: node 3 = (3/16, 3/16), root 4 = (9/64, 3/64), site value (π = 1/2) = 3/32.
Rescaled pass (max): scalers 3/16 and 3/4, scaled root (1, 1/3).
-/
namespace TT.C03.Ex

theorem le_maxList : ∀ (l : List ℝ) (x : ℝ), x ∈ l → x ≤ maxList l
  | [], _, h => by simp at h
  | a :: l, x, h => by
      unfold maxList
      have key : ∀ (l : List ℝ) (acc x : ℝ), (x ≤ acc ∨ x ∈ l) → x ≤ l.foldl max acc := by
        intro l
        induction l with
        | nil => intro acc x h; simpa using h
        | cons b l ih =>
          intro acc x h
          simp only [List.foldl_cons]
          apply ih
          rcases h with h | h
          · exact Or.inl (le_trans h (le_max_left _ _))
          · rcases List.mem_cons.mp h with rfl | h
            · exact Or.inl (le_max_right _ _)
            · exact Or.inr h
      rcases List.mem_cons.mp h with rfl | h
      · exact key l _ _ (Or.inl le_rfl)
      · exact key l a x (Or.inr h)

/-- the code's scaler dominates every entry at that site -/
theorem le_maxKS {N K S : Nat} (p : Part ℝ N K S) (n : Fin N) (k : Fin K) (s : Fin S) :
    p.get n k s ≤ maxKS p n := by
  unfold maxKS
  apply le_maxList
  simp only [List.mem_flatMap, List.mem_map, List.mem_finRange, true_and]
  exact ⟨k, s, rfl⟩

noncomputable def M : Mats ℝ 1 2 := fun _ _ i j => if i = j then 3 / 4 else 1 / 4
noncomputable def tips : Store ℝ 1 1 2 :=
  tipStore fun i _ s => if (i = 1 ∧ s = 1) ∨ (i ≠ 1 ∧ s = 0) then 1 else 0
def ts : List Triple := [(3, 0, 1), (4, 3, 2)]
noncomputable def inp : Inputs ℝ 1 2 := ⟨M, fun _ => 1 / 2, fun _ => 1⟩

theorem wf_ts : wf 3 ts = true := by decide
theorem root_ts : rootOf ts = 4 := rfl

/-- lists that hold these tips; internal slots arbitrary -/
def Agree (st : Store ℝ 1 1 2) : Prop := ∀ i, i < 3 → st.get i = tips.get i

theorem raw3 (st : Store ℝ 1 1 2) (h : Agree st) (s : Fin 2) :
    (combine 0 noTips M st 0 1).get 0 0 s = 3 / 16 := by
  simp only [combine, Part.get_ofFn, contrib, sumFin_eq_sum, Fin.sum_univ_two, h 0 (by omega),
    h 1 (by omega), M, tips, tipStore]
  fin_cases s <;> norm_num

theorem plain_root (st : Store ℝ 1 1 2) (h : Agree st) (s : Fin 2) :
    ((peel 0 noTips M st ts).get 4).get 0 0 s = if s = 0 then 9 / 64 else 3 / 64 := by
  simp only [peel, ts, List.foldl_cons, List.foldl_nil, peelStep, Store.get_set, combine,
    Part.get_ofFn, contrib, sumFin_eq_sum, Fin.sum_univ_two, h 0 (by omega), h 1 (by omega),
    h 2 (by omega), M, tips, tipStore]
  fin_cases s <;> norm_num

theorem plain_lik (st : Store ℝ 1 1 2) (h : Agree st) (n : Fin 1) :
    0 < siteLik inp.freqs inp.props ((peel 0 noTips inp.mats st ts).get (rootOf ts)) n := by
  have hn : n = 0 := Subsingleton.elim _ _
  subst hn
  rw [root_ts]
  simp only [siteLik, sumFin_eq_sum, Fin.sum_univ_two, Fin.sum_univ_one, Fin.isValue, inp,
    plain_root st h]
  norm_num


/-! generic positivity helpers (all matrix entries positive) -/
section pos
variable {N K S : Nat}

/-- nonnegative with a positive entry for every (site, category) -/
def NonnegPos (p : Part ℝ N K S) : Prop := ∀ n k, (∀ s, 0 ≤ p.get n k s) ∧ ∃ s, 0 < p.get n k s
def StrictPos (p : Part ℝ N K S) : Prop := ∀ n k s, 0 < p.get n k s

theorem StrictPos.nonnegPos {p : Part ℝ N K S} (h : StrictPos p) (s0 : Fin S) : NonnegPos p :=
  fun n k => ⟨fun s => (h n k s).le, s0, h n k s0⟩

theorem combine_strictPos' (Tc : Nat) (tipc : Nat → Fin N → Fin K → Fin S → ℝ)
    (htip : ∀ c n k s, 0 < tipc c n k s) (Mx : Mats ℝ K S) (hM : ∀ b k i j, 0 < Mx b k i j)
    (st : Store ℝ N K S) (l r : Nat) (hl : Tc ≤ l → NonnegPos (st.get l))
    (hr : Tc ≤ r → NonnegPos (st.get r)) :
    StrictPos (combine Tc tipc Mx st l r) := by
  intro n k s
  rw [combine_get]
  have key : ∀ c, (Tc ≤ c → NonnegPos (st.get c)) → 0 < contrib Tc tipc Mx c (st.get c) n k s := by
    intro c hc
    unfold contrib
    by_cases hct : c < Tc
    · simp only [hct, if_true]; exact htip c n k s
    · simp only [hct, if_false, sumFin_eq_sum]
      have hc := hc (Nat.le_of_not_lt hct)
      obtain ⟨j0, hj0⟩ := (hc n k).2
      exact Finset.sum_pos' (fun j _ => mul_nonneg (hM c k s j).le ((hc n k).1 j))
        ⟨j0, Finset.mem_univ _, mul_pos (hM c k s j0) hj0⟩
  exact mul_pos (key l hl) (key r hr)

theorem combine_strictPos (Mx : Mats ℝ K S) (hM : ∀ b k i j, 0 < Mx b k i j) (st : Store ℝ N K S)
    (l r : Nat) (hl : NonnegPos (st.get l)) (hr : NonnegPos (st.get r)) :
    StrictPos (combine 0 noTips Mx st l r) := by
  intro n k s
  rw [combine_get]
  have key : ∀ c, NonnegPos (st.get c) → 0 < contrib 0 noTips Mx c (st.get c) n k s := by
    intro c hc
    simp only [contrib, Nat.not_lt_zero, if_false, sumFin_eq_sum]
    obtain ⟨j0, hj0⟩ := (hc n k).2
    exact Finset.sum_pos' (fun j _ => mul_nonneg (hM c k s j).le ((hc n k).1 j))
      ⟨j0, Finset.mem_univ _, mul_pos (hM c k s j0) hj0⟩
  exact mul_pos (key l hl) (key r hr)

theorem maxKS_pos {p : Part ℝ N K S} (h : StrictPos p) (n : Fin N) (k0 : Fin K) (s0 : Fin S) :
    0 < maxKS p n := lt_of_lt_of_le (h n k0 s0) (le_maxKS p n k0 s0)

theorem divide_strictPos {raw : Part ℝ N K S} (h : StrictPos raw) (sc : Fin N → ℝ)
    (hsc : ∀ n, 0 < sc n) : StrictPos (divide raw (Vector.ofFn sc)) := by
  intro n k s
  rw [divide_get]
  exact div_pos (h n k s) (hsc n)

end pos

theorem M_pos : ∀ b k i j, 0 < M b k i j := by
  intro b k i j; unfold M; split <;> norm_num

theorem tips_nonnegPos (st : Store ℝ 1 1 2) (h : Agree st) (i : Nat) (hi : i < 3) :
    NonnegPos (st.get i) := by
  rw [h i hi]
  intro n k
  refine ⟨fun s => ?_, ?_⟩
  · simp only [tips, tipStore, Part.get_ofFn]; split <;> norm_num
  · by_cases h1 : i = 1
    · exact ⟨1, by simp [tips, tipStore, h1]⟩
    · exact ⟨0, by simp [tips, tipStore, h1]⟩

/-- the rescaled pass with the code's `max` scalers: every scaler is positive on this instance,
  whatever earlier evaluations left in the internal slots -/
theorem resc_pos (st : Store ℝ 1 1 2) (h : Agree st) :
    ∀ sc ∈ (peelRescaled 0 noTips M st ts).scalers, ∀ n : Fin 1, 0 < sc[n] := by
  have h3 : StrictPos (combine 0 noTips M st 0 1) :=
    combine_strictPos M M_pos st 0 1 (tips_nonnegPos st h 0 (by omega)) (tips_nonnegPos st h 1 (by omega))
  have hs3 : ∀ n : Fin 1, 0 < maxKS (combine 0 noTips M st 0 1) n := fun n => maxKS_pos h3 n 0 0
  intro sc hsc n
  simp only [peelRescaled, peelRescaledWith, ts, List.foldl_cons, List.foldl_nil, rescStep,
    List.nil_append, List.cons_append, List.mem_cons, List.not_mem_nil, or_false] at hsc
  rcases hsc with rfl | rfl
  · rw [ofFn_getFin]; exact hs3 n
  · rw [ofFn_getFin]
    refine maxKS_pos (combine_strictPos M M_pos _ 3 2 ?_ ?_) n 0 0
    · simp only [Store.get_set, if_true]
      exact (divide_strictPos h3 _ hs3).nonnegPos 0
    · simp only [Store.get_set, show (2 : Nat) ≠ 3 by omega, if_false]
      exact tips_nonnegPos st h 2 (by omega)

/-- the safe pass run after a plain pass, any threshold: every appended scaler is positive -/
theorem safe_pos (thr : ℝ) (st : Store ℝ 1 1 2) (h : Agree st) :
    ∀ sc ∈ (peelSafe thr M (peel 0 noTips M st ts) ts).scalers, ∀ n : Fin 1, 0 < sc[n] := by
  -- the list left by the plain pass
  have hP : ∀ i, i < 3 → (peel 0 noTips M st ts).get i = st.get i := fun i hi =>
    peel_get_keep (T := 3) 0 noTips M ts st [] [] _ (wf_unpack wf_ts) i (Or.inl hi)
  have hA : Agree (peel 0 noTips M st ts) := fun i hi => (hP i hi).trans (h i hi)
  have hP3 : StrictPos ((peel 0 noTips M st ts).get 3) := by
    have : (peel 0 noTips M st ts).get 3 = combine 0 noTips M st 0 1 := by
      simp [peel, ts, peelStep]
    rw [this]
    exact combine_strictPos M M_pos st 0 1 (tips_nonnegPos st h 0 (by omega)) (tips_nonnegPos st h 1 (by omega))
  set Pf := peel 0 noTips M st ts with hPf
  have h3 : StrictPos (combine 0 noTips M Pf 0 1) :=
    combine_strictPos M M_pos Pf 0 1 (tips_nonnegPos Pf hA 0 (by omega)) (tips_nonnegPos Pf hA 1 (by omega))
  have hs3 : ∀ n : Fin 1, 0 < maxKS (combine 0 noTips M Pf 0 1) n := fun n => maxKS_pos h3 n 0 0
  intro sc hsc n
  simp only [peelSafe, peelSafeWith, ts, List.foldl_cons, List.foldl_nil] at hsc
  -- first triple: rescaled or kept
  by_cases c1 : ((fun _ => false) 0 || (fun _ => false) 1 || belowThr thr (Pf.get 3)) = true
  · rw [safeStep_true (belowThr thr) (fun _ n p => maxKS p n) M ⟨Pf, fun _ => false, []⟩ (3, 0, 1) c1] at hsc
    set ss1 : SState ℝ 1 1 2 :=
      { st := (rescStep (fun _ n p => maxKS p n) 0 noTips M ⟨Pf, []⟩ (3, 0, 1)).st,
        flags := setFlag (fun _ => false) 3,
        scalers := (rescStep (fun _ n p => maxKS p n) 0 noTips M ⟨Pf, []⟩ (3, 0, 1)).scalers } with hss1
    by_cases c2 : (ss1.flags 3 || ss1.flags 2 || belowThr thr (ss1.st.get 4)) = true
    · rw [safeStep_true (belowThr thr) (fun _ n p => maxKS p n) M ss1 (4, 3, 2) c2] at hsc
      simp only [hss1, rescStep_scalers, rescStep_st, List.nil_append, List.cons_append, List.mem_cons,
        List.not_mem_nil, or_false] at hsc
      rcases hsc with rfl | rfl
      · rw [ofFn_getFin]; exact hs3 n
      · rw [ofFn_getFin]
        refine maxKS_pos (combine_strictPos M M_pos _ 3 2 ?_ ?_) n 0 0
        · simp only [Store.get_set, if_true]
          exact (divide_strictPos h3 _ hs3).nonnegPos 0
        · simp only [Store.get_set, show (2 : Nat) ≠ 3 by omega, if_false]
          exact tips_nonnegPos Pf hA 2 (by omega)
    · rw [safeStep_false (belowThr thr) (fun _ n p => maxKS p n) M ss1 (4, 3, 2) c2] at hsc
      simp only [hss1, rescStep_scalers, List.nil_append, List.mem_cons, List.not_mem_nil, or_false] at hsc
      subst hsc
      rw [ofFn_getFin]; exact hs3 n
  · rw [safeStep_false (belowThr thr) (fun _ n p => maxKS p n) M ⟨Pf, fun _ => false, []⟩ (3, 0, 1) c1] at hsc
    by_cases c2 : ((fun _ => false) 3 || (fun _ => false) 2 || belowThr thr (Pf.get 4)) = true
    · rw [safeStep_true (belowThr thr) (fun _ n p => maxKS p n) M ⟨Pf, fun _ => false, []⟩ (4, 3, 2) c2] at hsc
      simp only [rescStep_scalers, List.nil_append, List.mem_cons, List.not_mem_nil, or_false] at hsc
      subst hsc
      rw [ofFn_getFin]
      exact maxKS_pos (combine_strictPos M M_pos _ 3 2 (hP3.nonnegPos 0)
        (tips_nonnegPos Pf hA 2 (by omega))) n 0 0
    · rw [safeStep_false (belowThr thr) (fun _ n p => maxKS p n) M ⟨Pf, fun _ => false, []⟩ (4, 3, 2) c2] at hsc
      simp at hsc


/-- every node's plain partial has a positive entry (the hypothesis of the `…_of_plain_pos` theorems) -/
theorem plain_pl (st : Store ℝ 1 1 2) (h : Agree st) :
    ∀ t ∈ ts, ∀ n, ∃ k s, 0 < ((peel 0 noTips M st ts).get t.1).get n k s := by
  have h3 : StrictPos (combine 0 noTips M st 0 1) :=
    combine_strictPos M M_pos st 0 1 (tips_nonnegPos st h 0 (by omega)) (tips_nonnegPos st h 1 (by omega))
  intro t ht n
  simp only [ts, List.mem_cons, List.not_mem_nil, or_false] at ht
  rcases ht with rfl | rfl
  · refine ⟨0, 0, ?_⟩
    have : (peel 0 noTips M st ts).get 3 = combine 0 noTips M st 0 1 := by simp [peel, ts, peelStep]
    show 0 < ((peel 0 noTips M st ts).get 3).get n 0 0
    rw [this]; exact h3 n 0 0
  · refine ⟨0, 0, ?_⟩
    have hn : n = 0 := Subsingleton.elim _ _
    subst hn
    show 0 < ((peel 0 noTips M st ts).get 4).get 0 0 0
    rw [plain_root st h]; norm_num

/-! the tip-states path on the same data: tips show states 0, 1, 0 -/
def states : Nat → Fin 1 → Nat := fun i _ => if i = 1 then 1 else 0

theorem tipVec_pos : ∀ c n k s, 0 < tipVec M states c n k s := by
  intro c n k s
  unfold tipVec
  split
  · exact M_pos _ _ _ _
  · norm_num

/-- tip-states passes never read the tip slots; internal slots are strictly positive once written -/
theorem resc_pos_ts (st : Store ℝ 1 1 2) :
    ∀ sc ∈ (peelRescaled (ts.length + 1) (tipVec M states) M st ts).scalers, ∀ n : Fin 1, 0 < sc[n] := by
  have h3 : StrictPos (combine 3 (tipVec M states) M st 0 1) :=
    combine_strictPos' 3 _ tipVec_pos M M_pos st 0 1 (by omega) (by omega)
  have hs3 : ∀ n : Fin 1, 0 < maxKS (combine 3 (tipVec M states) M st 0 1) n := fun n => maxKS_pos h3 n 0 0
  intro sc hsc n
  simp only [peelRescaled, peelRescaledWith, ts, List.foldl_cons, List.foldl_nil, rescStep,
    List.nil_append, List.cons_append, List.mem_cons, List.not_mem_nil, or_false, List.length_cons,
    List.length_nil] at hsc
  rcases hsc with rfl | rfl
  · rw [ofFn_getFin]; exact hs3 n
  · rw [ofFn_getFin]
    refine maxKS_pos (combine_strictPos' 3 _ tipVec_pos M M_pos _ 3 2 (fun _ => ?_) (by omega)) n 0 0
    simp only [Store.get_set, if_true]
    exact (divide_strictPos h3 _ hs3).nonnegPos 0

theorem plain_lik_ts (st : Store ℝ 1 1 2) (n : Fin 1) :
    0 < siteLik inp.freqs inp.props
      ((peel (ts.length + 1) (tipVec inp.mats states) inp.mats st ts).get (rootOf ts)) n := by
  have h3 : StrictPos (combine 3 (tipVec M states) M st 0 1) :=
    combine_strictPos' 3 _ tipVec_pos M M_pos st 0 1 (by omega) (by omega)
  have h4 : StrictPos ((peel 3 (tipVec M states) M st ts).get 4) := by
    have : (peel 3 (tipVec M states) M st ts).get 4 =
        combine 3 (tipVec M states) M (st.set 3 (combine 3 (tipVec M states) M st 0 1)) 3 2 := by
      simp [peel, ts, peelStep]
    rw [this]
    refine combine_strictPos' 3 _ tipVec_pos M M_pos _ 3 2 (fun _ => ?_) (by omega)
    simp only [Store.get_set, if_true]
    exact h3.nonnegPos 0
  rw [root_ts]
  show 0 < siteLik inp.freqs inp.props ((peel 3 (tipVec M states) M st ts).get 4) n
  simp only [siteLik, sumFin_eq_sum, Fin.sum_univ_two, Fin.sum_univ_one, inp]
  have a := h4 n 0 0
  have b := h4 n 0 1
  positivity

end TT.C03.Ex
