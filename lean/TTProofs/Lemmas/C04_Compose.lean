import TTProofs.Lemmas.C04_Builders
import TTProofs.Lemmas.C04_JC
import TTProofs.Lemmas.C04_Exp
import TTProofs.Lemmas.C04_Stretch
import TTProofs.Lemmas.C02_Reroot
/-! adapters between C04 (rate matrices, `exp (t • Q)`, closed forms, eigen reconstruction) and the
hypothesis shapes of C01 (`∀ b k s, ∑ j, mats b k s j = 1`) and C02 (`TT.C02.Pulley π P`).

The tree likelihood calls `p_t(branch_length * rate_k)` for every branch and rate category `k`
(`tree_likelihood.py: mats = subst_model.p_t(bls.reshape(..., -1, 1) * rates)`), so a family of edge
matrices is `P a k = p_t (a * rates k)`; branch lengths live in `ℝ` (an `AddCommMonoid`). -/
namespace TT.C04
open Matrix NormedSpace TT.C02

variable {K S : Nat}

/-- edge matrices `exp((a · rate_k) • Q)` for branch length `a`, category `k` -/
noncomputable def expP (Q : Matrix (Fin S) (Fin S) ℝ) (rates : Fin K → ℝ) :
    ℝ → Fin K → Fin S → Fin S → ℝ :=
  fun a k s j => exp ((a * rates k) • Q) s j

/-- edge matrices from the eigen reconstruction coded in `SymmetricSubstitutionModel.p_t` -/
noncomputable def reconP (π e : Fin S → ℝ) (V Vinv : Mat S ℝ) (rates : Fin K → ℝ) :
    ℝ → Fin K → Fin S → Fin S → ℝ :=
  fun a k => recon π V Vinv e (a * rates k)

/-- edge matrices from the closed form `GeneralJC69.p_t` -/
noncomputable def jcP (n : Nat) (rates : Fin K → ℝ) : ℝ → Fin K → Fin n → Fin n → ℝ :=
  fun a k => generalJC69P n (a * rates k)

/-- edge matrices from the closed form `JC69.p_t` (literal constants) -/
noncomputable def jc69EdgeP (rates : Fin K → ℝ) : ℝ → Fin K → Fin 4 → Fin 4 → ℝ :=
  fun a k => jc69P (a * rates k)

/-- **Pulley for `exp`**: detailed balance of `Q` alone gives all three clauses, for every real
branch length and every set of category rates -/
theorem pulley_expP (Q : Matrix (Fin S) (Fin S) ℝ) (π : Fin S → ℝ) (rates : Fin K → ℝ)
    (hb : ∀ i j, π i * Q i j = π j * Q j i) : Pulley π (expP Q rates) where
  rev a k s j := exp_detailed_balance Q π hb (a * rates k) s j
  zero k s j := by
    simp only [expP, zero_mul, zero_smul, NormedSpace.exp_zero, Matrix.one_apply]
  semigroup a b k s j := by
    simp only [expP]
    rw [add_mul, exp_smul_add, Matrix.mul_apply]

theorem rowsum_expP (Q : Matrix (Fin S) (Fin S) ℝ) (rates : Fin K → ℝ) (hQ : ∀ i, ∑ j, Q i j = 0)
    (a : ℝ) (k : Fin K) (s : Fin S) : ∑ j, expP Q rates a k s j = 1 :=
  exp_row_sum Q hQ (a * rates k) s

theorem nonneg_expP (Q : Matrix (Fin S) (Fin S) ℝ) (rates : Fin K → ℝ)
    (hQ : ∀ i j, i ≠ j → 0 ≤ Q i j) (a : ℝ) (ha : 0 ≤ a) (k : Fin K) (hk : 0 ≤ rates k) (s j : Fin S) :
    0 ≤ expP Q rates a k s j :=
  exp_entry_nonneg Q hQ (a * rates k) (mul_nonneg ha hk) s j

/-- under the `eigh`/`inverse` contract the reconstruction family IS the `exp` family -/
theorem reconP_eq_expP (π e : Fin S → ℝ) (V Vinv Q : Mat S ℝ) (rates : Fin K → ℝ)
    (hπ : ∀ i, 0 < π i) (hV : toM V * toM Vinv = 1)
    (hS : toM (symmetrised Q π) = toM V * diagonal e * toM Vinv) :
    reconP π e V Vinv rates = expP (toM Q) rates := by
  funext a k s j
  have h := recon_eq_exp_toM π e V Vinv Q hπ hV hS (a * rates k)
  exact congrFun (congrFun h s) j

/-- the rate matrix `q()/norm` of a model whose `q()` is `fromR R π` -/
noncomputable def famQ (Rm : Mat S ℝ) (π : Fin S → ℝ) : Matrix (Fin S) (Fin S) ℝ :=
  toM (normalised (fromR Rm π) π)

theorem famQ_row_sum (Rm : Mat S ℝ) (π : Fin S → ℝ) (hd : ∀ i, Rm i i = 0) (i : Fin S) :
    ∑ j, famQ Rm π i j = 0 :=
  normalised_row_sum _ π i (fromR_row_sum Rm π hd i)

theorem famQ_balance (Rm : Mat S ℝ) (π : Fin S → ℝ) (hs : ∀ i j, Rm i j = Rm j i) (i j : Fin S) :
    π i * famQ Rm π i j = π j * famQ Rm π j i :=
  normalised_detailed_balance _ π i j (fromR_detailed_balance Rm π hs i j)

theorem famQ_offdiag (Rm : Mat S ℝ) (π : Fin S → ℝ) (hR : ∀ i j, 0 ≤ Rm i j) (hπ : ∀ i, 0 ≤ π i)
    (hn : 0 ≤ norm (fromR Rm π) π) (i j : Fin S) (h : i ≠ j) : 0 ≤ famQ Rm π i j := by
  simp only [famQ, toM_apply, normalised]
  exact div_nonneg (fromR_offdiag_nonneg Rm π hR hπ h) hn

/-- **Pulley for the closed form** `GeneralJC69.p_t` with the uniform frequencies -/
theorem pulley_jcP (n : Nat) (hn : (n : ℝ) ≠ 0) (rates : Fin K → ℝ) :
    Pulley (generalJC69Freq (α := ℝ) n) (jcP n rates) where
  rev a k s j := by
    simp only [jcP, generalJC69Freq, generalJC69P_apply n hn]
    by_cases h : s = j
    · subst h; rfl
    · have h' : ¬ j = s := fun e => h e.symm
      simp [h, h']
  zero k s j := by
    simp only [jcP, zero_mul, generalJC69P_zero n hn, ident]
  semigroup a b k s j := by
    simp only [jcP, add_mul]
    rw [← generalJC69P_semigroup n hn (a * rates k) (b * rates k)]
    simp [mmul, sumFin_eq_sum]

theorem pulley_jc69 (rates : Fin K → ℝ) : Pulley (jc69Freq (α := ℝ)) (jc69EdgeP rates) := by
  have h := pulley_jcP (K := K) 4 (by norm_num) rates
  have e : jc69EdgeP rates = jcP 4 rates := by
    funext a k; simp only [jc69EdgeP, jcP, jc69P_eq]
  rw [e, jc69Freq_eq]; exact h

end TT.C04
