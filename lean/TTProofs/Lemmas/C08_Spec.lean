import TTProofs.Lemmas.C08_Integral
import TTProofs.Lemmas.ScalarReal
import Mathlib.Analysis.SpecialFunctions.Integrals.Basic
/-!
# C08 — the declarative Kingman specification and the bridges from the event list to it

Nothing here sorts anything: `lineagesAt` counts, `kingman` integrates.
-/
namespace TT.C08
open MeasureTheory intervalIntegral

/-- `k(t) = #{s_i < t} - #{c_j < t}`: number of lineages just before `t` -/
noncomputable def lineagesAt (samp coal : List ℝ) (t : ℝ) : ℤ :=
  (samp.countP (fun s => decide (s < t)) : ℤ) - (coal.countP (fun c => decide (c < t)) : ℤ)

/-- `-(∫_a^b C(k(t),2) / N(t) dt) - Σ_j log N(c_j)` -/
noncomputable def kingman (samp coal : List ℝ) (N : ℝ → ℝ) (a b : ℝ) : ℝ :=
  -(∫ t in a..b, (choose2 (lineagesAt samp coal t) : ℝ) / N t) - (coal.map (fun c => Real.log (N c))).sum

/-- constant population size -/
def constN (θ : ℝ) : ℝ → ℝ := fun _ => θ

/-- left-continuous step function: `θ[#{breaks < t}]` (skygrid: breaks = grid points; skyride: breaks =
coalescent times) -/
noncomputable def stepN (θ breaks : List ℝ) : ℝ → ℝ :=
  fun t => θ.getD (breaks.countP (fun g => decide (g < t))) 0

/-- exponential growth: `N(t) = θ e^{-g t}` (time runs backwards from the present) -/
noncomputable def expN (θ g : ℝ) : ℝ → ℝ := fun t => θ * Real.exp (-(g * t))

/-- `choose2` really is the binomial coefficient for the lineage counts that occur -/
theorem choose2_eq_choose (k : ℕ) : (choose2 (k : ℤ) : ℝ) = (Nat.choose k 2 : ℝ) := by
  unfold choose2
  rw [Nat.choose_two_right]
  rcases k with _ | k
  · simp
  · have h : ((k + 1 : ℕ) : ℤ) - 1 = (k : ℤ) := by push_cast; ring
    rw [h, Nat.add_sub_cancel]
    have he : (k + 1) * k % 2 = 0 := by
      rcases Nat.even_or_odd k with ⟨m, hm⟩ | ⟨m, hm⟩ <;> subst hm <;> ring_nf <;> omega
    rw [Nat.cast_div (Nat.dvd_of_mod_eq_zero he) (by norm_num)]
    push_cast
    ring

theorem choose2_zero : (choose2 (0 : ℤ) : ℝ) = 0 := by simp [choose2]
theorem choose2_one : (choose2 (1 : ℤ) : ℝ) = 0 := by simp [choose2]

/-- the event list the code builds for `[samp | coal]` and a grid -/
def evs (samp coal grid : List ℝ) : List (Ev ℝ) :=
  samp.map (fun s => ⟨s, 1⟩) ++ coal.map (fun c => ⟨c, -1⟩) ++ grid.map (fun g => ⟨g, 0⟩)

theorem zipWith_replicate_ev (m : Int) : ∀ (l : List ℝ) (n : ℕ), l.length = n →
    List.zipWith (fun h m => (⟨h, m⟩ : Ev ℝ)) l (List.replicate n m) = l.map (fun h => ⟨h, m⟩)
  | [], _, _ => by simp
  | a :: l, n, h => by
      cases n with
      | zero => simp at h
      | succ n =>
        simp only [List.replicate_succ, List.zipWith_cons_cons, List.map_cons]
        rw [zipWith_replicate_ev m l n (by simpa using h)]

theorem mkEvents_eq (samp coal grid : List ℝ) (hlen : samp.length = coal.length + 1) :
    mkEvents (samp ++ coal) grid = evs samp coal grid := by
  have hn : taxaCount (samp ++ coal) = samp.length := by
    unfold taxaCount; rw [List.length_append]; omega
  unfold mkEvents evs nodeMask
  rw [hn, List.zipWith_append (by simp)]
  rw [zipWith_replicate_ev 1 samp _ rfl, zipWith_replicate_ev (-1) coal _ (by omega)]

theorem evs_perm {samp samp' coal coal' : List ℝ} (grid : List ℝ) (hs : samp'.Perm samp)
    (hc : coal'.Perm coal) : (evs samp' coal' grid).Perm (evs samp coal grid) :=
  (((hs.map _).append (hc.map _)).append (List.Perm.refl _))

theorem kAt_map_mark (m : Int) (l : List ℝ) (x : ℝ) :
    kAt (l.map (fun s => (⟨s, m⟩ : Ev ℝ))) x = m * (l.countP (fun s => decide (s < x)) : ℤ) := by
  induction l with
  | nil => simp [kAt]
  | cons a l ih =>
    rw [List.map_cons, kAt_cons, ih, List.countP_cons]
    by_cases h : a < x <;> simp [h] <;> ring

theorem kAt_evs (samp coal grid : List ℝ) (x : ℝ) :
    kAt (evs samp coal grid) x = lineagesAt samp coal x := by
  unfold evs lineagesAt
  rw [kAt_append, kAt_append, kAt_map_mark, kAt_map_mark, kAt_map_mark]
  ring

theorem jAt_map_mark (v m : Int) (l : List ℝ) (x : ℝ) :
    jAt v (l.map (fun s => (⟨s, m⟩ : Ev ℝ))) x
      = if m = v then l.countP (fun s => decide (s < x)) else 0 := by
  induction l with
  | nil => simp [jAt]
  | cons a l ih =>
    rw [List.map_cons, jAt_cons, ih, List.countP_cons]
    by_cases hm : m = v <;> by_cases h : a < x <;> simp [hm, h, add_comm]

theorem jAt_zero_evs (samp coal grid : List ℝ) (x : ℝ) :
    jAt 0 (evs samp coal grid) x = grid.countP (fun g => decide (g < x)) := by
  unfold evs
  rw [jAt_append, jAt_append, jAt_map_mark, jAt_map_mark, jAt_map_mark]
  simp

theorem jAt_neg_evs (samp coal grid : List ℝ) (x : ℝ) :
    jAt (-1) (evs samp coal grid) x = coal.countP (fun g => decide (g < x)) := by
  unfold evs
  rw [jAt_append, jAt_append, jAt_map_mark, jAt_map_mark, jAt_map_mark]
  simp

theorem marks_sum_evs (samp coal grid : List ℝ) :
    ((evs samp coal grid).map (·.mark)).sum = (samp.length : ℤ) - coal.length := by
  unfold evs
  simp only [List.map_append, List.map_map, List.sum_append]
  have h : ∀ (m : Int) (l : List ℝ), (l.map ((fun e : Ev ℝ => e.mark) ∘ fun s => (⟨s, m⟩ : Ev ℝ))).sum
      = m * l.length := by
    intro m l
    induction l with
    | nil => simp
    | cons a l ih => simp only [List.map_cons, List.sum_cons, ih, List.length_cons, Function.comp]; push_cast; ring
  rw [h, h, h]; ring

theorem filter_coal_evs (samp coal grid : List ℝ) :
    (evs samp coal grid).filter (fun e => decide (e.mark = -1)) = coal.map (fun c => ⟨c, -1⟩) := by
  unfold evs
  rw [List.filter_append, List.filter_append]
  have h1 : (samp.map (fun s => (⟨s, 1⟩ : Ev ℝ))).filter (fun e => decide (e.mark = -1)) = [] := by
    rw [List.filter_eq_nil_iff]; intro e he
    obtain ⟨s, _, rfl⟩ := List.mem_map.mp he; simp
  have h2 : (grid.map (fun s => (⟨s, 0⟩ : Ev ℝ))).filter (fun e => decide (e.mark = -1)) = [] := by
    rw [List.filter_eq_nil_iff]; intro e he
    obtain ⟨s, _, rfl⟩ := List.mem_map.mp he; simp
  have h3 : (coal.map (fun s => (⟨s, -1⟩ : Ev ℝ))).filter (fun e => decide (e.mark = -1))
      = coal.map (fun s => (⟨s, -1⟩ : Ev ℝ)) := by
    rw [List.filter_eq_self]; intro e he
    obtain ⟨s, _, rfl⟩ := List.mem_map.mp he; simp
  rw [h1, h2, h3]; simp

theorem mem_evs {samp coal grid : List ℝ} {e : Ev ℝ} :
    e ∈ evs samp coal grid ↔
      (e.mark = 1 ∧ e.t ∈ samp) ∨ (e.mark = -1 ∧ e.t ∈ coal) ∨ (e.mark = 0 ∧ e.t ∈ grid) := by
  unfold evs
  simp only [List.mem_append, List.mem_map]
  constructor
  · rintro ((⟨s, hs, rfl⟩ | ⟨s, hs, rfl⟩) | ⟨s, hs, rfl⟩)
    · exact Or.inl ⟨rfl, hs⟩
    · exact Or.inr (Or.inl ⟨rfl, hs⟩)
    · exact Or.inr (Or.inr ⟨rfl, hs⟩)
  · rcases e with ⟨t, m⟩
    rintro (⟨hm, ht⟩ | ⟨hm, ht⟩ | ⟨hm, ht⟩) <;> simp only at hm ht <;> subst hm
    · exact Or.inl (Or.inl ⟨t, ht, rfl⟩)
    · exact Or.inl (Or.inr ⟨t, ht, rfl⟩)
    · exact Or.inr ⟨t, ht, rfl⟩

/-- ranks of a strictly increasing list are `0, 1, 2, …` -/
theorem rank_sorted : ∀ l : List ℝ, l.Pairwise (· < ·) →
    l.map (fun c => l.countP (fun x => decide (x < c))) = List.range l.length
  | [], _ => by simp
  | a :: rest, h => by
      have hp := List.pairwise_cons.mp h
      have ih := rank_sorted rest hp.2
      rw [List.length_cons, List.range_succ_eq_map, ← ih, List.map_cons, List.map_map]
      congr 1
      · rw [List.countP_cons]
        have : List.countP (fun x => decide (x < a)) rest = 0 := by
          rw [List.countP_eq_zero]; intro x hx; simpa using le_of_lt (hp.1 x hx)
        simp [this]
      · apply List.map_congr_left
        intro c hc
        rw [List.countP_cons]
        simp [hp.1 c hc]

/-- for pairwise distinct break points, summing `F` over the ranks is summing `F` over `0..n-1` -/
theorem sum_rank_eq (F : ℕ → ℝ) (coal : List ℝ) (hnd : coal.Nodup) :
    (coal.map (fun c => F (coal.countP (fun x => decide (x < c))))).sum
      = ((List.range coal.length).map F).sum := by
  let s := coal.insertionSort (· ≤ ·)
  have hperm : s.Perm coal := List.perm_insertionSort _ _
  have hsorted : s.Pairwise (· ≤ ·) := List.pairwise_insertionSort _ _
  have hnd' : s.Nodup := hperm.nodup_iff.mpr hnd
  have hstrict : s.Pairwise (· < ·) := by
    have := hsorted.and hnd'
    exact this.imp (fun ⟨h1, h2⟩ => lt_of_le_of_ne h1 h2)
  have h1 : (coal.map (fun c => F (coal.countP (fun x => decide (x < c))))).sum
      = (s.map (fun c => F (s.countP (fun x => decide (x < c))))).sum := by
    have hfun : (fun c => F (coal.countP (fun x => decide (x < c))))
        = (fun c => F (s.countP (fun x => decide (x < c)))) := by
      funext c; rw [hperm.countP_eq]
    rw [hfun]
    exact (hperm.symm.map _).sum_eq
  rw [h1, ← hperm.length_eq, ← rank_sorted s hstrict, List.map_map]
  rfl

theorem map_getD_range (f : ℝ → ℝ) (d : ℝ) : ∀ θ : List ℝ,
    (List.range θ.length).map (fun i => f (θ.getD i d)) = θ.map f
  | [] => by simp
  | a :: t => by
      rw [List.length_cons, List.range_succ_eq_map, List.map_cons, List.map_map, List.map_cons,
        ← map_getD_range f d t]
      simp [Function.comp_def]

/-- the head of a time-sorted permutation of `evs` is not a coalescent event when every coalescent
time has a strictly younger sampling time -/
theorem head_not_coal {samp coal grid : List ℝ} {e1 : Ev ℝ} {l : List (Ev ℝ)}
    (hperm : (e1 :: l).Perm (evs samp coal grid)) (hs : TimeSorted (e1 :: l))
    (hyoung : ∀ c ∈ coal, ∃ s ∈ samp, s < c) : e1.mark ≠ -1 := by
  intro hm
  have he1 : e1 ∈ evs samp coal grid := hperm.mem_iff.mp (List.mem_cons_self)
  rcases mem_evs.mp he1 with ⟨h, _⟩ | ⟨_, hc⟩ | ⟨h, _⟩
  · rw [hm] at h; exact absurd h (by decide)
  · obtain ⟨s, hs', hlt⟩ := hyoung _ hc
    have hmem : (⟨s, 1⟩ : Ev ℝ) ∈ e1 :: l := hperm.mem_iff.mpr (mem_evs.mpr (Or.inl ⟨rfl, hs'⟩))
    have hp := List.pairwise_cons.mp hs
    rcases List.mem_cons.mp hmem with h | h
    · rw [← h] at hm; simp at hm
    · have := hp.1 _ h
      exact absurd (lt_of_le_of_lt this hlt) (lt_irrefl _)
  · rw [hm] at h; exact absurd h (by decide)

/-! ### interval integrals of the three kinds of piece -/

theorem const_piece (v : ℝ) (a b : ℝ) :
    IntervalIntegrable (fun _ : ℝ => v) volume a b ∧ ∫ _ in a..b, v = (b - a) * v := by
  refine ⟨intervalIntegrable_const, ?_⟩
  rw [intervalIntegral.integral_const]; simp

theorem exp_piece (g : ℝ) (hg : g ≠ 0) (a b : ℝ) :
    IntervalIntegrable (fun x : ℝ => Real.exp (x * g)) volume a b ∧
      ∫ x in a..b, Real.exp (x * g) = (Real.exp (b * g) - Real.exp (a * g)) / g := by
  have hderiv : ∀ x ∈ Set.uIcc a b, HasDerivAt (fun x : ℝ => Real.exp (x * g) / g) (Real.exp (x * g)) x := by
    intro x _
    have h1 : HasDerivAt (fun x : ℝ => x * g) g x := by simpa using (hasDerivAt_id x).mul_const g
    have h2 := (Real.hasDerivAt_exp (x * g)).comp x h1
    have h3 := h2.div_const g
    have he : Real.exp (x * g) * g / g = Real.exp (x * g) := by field_simp
    rw [he] at h3
    exact h3
  have hcont : Continuous (fun x : ℝ => Real.exp (x * g)) := by fun_prop
  refine ⟨hcont.intervalIntegrable a b, ?_⟩
  rw [intervalIntegral.integral_eq_sub_of_hasDerivAt hderiv (hcont.intervalIntegrable a b)]
  ring

/-- a finite list of reals lies in some window -/
theorem exists_window : ∀ l : List ℝ, ∃ a b : ℝ, (∀ t ∈ l, a ≤ t) ∧ (∀ t ∈ l, t ≤ b)
  | [] => ⟨0, 0, by simp, by simp⟩
  | x :: l => by
      obtain ⟨a, b, ha, hb⟩ := exists_window l
      refine ⟨min a x, max b x, ?_, ?_⟩
      · intro t ht
        rcases List.mem_cons.mp ht with rfl | ht
        · exact min_le_right _ _
        · exact le_trans (min_le_left _ _) (ha t ht)
      · intro t ht
        rcases List.mem_cons.mp ht with rfl | ht
        · exact le_max_right _ _
        · exact le_trans (hb t ht) (le_max_left _ _)

end TT.C08
