import TTModel.C16_Leapfrog
import TTProofs.Lemmas.Sums
import Mathlib.Tactic.Ring
import Mathlib.Logic.Function.Iterate
import Mathlib.Algebra.BigOperators.Group.Finset.Basic
/-! algebra of the three shears the leapfrog integrator is made of (any commutative ring) -/
namespace TT.C16
open TT

variable {R : Type} [CommRing R] {n : Nat}

theorem apply_neg (im : IMass R n) (p : Vec R n) :
    im.apply (fun i => -(p i)) = fun i => -(im.apply p i) := by
  cases im with
  | diag d => funext i; simp [IMass.apply]
  | dense m => funext i; simp [IMass.apply, sumFin_eq_sum, Finset.sum_neg_distrib]

theorem driftQ_eq (eps : R) (im : IMass R n) (q p : Vec R n) (i : Fin n) :
    driftQ eps im q p i = q i + eps * im.apply p i := by
  cases im with
  | diag d => simp [driftQ, IMass.apply]; ring
  | dense m => simp [driftQ, IMass.apply]

@[simp] theorem flip_flip (z : Vec R n × Vec R n) : flip (flip z) = z := by
  ext i <;> simp [flip]

theorem kick_kick (g : Vec R n → Vec R n) (a b : R) (z : Vec R n × Vec R n) :
    kick g a (kick g b z) = kick g (a + b) z := by
  ext i
  · simp [kick]
  · simp [kick]; ring

@[simp] theorem kick_zero (g : Vec R n → Vec R n) (z : Vec R n × Vec R n) : kick g 0 z = z := by
  ext i <;> simp [kick]

/-- conjugating a momentum shear by the flip inverts it -/
theorem flip_kick_flip (g : Vec R n → Vec R n) (a : R) (z : Vec R n × Vec R n) :
    flip (kick g a (flip z)) = kick g (-a) z := by
  ext i
  · simp [kick, flip]
  · simp [kick, flip]; ring

theorem kick_flip (g : Vec R n → Vec R n) (a : R) (z : Vec R n × Vec R n) :
    kick g a (flip z) = flip (kick g (-a) z) := by
  rw [← flip_kick_flip, flip_flip]

/-- conjugating the position shear by the flip inverts it -/
theorem drift_flip_drift (eps : R) (im : IMass R n) (z : Vec R n × Vec R n) :
    drift eps im (flip (drift eps im z)) = flip z := by
  ext i
  · simp only [drift, flip, driftQ_eq, apply_neg]; ring
  · simp [drift, flip]

/-- one loop iteration on `(q,p)` -/
def loopMap (g : Vec R n → Vec R n) (eps : R) (im : IMass R n) :
    Vec R n × Vec R n → Vec R n × Vec R n :=
  fun z => kick g eps (drift eps im z)

theorem loopBody_eq (g : Vec R n → Vec R n) (eps : R) (im : IMass R n) (s : LoopSt R n) :
    ((loopBody g eps im s).q, (loopBody g eps im s).p) = loopMap g eps im (s.q, s.p)
    ∧ (loopBody g eps im s).dU = negGrad g (loopBody g eps im s).q := by
  constructor
  · ext i <;> simp [loopBody, loopMap, kick, drift, force_eq]
  · simp [loopBody, force_eq]

theorem loop_eq (g : Vec R n → Vec R n) (eps : R) (im : IMass R n) :
    ∀ (k : Nat) (s : LoopSt R n), s.dU = negGrad g s.q →
      ((loop g eps im k s).q, (loop g eps im k s).p) = (loopMap g eps im)^[k] (s.q, s.p)
      ∧ (loop g eps im k s).dU = negGrad g (loop g eps im k s).q
  | 0, s, h => ⟨rfl, h⟩
  | k + 1, s, _ => by
    have hb := loopBody_eq g eps im s
    have ih := loop_eq g eps im k (loopBody g eps im s) hb.2
    simp only [loop, Function.iterate_succ_apply]
    rw [← hb.1]
    exact ih

/-- **the integrator is a composition of shears**:
`Φ = kick(−h) ∘ (kick ε ∘ drift ε)^steps ∘ kick h` -/
theorem leapfrogWith_eq (g : Vec R n → Vec R n) (h eps : R) (im : IMass R n) (steps : Nat)
    (q p : Vec R n) :
    leapfrogWith g h eps im steps q p
      = kick g (-h) ((loopMap g eps im)^[steps] (kick g h (q, p))) := by
  have hl := loop_eq g eps im steps ⟨q, fun i => p i - h * negGrad g q i, negGrad g q⟩ rfl
  simp only [leapfrogWith, force_eq]
  have h1 : (kick g h (q, p)) = (q, fun i => p i - h * negGrad g q i) := rfl
  rw [h1, ← hl.1]
  ext i
  · simp [kick]
  · simp only [kick, hl.2]; ring

/-- the single-iteration identity behind reversibility -/
theorem loopMap_flip_step (g : Vec R n → Vec R n) (eps : R) (im : IMass R n)
    (w : Vec R n × Vec R n) :
    loopMap g eps im (flip (kick g (-eps) (loopMap g eps im w))) = flip (kick g (-eps) w) := by
  unfold loopMap
  rw [kick_kick, neg_add_cancel, kick_zero, drift_flip_drift, kick_flip]

theorem loopMap_flip_iter (g : Vec R n → Vec R n) (eps : R) (im : IMass R n) :
    ∀ (k : Nat) (z : Vec R n × Vec R n),
      (loopMap g eps im)^[k] (flip (kick g (-eps) ((loopMap g eps im)^[k] z)))
        = flip (kick g (-eps) z)
  | 0, z => rfl
  | k + 1, z => by
    rw [Function.iterate_succ_apply, Function.iterate_succ_apply' (n := k),
      loopMap_flip_step, loopMap_flip_iter g eps im k z]

/-- reversibility of the shear composition when the two half steps add up to the full step -/
theorem shear_reversible (g : Vec R n → Vec R n) (h eps : R) (hh : h + h = eps) (im : IMass R n)
    (k : Nat) (z : Vec R n × Vec R n) :
    let Φ := fun z => kick g (-h) ((loopMap g eps im)^[k] (kick g h z))
    flip (Φ (flip (Φ z))) = z := by
  intro Φ
  show flip (kick g (-h) ((loopMap g eps im)^[k] (kick g h (flip
    (kick g (-h) ((loopMap g eps im)^[k] (kick g h z))))))) = z
  rw [kick_flip, kick_kick]
  have : -h + -h = -eps := by rw [← hh]; ring
  rw [this, loopMap_flip_iter, kick_flip, flip_flip, kick_kick, kick_kick]
  have : - -h + -eps + h = 0 := by rw [← hh]; ring
  rw [this, kick_zero]

/-! explicit inverses: every shear is a bijection -/
theorem kick_bijective (g : Vec R n → Vec R n) (a : R) : Function.Bijective (kick g a) := by
  refine Function.bijective_iff_has_inverse.mpr ⟨kick g (-a), fun z => ?_, fun z => ?_⟩
  · rw [kick_kick, neg_add_cancel, kick_zero]
  · rw [kick_kick, add_neg_cancel, kick_zero]

theorem drift_neg_drift (eps : R) (im : IMass R n) (z : Vec R n × Vec R n) :
    drift (-eps) im (drift eps im z) = z := by
  ext i
  · simp only [drift, driftQ_eq]; ring
  · simp [drift]

theorem drift_bijective (eps : R) (im : IMass R n) : Function.Bijective (drift eps im) := by
  refine Function.bijective_iff_has_inverse.mpr ⟨drift (-eps) im, fun z => ?_, fun z => ?_⟩
  · exact drift_neg_drift eps im z
  · have := drift_neg_drift (-eps) im z; rwa [neg_neg] at this

end TT.C16
