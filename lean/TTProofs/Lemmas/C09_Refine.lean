import TTProofs.Lemmas.C09_SplitMain
/-! C09: the explicit cut (`cutTimes`, `cutRates`) is a split; chains of splits. -/
open TT TT.C09
namespace TT.C09

theorem grid_cutTimes {t : Nat → ℝ} {m i : Nat} {s : ℝ} (g : Grid t m) (hi : i < m) (h1 : t i < s) (h2 : s < t (i + 1)) :
    Grid (cutTimes t i s) (m + 1) := by
  intro a b hab hb
  unfold cutTimes
  have hii : ¬ i + 1 ≤ i := by omega
  by_cases ha : a ≤ i
  · by_cases hb1 : b ≤ i
    · simp only [ha, hb1, ↓reduceIte]; exact g a b hab (by omega)
    · by_cases hb2 : b = i + 1
      · subst hb2
        simp only [ha, hii, ↓reduceIte]
        exact lt_of_le_of_lt (g.le ha (by omega)) h1
      · simp only [ha, hb1, hb2, ↓reduceIte]
        have : t a ≤ t i := g.le ha (by omega)
        have : t (i + 1) ≤ t (b - 1) := g.le (by omega) (by omega)
        linarith
  · have hb1 : ¬ b ≤ i := by omega
    by_cases ha2 : a = i + 1
    · have hb2 : ¬ b = i + 1 := by omega
      subst ha2
      simp only [hii, hb1, hb2, ↓reduceIte]
      have : t (i + 1) ≤ t (b - 1) := g.le (by omega) (by omega)
      linarith
    · have hb2 : ¬ b = i + 1 := by omega
      simp only [ha, hb1, ha2, hb2, ↓reduceIte]
      exact g (a - 1) (b - 1) (by omega) (by omega)

/-- the explicit cut satisfies the hypotheses of a split -/
theorem splitAt_cut (r : Rates ℝ) (t : Nat → ℝ) (m i : Nat) (s : ℝ) (hi : i < m) (g : Grid t m) (t0 : t 0 = 0)
    (h1 : t i < s) (h2 : s < t (i + 1)) (hlam : 0 < r.lam i) (hpsi : 0 < r.psi i) (hrho : 0 ≤ r.rho i)
    (hp : 0 ≤ pAt r t m (i + 1) ∧ pAt r t m (i + 1) ≤ 1) :
    SplitAt r (cutRates r i) t (cutTimes t i s) m i s where
  hi := hi
  grid := g
  grid' := grid_cutTimes g hi h1 h2
  t0 := t0
  t_lo := fun k hk => by simp [cutTimes, hk]
  t_mid := by simp [cutTimes]
  t_hi := fun k hk => by
    have a : ¬ k + 1 ≤ i := by omega
    have b : ¬ k = i := by omega
    simp [cutTimes, a, b]
  lam_lo := fun k hk => by simp [cutRates, dupAt, hk]
  lam_hi := fun k hk => by
    have a : ¬ k + 1 ≤ i := by omega
    simp [cutRates, dupAt, a]
  mu_lo := fun k hk => by simp [cutRates, dupAt, hk]
  mu_hi := fun k hk => by
    have a : ¬ k + 1 ≤ i := by omega
    simp [cutRates, dupAt, a]
  psi_lo := fun k hk => by simp [cutRates, dupAt, hk]
  psi_hi := fun k hk => by
    have a : ¬ k + 1 ≤ i := by omega
    simp [cutRates, dupAt, a]
  rho_lo := fun k hk => by simp [cutRates, hk]
  rho_mid := by simp [cutRates]
  rho_hi := fun k hk => by
    have a : ¬ k + 1 < i := by omega
    have b : ¬ k + 1 = i := by omega
    simp [cutRates, a, b]
  lam_pos := hlam
  psi_pos := hpsi
  rho_nonneg := hrho
  p_next := hp

/-- a chain of splits -/
inductive Refines : Rates ℝ → (Nat → ℝ) → Nat → Rates ℝ → (Nat → ℝ) → Nat → Prop
  | refl (r : Rates ℝ) (t : Nat → ℝ) (m : Nat) : Refines r t m r t m
  | step {r r' r'' : Rates ℝ} {t t' t'' : Nat → ℝ} {m m'' i : Nat} {s : ℝ} :
      SplitAt r r' t t' m i s → Refines r' t' (m + 1) r'' t'' m'' → Refines r t m r'' t'' m''

theorem Refines.last {r r'' : Rates ℝ} {t t'' : Nat → ℝ} {m m'' : Nat} (h : Refines r t m r'' t'' m'') :
    t'' m'' = t m := by
  induction h with
  | refl => rfl
  | step hs _ ih => rw [ih, hs.t'_last]

theorem logProb_refines {r r'' : Rates ℝ} {t t'' : Nat → ℝ} {m m'' : Nat} (h : Refines r t m r'' t'' m'')
    (surv : Bool) (tips ints : List ℝ)
    (hints : ∀ a ∈ ints, 0 < a ∧ a ≤ t m) (htips : ∀ a ∈ tips, 0 ≤ a ∧ a < t m) :
    logProb r'' none t'' m'' surv tips ints = logProb r none t m surv tips ints := by
  induction h with
  | refl => rfl
  | step hs _ ih =>
      rw [ih (by rw [hs.t'_last]; exact hints) (by rw [hs.t'_last]; exact htips)]
      exact logProb_split hs surv tips ints hints htips

end TT.C09
