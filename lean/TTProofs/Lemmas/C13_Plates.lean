import TTModel.C13_Json
/-! Helper lemmas for C13: `expandPlatesFuel` on plate-free values, and the plate step of the walk. -/
namespace TT.C13.Json
variable {ν : Type}

mutual
/-- no dict anywhere in the value is a plate -/
def plateFree : Json ν → Bool
  | arr xs => plateFreeList xs
  | obj kvs => !isPlate kvs && plateFreeFields kvs
  | _ => true
def plateFreeList : List (Json ν) → Bool
  | [] => true
  | x :: xs => plateFree x && plateFreeList xs
def plateFreeFields : List (String × Json ν) → Bool
  | [] => true
  | (_, v) :: rest => plateFree v && plateFreeFields rest
end

mutual
/-- number of nodes: bounds the nesting depth and the length of every list -/
def nodes : Json ν → Nat
  | arr xs => nodesList xs + 1
  | obj kvs => nodesFields kvs + 1
  | _ => 1
def nodesList : List (Json ν) → Nat
  | [] => 0
  | x :: xs => nodes x + nodesList xs
def nodesFields : List (String × Json ν) → Nat
  | [] => 0
  | (_, v) :: rest => nodes v + nodesFields rest
end

theorem nodes_pos (j : Json ν) : 0 < nodes j := by cases j <;> simp [nodes]

theorem length_le_nodesList (xs : List (Json ν)) : xs.length ≤ nodesList xs := by
  induction xs with
  | nil => simp [nodesList]
  | cons x xs ih => have := nodes_pos x; simp [nodesList]; omega

/-- `f` leaves plate-free values of at most `b` nodes unchanged -/
def Noop (f : Json ν → Except PlateErr (Json ν)) (b : Nat) : Prop :=
  ∀ x, plateFree x = true → nodes x ≤ b → f x = .ok x

/-- walking over a plate-free prefix just moves it to `done` -/
theorem expandWalk_prefix {f : Json ν → Except PlateErr (Json ν)} {b : Nat} (hf : Noop f b) :
    ∀ (xs : List (Json ν)) (n : Nat) (done tail : List (Json ν)),
      plateFreeList xs = true → nodesList xs ≤ b → xs.length ≤ n →
      expandWalk f n done (xs ++ tail) = expandWalk f (n - xs.length) (xs.reverse ++ done) tail := by
  intro xs
  induction xs with
  | nil => intro n done tail _ _ _; simp
  | cons x xs ih =>
    intro n done tail hpf hn hl
    simp only [plateFreeList, Bool.and_eq_true] at hpf
    simp only [nodesList] at hn
    cases n with
    | zero => simp at hl
    | succ n =>
      have hx : f x = .ok x := hf x hpf.1 (by omega)
      have hrec := ih n (x :: done) tail hpf.2 (by omega) (by simpa using hl)
      have hgoal : expandWalk f (n + 1) done (x :: (xs ++ tail)) =
          expandWalk f n (x :: done) (xs ++ tail) := by
        cases x with
        | obj kvs =>
          have hnp : isPlate kvs = false := by
            have := hpf.1; simp only [plateFree, Bool.and_eq_true, Bool.not_eq_true'] at this; exact this.1
          simp [expandWalk, hnp, hx]
        | null => simp [expandWalk, hx]
        | bool _ => simp [expandWalk, hx]
        | num _ => simp [expandWalk, hx]
        | str _ => simp [expandWalk, hx]
        | arr _ => simp [expandWalk, hx]
      rw [List.cons_append, hgoal, hrec]
      simp

theorem expandWalk_nil (f : Json ν → Except PlateErr (Json ν)) (n : Nat) (done : List (Json ν)) :
    expandWalk f n done [] = .ok done.reverse := by
  cases n <;> simp [expandWalk]

/-- a plate-free list is walked to itself -/
theorem expandWalk_plateFree {f : Json ν → Except PlateErr (Json ν)} {b : Nat} (hf : Noop f b)
    (xs : List (Json ν)) (n : Nat) (done : List (Json ν))
    (hpf : plateFreeList xs = true) (hn : nodesList xs ≤ b) (hl : xs.length ≤ n) :
    expandWalk f n done xs = .ok (done.reverse ++ xs) := by
  have := expandWalk_prefix hf xs n done [] hpf hn hl
  simp only [List.append_nil] at this
  rw [this, expandWalk_nil]; simp

theorem expandFields_plateFree {f : Json ν → Except PlateErr (Json ν)} {b : Nat} (hf : Noop f b) :
    ∀ (kvs : List (String × Json ν)), plateFreeFields kvs = true → nodesFields kvs ≤ b →
      expandFields f kvs = .ok kvs := by
  intro kvs
  induction kvs with
  | nil => intro _ _; simp [expandFields]
  | cons e rest ih =>
    rcases e with ⟨k, v⟩
    intro hpf hn
    simp only [plateFreeFields, Bool.and_eq_true] at hpf
    simp only [nodesFields] at hn
    simp [expandFields, hf v hpf.1 (by omega), ih hpf.2 (by omega)]

/-- with enough fuel and steps, `expand_plates` leaves a plate-free value unchanged -/
theorem expandPlates_plateFree (steps : Nat) :
    ∀ fuel, Noop (ν := ν) (fun j => if nodes j ≤ steps then expandPlatesFuel steps (fuel + 1) j else .ok j) fuel := by
  intro fuel
  induction fuel with
  | zero =>
    intro x _ hn
    have := nodes_pos x
    omega
  | succ fuel ih =>
    intro x hpf hn
    by_cases hs : nodes x ≤ steps
    · simp only [hs, if_true]
      -- the recursive calls are on strictly smaller values
      have hrec : Noop (ν := ν) (expandPlatesFuel steps (fuel + 1)) (min fuel steps) := by
        intro y hy hny
        have h1 : nodes y ≤ fuel := Nat.le_trans hny (Nat.min_le_left _ _)
        have h2 : nodes y ≤ steps := Nat.le_trans hny (Nat.min_le_right _ _)
        have := ih y hy h1
        simpa [h2] using this
      cases x with
      | arr xs =>
        simp only [plateFree] at hpf
        simp only [nodes] at hn hs
        have hl := length_le_nodesList xs
        rw [show expandPlatesFuel steps (fuel + 1 + 1) (arr xs) =
          (expandWalk (expandPlatesFuel steps (fuel + 1)) steps [] xs).map arr from rfl,
          expandWalk_plateFree hrec xs steps [] hpf (by simp [Nat.le_min]; omega) (by omega)]
        simp [Except.map]
      | obj kvs =>
        simp only [plateFree, Bool.and_eq_true, Bool.not_eq_true'] at hpf
        simp only [nodes] at hn hs
        rw [show expandPlatesFuel steps (fuel + 1 + 1) (obj kvs) =
          (if isPlate kvs then (if hasKey "range" kvs then .error .notInList else .ok (obj kvs))
           else (expandFields (expandPlatesFuel steps (fuel + 1)) kvs).map obj) from rfl,
          expandFields_plateFree hrec kvs hpf.2 (by simp [Nat.le_min]; omega)]
        simp [Except.map, hpf.1]
      | null => simp [expandPlatesFuel]
      | bool _ => simp [expandPlatesFuel]
      | num _ => simp [expandPlatesFuel]
      | str _ => simp [expandPlatesFuel]
    · simp [hs]

theorem expandPlatesFuel_noop (steps fuel : Nat) :
    Noop (ν := ν) (expandPlatesFuel steps (fuel + 1)) (min fuel steps) := by
  intro y hy hny
  have h1 : nodes y ≤ fuel := Nat.le_trans hny (Nat.min_le_left _ _)
  have h2 : nodes y ≤ steps := Nat.le_trans hny (Nat.min_le_right _ _)
  have := expandPlates_plateFree steps fuel y hy h1
  simpa [h2] using this

/-- the plate step of the walk: the clones replace the plate; the first clone is not revisited -/
theorem expandWalk_plate (f : Json ν → Except PlateErr (Json ν)) (n : Nat)
    (done rest : List (Json ν)) (kvs : List (String × Json ν)) (c : Json ν) (cs : List (Json ν))
    (hp : isPlate kvs = true) (hr : hasKey "range" kvs = true) (hc : plateClones kvs = .ok (c :: cs)) :
    expandWalk f (n + 1) done (obj kvs :: rest) = expandWalk f n (c :: done) (cs ++ rest) := by
  simp [expandWalk, hp, hr, hc]

theorem plateFreeList_append (xs ys : List (Json ν)) :
    plateFreeList (xs ++ ys) = (plateFreeList xs && plateFreeList ys) := by
  induction xs with
  | nil => simp [plateFreeList]
  | cons x xs ih => simp [plateFreeList, ih, Bool.and_assoc]

theorem nodesList_append (xs ys : List (Json ν)) :
    nodesList (xs ++ ys) = nodesList xs + nodesList ys := by
  induction xs with
  | nil => simp [nodesList]
  | cons x xs ih => simp [nodesList, ih, Nat.add_assoc]

end TT.C13.Json
