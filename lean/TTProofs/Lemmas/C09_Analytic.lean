import TTModel.C09_BDSK
import TTProofs.Lemmas.ScalarReal
import Mathlib.Tactic.FieldSimp
import Mathlib.Tactic.Ring
import Mathlib.Tactic.Linarith
import Mathlib.Tactic.Positivity
/-! Analytic lemmas for C09 over ℝ: the Möbius/semigroup identities of `p` and `q`, the link with the
constant-rate formulas of Stadler (2010), positivity of the denominators. -/
open TT TT.C09

namespace TT.C09

@[simp] theorem two_real : (two : ℝ) = 2 := by unfold two; norm_num
@[simp] theorem four_real : (four : ℝ) = 4 := by unfold four two; norm_num

/-- `q` at distance `d` before the end of an epoch with coefficients `A, B` -/
noncomputable def qv (A B d : ℝ) : ℝ :=
  4 * Real.exp (A * d) / (Real.exp (A * d) * (1 + B) + (1 - B)) ^ 2

theorem logq_eq (A B t ti : ℝ) : logq A B t ti = Real.log (qv A B (ti - t)) := by
  unfold logq qv
  simp only [trans_exp_real, trans_log_real, four_real]
  congr 1
  have : -(A * (t - ti)) = A * (ti - t) := by ring
  rw [this, sq]

/-- the denominator is at least 2 when `B ≥ -1`, `A d ≥ 0` -/
theorem denom_ge_two (A B d : ℝ) (hB : -1 ≤ B) (hAd : 0 ≤ A * d) :
    2 ≤ Real.exp (A * d) * (1 + B) + (1 - B) := by
  have h1 : 1 ≤ Real.exp (A * d) := Real.one_le_exp hAd
  nlinarith

/-- `B` of the older sub-epoch, when the younger one has the same rates and there is no sampling at the cut -/
theorem Bcoef_of_pClosed (lam mu psi A B d : ℝ) (hA : A ≠ 0) (hlam : lam ≠ 0)
    (hD : Real.exp (A * d) * (1 + B) + (1 - B) ≠ 0) :
    ((1 - 2 * (1 - 0) * pClosed lam mu psi A B d) * lam + mu + psi) / A
      = (Real.exp (A * d) * (1 + B) - (1 - B)) / (Real.exp (A * d) * (1 + B) + (1 - B)) := by
  unfold pClosed
  simp only [trans_exp_real, two_real]
  field_simp
  ring

theorem p_semigroup_core (lam mu psi A B d1 d2 : ℝ)
    (hD2 : Real.exp (A * d2) * (1 + B) + (1 - B) ≠ 0)
    (hD12 : Real.exp (A * (d1 + d2)) * (1 + B) + (1 - B) ≠ 0) :
    pClosed lam mu psi A
      ((Real.exp (A * d2) * (1 + B) - (1 - B)) / (Real.exp (A * d2) * (1 + B) + (1 - B))) d1
      = pClosed lam mu psi A B (d1 + d2) := by
  unfold pClosed
  simp only [trans_exp_real, two_real]
  have he : Real.exp (A * (d1 + d2)) = Real.exp (A * d1) * Real.exp (A * d2) := by
    rw [← Real.exp_add]; ring_nf
  rw [he] at hD12 ⊢
  set u := Real.exp (A * d2)
  set v := Real.exp (A * d1)
  set D := u * (1 + B) + (1 - B)
  have h1 : 1 + (u * (1 + B) - (1 - B)) / D = 2 * u * (1 + B) / D := by
    field_simp; ring
  have h2 : 1 - (u * (1 + B) - (1 - B)) / D = 2 * (1 - B) / D := by
    field_simp; ring
  rw [h1, h2]
  have hD12' : v * u * (1 + B) + (1 - B) ≠ 0 := hD12
  have h3 : v * (2 * u * (1 + B) / D) + 2 * (1 - B) / D ≠ 0 := by
    have : v * (2 * u * (1 + B) / D) + 2 * (1 - B) / D = 2 * (v * u * (1 + B) + (1 - B)) / D := by
      field_simp
    rw [this]
    exact div_ne_zero (mul_ne_zero two_ne_zero hD12') hD2
  have key : A * (v * (2 * u * (1 + B) / D) - 2 * (1 - B) / D) / (v * (2 * u * (1 + B) / D) + 2 * (1 - B) / D)
      = A * (v * u * (1 + B) - (1 - B)) / (v * u * (1 + B) + (1 - B)) := by
    rw [div_eq_div_iff h3 hD12']
    field_simp
  rw [key]

theorem q_semigroup_core (A B d1 d2 : ℝ)
    (hD2 : Real.exp (A * d2) * (1 + B) + (1 - B) ≠ 0)
    (hD12 : Real.exp (A * (d1 + d2)) * (1 + B) + (1 - B) ≠ 0) :
    qv A ((Real.exp (A * d2) * (1 + B) - (1 - B)) / (Real.exp (A * d2) * (1 + B) + (1 - B))) d1
      * qv A B d2 = qv A B (d1 + d2) := by
  unfold qv
  have he : Real.exp (A * (d1 + d2)) = Real.exp (A * d1) * Real.exp (A * d2) := by
    rw [← Real.exp_add]; ring_nf
  rw [he] at hD12 ⊢
  set u := Real.exp (A * d2)
  set v := Real.exp (A * d1)
  set D := u * (1 + B) + (1 - B)
  have h1 : 1 + (u * (1 + B) - (1 - B)) / D = 2 * u * (1 + B) / D := by
    field_simp; ring
  have h2 : 1 - (u * (1 + B) - (1 - B)) / D = 2 * (1 - B) / D := by
    field_simp; ring
  rw [h1, h2]
  have hD12' : v * u * (1 + B) + (1 - B) ≠ 0 := hD12
  have h3 : v * (2 * u * (1 + B) / D) + 2 * (1 - B) / D = 2 * (v * u * (1 + B) + (1 - B)) / D := by
    field_simp
  rw [h3]
  field_simp
  ring


theorem Bcoef_def (r : Rates ℝ) (i : Nat) (pn : ℝ) :
    Bcoef r i pn = ((1 - 2 * (1 - r.rho i) * pn) * r.lam i + r.mu i + r.psi i) / Acoef r i := by
  unfold Bcoef; simp only [two_real]

/-- the loop of `log_p` multiplies by `1/(2 lam)`; same value as the closed form -/
theorem pStep_eq_pClosed (r : Rates ℝ) (i : Nat) (d pn : ℝ) :
    pStep r i d pn = pClosed (r.lam i) (r.mu i) (r.psi i) (Acoef r i) (Bcoef r i pn) d := by
  unfold pStep pClosed
  simp only [div_eq_mul_inv, one_mul]

/-! ## Stadler (2010) constant-rate formulas (backward time: `a` = age) -/

/-- `q(t)` of Stadler (2010), Thm 3.5, with `c1, c2` -/
noncomputable def q10 (c1 c2 a : ℝ) : ℝ :=
  2 * (1 - c2 ^ 2) + Real.exp (-c1 * a) * (1 - c2) ^ 2 + Real.exp (c1 * a) * (1 + c2) ^ 2

/-- `p0(t)` of Stadler (2010) -/
noncomputable def p10 (lam mu psi c1 c2 a : ℝ) : ℝ :=
  (lam + mu + psi + c1 * (Real.exp (-c1 * a) * (1 - c2) - (1 + c2)) / (Real.exp (-c1 * a) * (1 - c2) + (1 + c2)))
    / (2 * lam)

theorem q10_eq (A B a : ℝ) :
    q10 A B a = (Real.exp (A * a) * (1 + B) + (1 - B)) ^ 2 / Real.exp (A * a) := by
  unfold q10
  have h : Real.exp (-A * a) = (Real.exp (A * a))⁻¹ := by rw [← Real.exp_neg]; ring_nf
  rw [h]
  have hne : Real.exp (A * a) ≠ 0 := Real.exp_ne_zero _
  field_simp
  ring

theorem qv_eq_four_div_q10 (A B a : ℝ) : qv A B a = 4 / q10 A B a := by
  rw [q10_eq]
  unfold qv
  rw [div_div_eq_mul_div]

theorem q10_pos (A B a : ℝ) (hD : Real.exp (A * a) * (1 + B) + (1 - B) ≠ 0) : 0 < q10 A B a := by
  rw [q10_eq]
  exact div_pos (by positivity) (Real.exp_pos _)

theorem pClosed_eq_p10 (lam mu psi A B a : ℝ) (hD : Real.exp (A * a) * (1 + B) + (1 - B) ≠ 0) :
    pClosed lam mu psi A B a = p10 lam mu psi A B a := by
  unfold pClosed p10
  simp only [trans_exp_real, two_real]
  have h : Real.exp (-A * a) = (Real.exp (A * a))⁻¹ := by rw [← Real.exp_neg]; ring_nf
  rw [h]
  have hne : Real.exp (A * a) ≠ 0 := Real.exp_ne_zero _
  set e := Real.exp (A * a)
  have h2 : e⁻¹ * (1 - B) + (1 + B) ≠ 0 := by
    have : e⁻¹ * (1 - B) + (1 + B) = (e * (1 + B) + (1 - B)) / e := by field_simp; ring
    rw [this]; exact div_ne_zero hD hne
  congr 1
  have : A * (e⁻¹ * (1 - B) - (1 + B)) / (e⁻¹ * (1 - B) + (1 + B))
      = -(A * (e * (1 + B) - (1 - B)) / (e * (1 + B) + (1 - B))) := by
    rw [neg_div', div_eq_div_iff h2 hD]
    field_simp
    ring
  rw [this]; ring

/-- `A > 0` as soon as `lam psi > 0` -/
theorem Acoef_pos (r : Rates ℝ) (i : Nat) (h : 0 < r.lam i * r.psi i) : 0 < Acoef r i := by
  unfold Acoef
  simp only [trans_sqrt_real, four_real]
  apply Real.sqrt_pos.mpr
  nlinarith [mul_self_nonneg (r.lam i - r.mu i - r.psi i)]

/-- `|lam - mu - psi| ≤ A` -/
theorem abs_le_Acoef (r : Rates ℝ) (i : Nat) (h : 0 ≤ r.lam i * r.psi i) :
    |r.lam i - r.mu i - r.psi i| ≤ Acoef r i := by
  unfold Acoef
  simp only [trans_sqrt_real, four_real]
  rw [← Real.sqrt_mul_self (abs_nonneg _)]
  apply Real.sqrt_le_sqrt
  rw [abs_mul_abs_self]
  nlinarith

/-- `B ≥ -1` for `0 ≤ (1 - rho) p ≤ 1`-type inputs: here stated for `pn ≤ 1`, `0 ≤ rho ≤ 1`, `0 ≤ pn` -/
theorem Bcoef_ge_neg_one (r : Rates ℝ) (i : Nat) (pn : ℝ) (hlp : 0 < r.lam i * r.psi i) (hlam : 0 ≤ r.lam i)
    (hp0 : 0 ≤ pn) (hp1 : pn ≤ 1) (hr0 : 0 ≤ r.rho i) : -1 ≤ Bcoef r i pn := by
  have hA := Acoef_pos r i hlp
  unfold Bcoef
  simp only [two_real]
  rw [le_div_iff₀ hA]
  have h1 := abs_le_Acoef r i hlp.le
  have h2 := neg_abs_le (r.lam i - r.mu i - r.psi i)
  have h3 : (1 - r.rho i) * pn ≤ 1 := by nlinarith
  nlinarith [abs_nonneg (r.lam i - r.mu i - r.psi i), le_abs_self (r.lam i - r.mu i - r.psi i)]

end TT.C09
