import TTProofs.Lemmas.C08_SoftLemmas
import Mathlib.Analysis.Calculus.Deriv.Inv
import Mathlib.Analysis.Calculus.Deriv.Mul
import Mathlib.Analysis.Calculus.Deriv.Add
import Mathlib.Analysis.SpecialFunctions.Log.Deriv
/-!
# C12 (companion) — calculus helpers for the relaxed skygrid in `θ`
-/
namespace TT.C08
open Real

/-- derivative of a finite sum of functions indexed by a list -/
theorem hasDerivAt_list_sum {ι : Type} (f : ι → ℝ → ℝ) (f' : ι → ℝ) (x : ℝ) : ∀ l : List ι,
    (∀ i ∈ l, HasDerivAt (f i) (f' i) x) → HasDerivAt (fun t => (l.map fun i => f i t).sum) (l.map f').sum x
  | [], _ => by simpa using hasDerivAt_const x (0 : ℝ)
  | i :: l, h => by
      have h1 := h i List.mem_cons_self
      have h2 := hasDerivAt_list_sum f f' x l (fun j hj => h j (List.mem_cons_of_mem _ hj))
      have h3 := h1.add h2
      simp only [List.map_cons, List.sum_cons]
      exact h3

/-- `Σ w_j θ_j` is affine in each `θ_k` with slope `w_k` -/
theorem hasDerivAt_dot_set : ∀ (w θ : List ℝ) (k : ℕ) (x : ℝ), k < θ.length →
    HasDerivAt (fun t => dot w (θ.set k t)) (w.getD k 0) x
  | [], θ, k, x, _ => by simpa [dot] using hasDerivAt_const x (0 : ℝ)
  | _ :: _, [], k, _, hk => by simp at hk
  | a :: w, b :: θ, 0, x, _ => by
      have : (fun t : ℝ => dot (a :: w) ((b :: θ).set 0 t)) = fun t => a * t + dot w θ := by
        funext t; simp [dot]
      rw [this]
      simpa using ((hasDerivAt_id x).const_mul a).add_const (dot w θ)
  | a :: w, b :: θ, k + 1, x, hk => by
      have : (fun t : ℝ => dot (a :: w) ((b :: θ).set (k + 1) t)) = fun t => a * b + dot w (θ.set k t) := by
        funext t; simp [dot]
      rw [this]
      simpa using (hasDerivAt_dot_set w θ k x (by simpa using hk)).const_add (a * b)

/-- a positive lower bound of a list of positive numbers -/
theorem exists_pos_lower_bound : ∀ θ : List ℝ, (∀ b ∈ θ, 0 < b) → ∃ lo : ℝ, 0 < lo ∧ ∀ b ∈ θ, lo ≤ b
  | [], _ => ⟨1, one_pos, by simp⟩
  | a :: θ, h => by
      obtain ⟨lo, hlo, hlb⟩ := exists_pos_lower_bound θ (fun b hb => h b (List.mem_cons_of_mem _ hb))
      refine ⟨min lo a, lt_min hlo (h a List.mem_cons_self), ?_⟩
      intro b hb
      rcases List.mem_cons.mp hb with rfl | hb'
      · exact min_le_right _ _
      · exact le_trans (min_le_left _ _) (hlb b hb')

/-- the relaxed population size is positive when every `θ_k` is -/
theorem softTheta_pos (τ : ℝ) (θ grid : List ℝ) (t : ℝ) (hθ : θ.length = grid.length + 1) (hpos : ∀ b ∈ θ, 0 < b) :
    0 < softTheta τ θ grid t := by
  obtain ⟨lo, hlo, hb⟩ := exists_pos_lower_bound θ hpos
  have h := dot_bounds lo lo (pieceWeights τ grid t) θ (by rw [pieceWeights_length, hθ])
    (pieceWeights_nonneg τ grid t)
  -- only the lower bound is needed
  have hl : lo * (pieceWeights τ grid t).sum ≤ dot (pieceWeights τ grid t) θ := by
    have : ∀ (w x : List ℝ), w.length = x.length → (∀ a ∈ w, 0 ≤ a) → (∀ b ∈ x, lo ≤ b) → lo * w.sum ≤ dot w x := by
      intro w
      induction w with
      | nil => intro x _ _ _; simp [dot]
      | cons a w ih =>
        intro x hl hw hx
        cases x with
        | nil => simp at hl
        | cons b x =>
          have := ih x (by simpa using hl) (fun a ha => hw a (List.mem_cons_of_mem _ ha))
            (fun b hb => hx b (List.mem_cons_of_mem _ hb))
          unfold dot at this ⊢
          simp only [List.zipWith_cons_cons, List.sum_cons]
          nlinarith [mul_le_mul_of_nonneg_left (hx b List.mem_cons_self) (hw a List.mem_cons_self)]
    exact this _ _ (by rw [pieceWeights_length, hθ]) (pieceWeights_nonneg τ grid t) hb
  rw [pieceWeights_sum_one, mul_one] at hl
  unfold softTheta
  linarith

theorem zipWith3_map_third {β γ δ δ' ε : Type} (f : β → γ → δ → ε) (h : δ' → δ) :
    ∀ (ks : List β) (ds : List γ) (ts : List δ'),
      zipWith3 f ks ds (ts.map h) = zipWith3 (fun k d t => f k d (h t)) ks ds ts
  | [], _, _ => by simp [zipWith3]
  | _ :: _, [], _ => by simp [zipWith3]
  | _ :: _, _ :: _, [] => by simp [zipWith3]
  | k :: ks, d :: ds, t :: ts => by simp [zipWith3, zipWith3_map_third f h ks ds ts]

/-- the three zipped lists as a list of triples -/
def zip3 {β γ δ : Type} : List β → List γ → List δ → List (β × γ × δ)
  | a :: as, b :: bs, c :: cs => (a, b, c) :: zip3 as bs cs
  | _, _, _ => []

theorem zipWith3_eq_map_zip3 {β γ δ ε : Type} (f : β → γ → δ → ε) : ∀ (ks : List β) (ds : List γ) (ts : List δ),
    zipWith3 f ks ds ts = (zip3 ks ds ts).map fun p => f p.1 p.2.1 p.2.2
  | [], _, _ => by simp [zipWith3, zip3]
  | _ :: _, [], _ => by simp [zipWith3, zip3]
  | _ :: _, _ :: _, [] => by simp [zipWith3, zip3]
  | k :: ks, d :: ds, t :: ts => by simp [zipWith3, zip3, zipWith3_eq_map_zip3 f ks ds ts]

end TT.C08
