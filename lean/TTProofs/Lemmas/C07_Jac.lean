import TTModel.C07_Transforms
import TTProofs.Lemmas.Sums
import TTProofs.Lemmas.ScalarReal
import Mathlib.LinearAlgebra.Matrix.Block
import Mathlib.Analysis.Calculus.Deriv.Basic
import Mathlib.Analysis.Calculus.Deriv.Add
import Mathlib.Analysis.Calculus.Deriv.Mul
import Mathlib.Analysis.SpecialFunctions.Log.Basic
import Mathlib.Analysis.SpecialFunctions.Log.Deriv
import Mathlib.Analysis.SpecialFunctions.ExpDeriv
/-!
The Jacobian matrix of a map `ℝⁿ → ℝⁿ` as the matrix of partial derivatives, and the generic
fact used for every transform of C07: if output `i` depends only on inputs `j ≤ i` (or only on
`j ≥ i`) the Jacobian is triangular and `log|det J| = Σ log|∂fᵢ/∂xᵢ|`.
-/
namespace TT.C07
open Matrix

variable {n : ℕ}

/-- matrix of partial derivatives of `f` at `x` -/
noncomputable def jac (f : (Fin n → ℝ) → Fin n → ℝ) (x : Fin n → ℝ) : Matrix (Fin n) (Fin n) ℝ :=
  fun i j => deriv (fun t => f (Function.update x j t) i) (x j)

/-- output `i` does not depend on inputs `j > i` -/
def LowerDep (f : (Fin n → ℝ) → Fin n → ℝ) : Prop :=
  ∀ i j, i < j → ∀ x t, f (Function.update x j t) i = f x i

/-- output `i` does not depend on inputs `j < i` -/
def UpperDep (f : (Fin n → ℝ) → Fin n → ℝ) : Prop :=
  ∀ i j, j < i → ∀ x t, f (Function.update x j t) i = f x i

theorem jac_zero_of_indep (f : (Fin n → ℝ) → Fin n → ℝ) (x : Fin n → ℝ) (i j : Fin n)
    (h : ∀ t, f (Function.update x j t) i = f x i) : jac f x i j = 0 := by
  unfold jac
  have : (fun t => f (Function.update x j t) i) = fun _ => f x i := funext h
  rw [this]; simp

theorem jac_diag (f : (Fin n → ℝ) → Fin n → ℝ) (x : Fin n → ℝ) (d : Fin n → ℝ)
    (hd : ∀ i, HasDerivAt (fun t => f (Function.update x i t) i) (d i) (x i)) (i : Fin n) :
    jac f x i i = d i := (hd i).deriv

/-- **tri_logdet** (lower-triangular dependence) -/
theorem tri_logdet_lower (f : (Fin n → ℝ) → Fin n → ℝ) (h : LowerDep f) (x : Fin n → ℝ)
    (d : Fin n → ℝ) (hd : ∀ i, HasDerivAt (fun t => f (Function.update x i t) i) (d i) (x i))
    (hne : ∀ i, d i ≠ 0) :
    Real.log |(jac f x).det| = ∑ i, Real.log |d i| := by
  have htri : (jac f x).BlockTriangular OrderDual.toDual := by
    intro i j hij
    exact jac_zero_of_indep f x i j (fun t => h i j hij x t)
  rw [Matrix.det_of_isLowerTriangular _ htri]
  simp only [jac_diag f x d hd, Finset.abs_prod]
  rw [Real.log_prod]
  intro i _; exact abs_ne_zero.mpr (hne i)

/-- **tri_logdet** (upper-triangular dependence) -/
theorem tri_logdet_upper (f : (Fin n → ℝ) → Fin n → ℝ) (h : UpperDep f) (x : Fin n → ℝ)
    (d : Fin n → ℝ) (hd : ∀ i, HasDerivAt (fun t => f (Function.update x i t) i) (d i) (x i))
    (hne : ∀ i, d i ≠ 0) :
    Real.log |(jac f x).det| = ∑ i, Real.log |d i| := by
  have htri : (jac f x).BlockTriangular id := by
    intro i j hij
    exact jac_zero_of_indep f x i j (fun t => h i j hij x t)
  rw [Matrix.det_of_isUpperTriangular htri]
  simp only [jac_diag f x d hd, Finset.abs_prod]
  rw [Real.log_prod]
  intro i _; exact abs_ne_zero.mpr (hne i)

/-! ### vectors of the models (`Nat → ℝ`) versus `Fin n → ℝ` -/

/-- a point of `ℝⁿ` as the models see it -/
def ext (x : Fin n → ℝ) : Nat → ℝ := fun i => if h : i < n then x ⟨i, h⟩ else 0

/-- a model map `(Nat → ℝ) → (Nat → ℝ)` of length `n` as a map `ℝⁿ → ℝⁿ` -/
def lift (F : (Nat → ℝ) → Nat → ℝ) : (Fin n → ℝ) → Fin n → ℝ := fun x i => F (ext x) i.val

theorem ext_update (x : Fin n → ℝ) (j : Fin n) (t : ℝ) :
    ext (Function.update x j t) = Function.update (ext x) j.val t := by
  funext i
  unfold ext
  by_cases hi : i < n
  · simp only [hi, dite_true]
    by_cases hij : i = j.val
    · subst hij
      simp [Function.update_self]
    · rw [Function.update_of_ne hij, Function.update_of_ne (by intro e; exact hij (by rw [← e]))]
      simp [hi]
  · have : i ≠ j.val := by have := j.isLt; omega
    simp [hi, Function.update_of_ne this]

@[simp] theorem ext_apply (x : Fin n → ℝ) (i : Fin n) : ext x i.val = x i := by
  simp [ext, i.isLt]

/-- the generic lemma for a model map of length `n`: lower-triangular dependence -/
theorem lift_logdet_lower (F : (Nat → ℝ) → Nat → ℝ) (d : (Nat → ℝ) → Nat → ℝ)
    (hdep : ∀ (X : Nat → ℝ) (i j : Nat), i < j → j < n → ∀ t, F (Function.update X j t) i = F X i)
    (hdiag : ∀ (X : Nat → ℝ) (i : Nat), i < n →
      HasDerivAt (fun t => F (Function.update X i t) i) (d X i) (X i))
    (x : Fin n → ℝ) (hne : ∀ i : Fin n, d (ext x) i.val ≠ 0) :
    Real.log |(jac (lift F) x).det| = ∑ i : Fin n, Real.log |d (ext x) i.val| := by
  apply tri_logdet_lower (lift F) ?_ x (fun i => d (ext x) i.val) ?_ hne
  · intro i j hij y t
    simp only [lift, ext_update]
    exact hdep (ext y) i.val j.val hij j.isLt t
  · intro i
    have := hdiag (ext x) i.val i.isLt
    simp only [lift, ext_update]
    simpa using this

/-- the generic lemma for a model map of length `n`: upper-triangular dependence -/
theorem lift_logdet_upper (F : (Nat → ℝ) → Nat → ℝ) (d : (Nat → ℝ) → Nat → ℝ)
    (hdep : ∀ (X : Nat → ℝ) (i j : Nat), j < i → i < n → ∀ t, F (Function.update X j t) i = F X i)
    (hdiag : ∀ (X : Nat → ℝ) (i : Nat), i < n →
      HasDerivAt (fun t => F (Function.update X i t) i) (d X i) (X i))
    (x : Fin n → ℝ) (hne : ∀ i : Fin n, d (ext x) i.val ≠ 0) :
    Real.log |(jac (lift F) x).det| = ∑ i : Fin n, Real.log |d (ext x) i.val| := by
  apply tri_logdet_upper (lift F) ?_ x (fun i => d (ext x) i.val) ?_ hne
  · intro i j hij y t
    simp only [lift, ext_update]
    exact hdep (ext y) i.val j.val hij i.isLt t
  · intro i
    have := hdiag (ext x) i.val i.isLt
    simp only [lift, ext_update]
    simpa using this

theorem sumTo_eq (n : ℕ) (v : Nat → ℝ) : sumTo n v = ∑ i : Fin n, v i.val := by
  unfold sumTo; rw [sumFin_eq_sum]

end TT.C07
