import TTModel.C11_Cache
/-! C11 helper lemmas: `freshF` (fresh rebuild) and `evalF` (getter call) -/
namespace TT.C11
variable {V : Type} [Inhabited V]

theorem cellAt_default (m : Machine) (c : Nat) (h : m.nC ≤ c) : m.cellAt c = default := by
  unfold Machine.cellAt Machine.nC at *
  simp [List.getD, List.getElem?_eq_none h]

theorem reads_lt' (m : Machine) (hwf : WF m) (c : Nat) : ∀ r ∈ (m.cellAt c).reads, r.1 < c := by
  by_cases h : c < m.nC
  · exact hwf.reads_lt c h
  · rw [cellAt_default m c (by omega)]; intro r hr; cases hr

/-- the fresh value does not depend on the fuel once there is enough of it -/
theorem freshF_fuel (m : Machine) (hwf : WF m) (F : Nat → List V → V) (leaf : Nat → V) :
    ∀ f1 f2 c, c < f1 → c < f2 → freshF m F leaf f1 c = freshF m F leaf f2 c := by
  intro f1
  induction f1 with
  | zero => intro f2 c h; omega
  | succ f1 ih =>
    intro f2 c h1 h2
    cases f2 with
    | zero => omega
    | succ f2 =>
      simp only [freshF]
      split
      · rfl
      · congr 1
        apply List.map_congr_left
        intro r hr
        have := reads_lt' m hwf c r hr
        exact ih f2 r.1 (by omega) (by omega)

theorem freshF_unfold (m : Machine) (hwf : WF m) (F : Nat → List V → V) (leaf : Nat → V) (c : Nat)
    (hc : c < m.nC) :
    freshF m F leaf m.nC c =
      if (m.cellAt c).leaf then leaf c
      else F c ((m.cellAt c).reads.map fun r => freshF m F leaf m.nC r.1) := by
  obtain ⟨n, hn⟩ : ∃ n, m.nC = n + 1 := ⟨m.nC - 1, by omega⟩
  rw [hn]
  simp only [freshF]
  split
  · rfl
  · congr 1
    apply List.map_congr_left
    intro r hr
    have := reads_lt' m hwf c r hr
    exact freshF_fuel m hwf F leaf n (n + 1) r.1 (by omega) (by omega)

/-- specification of one getter call used for a list of reads -/
def EvSpec (m : Machine) (F : Nat → List V → V) (ev : Nat → Bool → State V → V × State V) (d : Nat) : Prop :=
  ∀ clr s, Inv m F s →
    (ev d clr s).1 = freshF m F s.leaf m.nC d ∧ Inv m F (ev d clr s).2 ∧ (ev d clr s).2.leaf = s.leaf

theorem evalReads_spec (m : Machine) (F : Nat → List V → V) (ev : Nat → Bool → State V → V × State V) :
    ∀ (rs : List (Nat × Bool)) (s : State V), (∀ r ∈ rs, EvSpec m F ev r.1) → Inv m F s →
      (evalReads ev rs s).1 = rs.map (fun r => freshF m F s.leaf m.nC r.1) ∧
      Inv m F (evalReads ev rs s).2 ∧ (evalReads ev rs s).2.leaf = s.leaf := by
  intro rs
  induction rs with
  | nil => intro s _ hi; exact ⟨rfl, hi, rfl⟩
  | cons r rs ih =>
    intro s hev hi
    have h1 := hev r (List.mem_cons_self ..) r.2 s hi
    have h2 := ih (ev r.1 r.2 s).2 (fun x hx => hev x (List.mem_cons_of_mem _ hx)) h1.2.1
    simp only [evalReads, List.map_cons]
    refine ⟨?_, h2.2.1, ?_⟩
    · rw [h1.1, h2.1, h1.2.2]
    · rw [h2.2.2, h1.2.2]

theorem clearFlag_eq (fl : Flags) (j f a b : Nat) :
    clearFlag fl j f a b = if a = j ∧ b = f then false else fl a b := rfl

/-- **a getter call returns the fresh value and keeps the cache-coherence invariant** -/
theorem evalF_spec (m : Machine) (hwf : WF m) (F : Nat → List V → V) :
    ∀ fuel c, c < fuel → c < m.nC → EvSpec m F (evalF m F fuel) c := by
  intro fuel
  induction fuel with
  | zero => intro c h; omega
  | succ fuel ih =>
    intro c hcf hc clr s hi
    have hreads : ∀ r ∈ (m.cellAt c).reads, EvSpec m F (evalF m F fuel) r.1 := by
      intro r hr
      have := hwf.reads_lt c hc r hr
      exact ih r.1 (by omega) (by omega)
    have hR := evalReads_spec m F (evalF m F fuel) (m.cellAt c).reads s hreads hi
    have hfresh := freshF_unfold m hwf F s.leaf c hc
    simp only [evalF]
    by_cases hl : (m.cellAt c).leaf = true
    · simp only [hl, if_true]
      refine ⟨?_, hi, trivial⟩
      rw [hfresh]; simp [hl]
    · have hl' : (m.cellAt c).leaf = false := by simpa using hl
      simp only [hl', Bool.false_eq_true, if_false] at hfresh ⊢
      cases hg : (m.cellAt c).guard with
      | none =>
        simp only
        refine ⟨?_, hR.2.1, hR.2.2⟩
        rw [hfresh, hR.1]
      | some f =>
        simp only
        by_cases hclean : s.flag (m.cellAt c).owner f = false ∧ (m.cellAt c).always = false
        · simp only [hclean, and_self, if_true]
          refine ⟨?_, hi, trivial⟩
          rw [hi c hc f hg hclean.1]; rfl
        · simp only [hclean, if_false]
          have hv : F c (evalReads (evalF m F fuel) (m.cellAt c).reads s).1 = freshF m F s.leaf m.nC c := by
            rw [hfresh, hR.1]
          refine ⟨hv, ?_, hR.2.2⟩
          intro c' hc' f' hg' hfl'
          simp only at hfl' ⊢
          rw [hR.2.2]
          by_cases hcc : c' = c
          · subst hcc; simp [upd, hv]
          · simp only [upd, hcc, if_false]
            have hfl'' : (evalReads (evalF m F fuel) (m.cellAt c).reads s).2.flag (m.cellAt c').owner f' = false := by
              by_cases hclr : clr = true
              · simp only [hclr, if_true, clearFlag_eq] at hfl'
                split at hfl'
                · rename_i hh
                  exfalso; apply hcc
                  apply hwf.guard_inj c' hc' c hc hh.1
                  · rw [hg', hg, hh.2]
                  · rw [hg']; simp
                · exact hfl'
              · simpa [hclr] using hfl'
            have := hR.2.1 c' hc' f' hg' hfl''
            rw [this, hR.2.2]

end TT.C11
