import TTModel.C02_Names
import TTModel.C01_Patterns
import TTProofs.Lemmas.C02_Names
import Mathlib.Tactic.Ring
/-! helper lemmas for C02: child swaps anywhere in the tree; sequence order -/
namespace TT.C02
open TT TT.C01

variable {β : Type}

/-- `SwapEq T T'`: `T'` is `T` with the children of any set of nodes swapped -/
inductive SwapEq : LTree β → LTree β → Prop
  | refl (T : LTree β) : SwapEq T T
  | swap (l r : LTree β) (b : β) : SwapEq (.node l r b) (.node r l b)
  | congr {l l' r r' : LTree β} (b : β) : SwapEq l l' → SwapEq r r' → SwapEq (.node l r b) (.node l' r' b)
  | trans {a b c : LTree β} : SwapEq a b → SwapEq b c → SwapEq a c

def LTree.isNode : LTree β → Prop
  | .leaf _ _ => False
  | .node _ _ _ => True

theorem SwapEq.isNode {T T' : LTree β} (h : SwapEq T T') : T.isNode ↔ T'.isNode := by
  induction h with
  | refl => rfl
  | swap => simp [LTree.isNode]
  | congr => simp [LTree.isNode]
  | trans _ _ h1 h2 => exact h1.trans h2

theorem SwapEq.branch {T T' : LTree β} (h : SwapEq T T') : T.branch = T'.branch := by
  induction h with
  | refl => rfl
  | swap => rfl
  | congr => rfl
  | trans _ _ h1 h2 => exact h1.trans h2

theorem SwapEq.names_perm {T T' : LTree β} (h : SwapEq T T') : T.names.Perm T'.names := by
  induction h with
  | refl => exact List.Perm.refl _
  | swap l r b => exact List.perm_append_comm
  | congr b _ _ h1 h2 => exact List.Perm.append h1 h2
  | trans _ _ h1 h2 => exact h1.trans h2

theorem SwapEq.partialN {R : Type} [CommSemiring R] {K S : Nat} (P : β → Fin K → Fin S → Fin S → R)
    (data : String → Fin S → R) {T T' : LTree β} (h : SwapEq T T') :
    partialN P data T = partialN P data T' := by
  induction h with
  | refl => rfl
  | swap l r b =>
    funext k s
    simp only [TT.C02.partialN]
    ring
  | congr b hl hr h1 h2 =>
    funext k s
    simp only [TT.C02.partialN, h1, h2, hl.branch, hr.branch]
  | trans _ _ h1 h2 => exact h1.trans h2

theorem isNode_iff (T : LTree β) : T.isNode ↔ ∃ l r b, T = .node l r b := by
  cases T with
  | leaf nm b => simp [LTree.isNode]
  | node l r b => simp [LTree.isNode]

/-! ### `Alignment.__init__`: sorting the sequences into `Taxa` order -/

theorem insertByKey_perm {γ : Type} (key : γ → Nat) (x : γ) : ∀ l : List γ, (insertByKey key x l).Perm (x :: l)
  | [] => List.Perm.refl _
  | y :: ys => by
    unfold insertByKey
    split
    · exact List.Perm.refl _
    · exact ((insertByKey_perm key x ys).cons y).trans (List.Perm.swap x y ys)

theorem foldr_insertByKey_perm {γ : Type} (key : γ → Nat) : ∀ l : List γ, (l.foldr (insertByKey key) []).Perm l
  | [] => List.Perm.refl _
  | x :: xs => (insertByKey_perm key x _).trans ((foldr_insertByKey_perm key xs).cons x)

theorem insertByKey_pairwise {γ : Type} (key : γ → Nat) (x : γ) : ∀ l : List γ,
    l.Pairwise (fun a b => key a < key b) → (∀ y ∈ l, key y ≠ key x) →
    (insertByKey key x l).Pairwise (fun a b => key a < key b)
  | [], _, _ => by simp [insertByKey]
  | y :: ys, hp, hne => by
    unfold insertByKey
    rw [List.pairwise_cons] at hp
    split
    · next hlt =>
      refine List.pairwise_cons.mpr ⟨?_, List.pairwise_cons.mpr hp⟩
      intro z hz
      rcases List.mem_cons.mp hz with rfl | hz
      · exact hlt
      · exact Nat.lt_trans hlt (hp.1 z hz)
    · next hnlt =>
      have hyx : key y < key x := by
        have := hne y (by simp)
        omega
      refine List.pairwise_cons.mpr ⟨?_, insertByKey_pairwise key x ys hp.2 (fun z hz => hne z (by simp [hz]))⟩
      intro z hz
      rcases List.mem_cons.mp ((insertByKey_perm key x ys).subset hz) with rfl | hz
      · exact hyx
      · exact hp.1 z hz

theorem foldr_insertByKey_pairwise {γ : Type} (key : γ → Nat) : ∀ l : List γ, (l.map key).Nodup →
    (l.foldr (insertByKey key) []).Pairwise (fun a b => key a < key b)
  | [], _ => by simp
  | x :: xs, hnd => by
    rw [List.map_cons, List.nodup_cons] at hnd
    refine insertByKey_pairwise key x _ (foldr_insertByKey_pairwise key xs hnd.2) ?_
    intro y hy e
    apply hnd.1
    rw [← e]
    exact List.mem_map.mpr ⟨y, (foldr_insertByKey_perm key xs).subset hy, rfl⟩

/-- with pairwise distinct keys the sorted list does not depend on the input order -/
theorem sort_perm_eq {γ : Type} (key : γ → Nat) (l l' : List γ) (hp : l.Perm l') (hnd : (l.map key).Nodup) :
    l.foldr (insertByKey key) [] = l'.foldr (insertByKey key) [] := by
  have hnd' : (l'.map key).Nodup := (hp.map key).nodup_iff.mp hnd
  refine List.Perm.eq_of_pairwise (le := fun a b => key a < key b) ?_
    (foldr_insertByKey_pairwise key l hnd) (foldr_insertByKey_pairwise key l' hnd') ?_
  · intro a b _ _ h1 h2; omega
  · exact (foldr_insertByKey_perm key l).trans (hp.trans (foldr_insertByKey_perm key l').symm)

theorem sortSeqs_perm (taxa : List String) (seqs seqs' : List (String × List Char)) (hp : seqs.Perm seqs')
    (hnd : (seqs.map (·.1)).Nodup) (hsub : ∀ s ∈ seqs, s.1 ∈ taxa) :
    sortSeqs taxa seqs = sortSeqs taxa seqs' := by
  unfold sortSeqs
  refine sort_perm_eq _ seqs seqs' hp ?_
  have : seqs.map (fun s => taxa.idxOf s.1) = (seqs.map (·.1)).map (taxa.idxOf ·) := by simp
  rw [this]
  refine List.Nodup.map_on ?_ hnd
  intro a ha b _ e
  obtain ⟨s, hs, rfl⟩ := List.mem_map.mp ha
  exact idxOf_inj (hsub s hs) e

end TT.C02
