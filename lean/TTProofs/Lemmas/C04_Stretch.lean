import TTProofs.Lemmas.C04_Exp
import TTProofs.Lemmas.C04_JC
import Mathlib.Analysis.Matrix.Normed
import Mathlib.Topology.Algebra.InfiniteSum.Order
/-! helper lemmas for C04: what `exp(t • Q)` inherits from a rate matrix `Q` (row sums, stationarity,
detailed balance, non-negativity) and the closed form of `exp` for the Jukes–Cantor generator -/
namespace TT.C04
open Matrix NormedSpace

variable {n : Nat}

/-- `A·B = C·A ⇒ A·exp(B) = exp(C)·A` for real square matrices -/
theorem mul_exp_of_semiconj (A B C : Matrix (Fin n) (Fin n) ℝ) (h : A * B = C * A) :
    A * exp B = exp C * A :=
  open scoped Matrix.Norms.Operator in
  (SemiconjBy.exp_right (show SemiconjBy A B C from h)).eq

/-- the exponential series of a matrix, as a `HasSum` (entrywise topology) -/
theorem hasSum_exp_series (B : Matrix (Fin n) (Fin n) ℝ) :
    HasSum (fun k : ℕ => ((Nat.factorial k : ℝ)⁻¹) • B ^ k) (exp B) :=
  open scoped Matrix.Norms.Operator in
  NormedSpace.exp_series_hasSum_exp' (𝕂 := ℝ) B

/-- the all-ones matrix -/
def onesM : Matrix (Fin n) (Fin n) ℝ := Matrix.of fun _ _ => 1

theorem exp_row_sum (Q : Matrix (Fin n) (Fin n) ℝ) (hQ : ∀ i, ∑ j, Q i j = 0) (t : ℝ) (i : Fin n) :
    ∑ j, exp (t • Q) i j = 1 := by
  have h0 : (t • Q) * onesM = 0 := by
    ext a b; simp [onesM, Matrix.mul_apply, ← Finset.mul_sum, hQ]
  have h : onesM * (0 : Matrix (Fin n) (Fin n) ℝ) = (t • Q) * onesM := by rw [h0, Matrix.mul_zero]
  have h2 := mul_exp_of_semiconj onesM 0 (t • Q) h
  rw [NormedSpace.exp_zero, Matrix.mul_one] at h2
  have := congrFun (congrFun h2 i) i
  simp only [onesM, Matrix.mul_apply, Matrix.of_apply, mul_one] at this
  exact this.symm

theorem exp_stationary_of (Q : Matrix (Fin n) (Fin n) ℝ) (π : Fin n → ℝ)
    (hπ : ∀ j, ∑ i, π i * Q i j = 0) (t : ℝ) (j : Fin n) :
    ∑ i, π i * exp (t • Q) i j = π j := by
  let Pr : Matrix (Fin n) (Fin n) ℝ := Matrix.of fun _ k => π k
  have h0 : Pr * (t • Q) = 0 := by
    ext a b
    simp only [Pr, Matrix.mul_apply, Matrix.of_apply, Matrix.smul_apply, smul_eq_mul, Matrix.zero_apply]
    have : ∀ k, π k * (t * Q k b) = t * (π k * Q k b) := fun k => by ring
    simp only [this, ← Finset.mul_sum, hπ, mul_zero]
  have h : Pr * (t • Q) = (0 : Matrix (Fin n) (Fin n) ℝ) * Pr := by rw [h0, Matrix.zero_mul]
  have h2 := mul_exp_of_semiconj Pr (t • Q) 0 h
  rw [NormedSpace.exp_zero, Matrix.one_mul] at h2
  have := congrFun (congrFun h2 j) j
  simpa [Pr, Matrix.mul_apply] using this

theorem exp_detailed_balance (Q : Matrix (Fin n) (Fin n) ℝ) (π : Fin n → ℝ)
    (hb : ∀ i j, π i * Q i j = π j * Q j i) (t : ℝ) (i j : Fin n) :
    π i * exp (t • Q) i j = π j * exp (t • Q) j i := by
  have h : diagonal π * (t • Q) = (t • Q)ᵀ * diagonal π := by
    ext a b
    simp only [Matrix.diagonal_mul, Matrix.mul_diagonal, Matrix.smul_apply, Matrix.transpose_apply,
      smul_eq_mul]
    have := hb a b
    calc π a * (t * Q a b) = t * (π a * Q a b) := by ring
      _ = t * (π b * Q b a) := by rw [this]
      _ = t * Q b a * π b := by ring
  have h2 := mul_exp_of_semiconj (diagonal π) (t • Q) (t • Q)ᵀ h
  rw [Matrix.exp_transpose] at h2
  have := congrFun (congrFun h2 i) j
  simp only [Matrix.diagonal_mul, Matrix.mul_diagonal, Matrix.transpose_apply] at this
  rw [this]; ring

/-! non-negativity -/

theorem pow_entry_nonneg (B : Matrix (Fin n) (Fin n) ℝ) (hB : ∀ i j, 0 ≤ B i j) :
    ∀ (k : ℕ) (i j : Fin n), 0 ≤ (B ^ k) i j := by
  intro k
  induction k with
  | zero => intro i j; simp only [pow_zero, Matrix.one_apply]; split_ifs <;> norm_num
  | succ k ih =>
    intro i j
    rw [pow_succ, Matrix.mul_apply]
    exact Finset.sum_nonneg fun l _ => mul_nonneg (ih i l) (hB l j)

theorem exp_entry_nonneg_of_nonneg (B : Matrix (Fin n) (Fin n) ℝ) (hB : ∀ i j, 0 ≤ B i j)
    (i j : Fin n) : 0 ≤ exp B i j := by
  have hs := hasSum_exp_series B
  have hc : Continuous fun M : Matrix (Fin n) (Fin n) ℝ => M i j :=
    (continuous_apply j).comp (continuous_apply i)
  have hs2 : HasSum (fun k : ℕ => (((Nat.factorial k : ℝ)⁻¹) • B ^ k) i j) (exp B i j) :=
    hs.map (Matrix.entryAddMonoidHom ℝ i j) hc
  refine hs2.nonneg (fun k => ?_)
  simp only [Matrix.smul_apply, smul_eq_mul]
  exact mul_nonneg (by positivity) (pow_entry_nonneg B hB k i j)

theorem exp_entry_nonneg (Q : Matrix (Fin n) (Fin n) ℝ) (hQ : ∀ i j, i ≠ j → 0 ≤ Q i j) (t : ℝ)
    (ht : 0 ≤ t) (i j : Fin n) : 0 ≤ exp (t • Q) i j := by
  -- shift by a multiple of the identity that makes every entry non-negative
  obtain ⟨c, hc⟩ : ∃ c : ℝ, ∀ a, 0 ≤ t * Q a a + c := by
    refine ⟨∑ a, |t * Q a a|, fun a => ?_⟩
    have : |t * Q a a| ≤ ∑ b, |t * Q b b| :=
      Finset.single_le_sum (f := fun b => |t * Q b b|) (fun b _ => abs_nonneg _) (Finset.mem_univ a)
    have := neg_abs_le (t * Q a a)
    linarith
  set B : Matrix (Fin n) (Fin n) ℝ := t • Q + c • (1 : Matrix (Fin n) (Fin n) ℝ) with hBdef
  have hB : ∀ a b, 0 ≤ B a b := by
    intro a b
    by_cases h : a = b
    · subst h; simpa [hBdef] using hc a
    · simpa [hBdef, Matrix.one_apply, h] using mul_nonneg ht (hQ a b h)
  have hsplit : t • Q = B + (-c) • (1 : Matrix (Fin n) (Fin n) ℝ) := by
    rw [hBdef, neg_smul]; abel
  have hcomm : Commute B ((-c) • (1 : Matrix (Fin n) (Fin n) ℝ)) :=
    (Commute.one_right B).smul_right (-c)
  have hexpI : exp ((-c) • (1 : Matrix (Fin n) (Fin n) ℝ)) = Real.exp (-c) • 1 := by
    have : ((-c) • (1 : Matrix (Fin n) (Fin n) ℝ)) = diagonal fun _ => -c := by
      ext a b; by_cases h : a = b <;> simp [h]
    rw [this, Matrix.exp_diagonal]
    ext a b
    by_cases h : a = b
    · subst h; simp [Pi.coe_exp, Real.exp_eq_exp_ℝ]
    · simp [h]
  rw [hsplit, Matrix.exp_add_of_commute _ _ hcomm, hexpI, Matrix.mul_smul, Matrix.mul_one,
    Matrix.smul_apply, smul_eq_mul]
  exact mul_nonneg (Real.exp_pos _).le (exp_entry_nonneg_of_nonneg B hB i j)

/-! the Jukes–Cantor generator: `Q = c (E − 1)` with `E = J/n` idempotent -/

theorem exp_smul_idempotent (E : Matrix (Fin n) (Fin n) ℝ) (hE : E * E = E) (s : ℝ) :
    exp (s • E) = Real.exp s • E + (1 - E) := by
  have hsI : exp (s • (1 : Matrix (Fin n) (Fin n) ℝ)) = Real.exp s • 1 := by
    have : (s • (1 : Matrix (Fin n) (Fin n) ℝ)) = diagonal fun _ => s := by
      ext a b; by_cases h : a = b <;> simp [h]
    rw [this, Matrix.exp_diagonal]
    ext a b
    by_cases h : a = b
    · subst h; simp [Pi.coe_exp, Real.exp_eq_exp_ℝ]
    · simp [h]
  have h1 : E * exp (s • E) = Real.exp s • E := by
    have h : E * (s • E) = (s • (1 : Matrix (Fin n) (Fin n) ℝ)) * E := by
      rw [Matrix.mul_smul, hE, Matrix.smul_mul, Matrix.one_mul]
    rw [mul_exp_of_semiconj E (s • E) (s • 1) h, hsI, Matrix.smul_mul, Matrix.one_mul]
  have h2 : (1 - E) * exp (s • E) = 1 - E := by
    have h : (1 - E) * (s • E) = (0 : Matrix (Fin n) (Fin n) ℝ) * (1 - E) := by
      rw [Matrix.mul_smul, Matrix.sub_mul, Matrix.one_mul, hE, sub_self, smul_zero, Matrix.zero_mul]
    rw [mul_exp_of_semiconj (1 - E) (s • E) 0 h, NormedSpace.exp_zero, Matrix.one_mul]
  calc exp (s • E) = (E + (1 - E)) * exp (s • E) := by rw [add_sub_cancel, Matrix.one_mul]
    _ = Real.exp s • E + (1 - E) := by rw [Matrix.add_mul, h1, h2]

theorem generalJC69P_eq_exp (n : Nat) (hn : 2 ≤ n) (t : ℝ) :
    toM (generalJC69P n t) = exp (t • toM (generalJC69Q (α := ℝ) n)) := by
  have h2 : (2 : ℝ) ≤ (n : ℝ) := by exact_mod_cast hn
  have hn0 : (n : ℝ) ≠ 0 := by linarith
  have hn1 : (n : ℝ) - 1 ≠ 0 := by linarith
  have hc : ((n - 1 : Nat) : ℝ) = (n : ℝ) - 1 := by
    rw [Nat.cast_sub (by omega)]; simp
  set E : Matrix (Fin n) (Fin n) ℝ := Matrix.of fun _ _ => 1 / (n : ℝ) with hEdef
  have hE : E * E = E := by
    ext a b
    simp only [hEdef, Matrix.mul_apply, Matrix.of_apply, Finset.sum_const, Finset.card_univ,
      Fintype.card_fin, nsmul_eq_mul]
    field_simp
  set c : ℝ := (n : ℝ) / ((n : ℝ) - 1) with hcdef
  have hQ : t • toM (generalJC69Q (α := ℝ) n) = (t * c) • E + (-(t * c)) • (1 : Matrix (Fin n) (Fin n) ℝ) := by
    ext a b
    simp only [toM_apply, generalJC69Q, hc, Matrix.smul_apply, Matrix.add_apply, smul_eq_mul, hEdef,
      Matrix.of_apply, Matrix.one_apply, hcdef]
    split_ifs <;> field_simp <;> ring
  have hcomm : Commute ((t * c) • E) ((-(t * c)) • (1 : Matrix (Fin n) (Fin n) ℝ)) :=
    (Commute.one_right _).smul_right _
  have hexpI : exp ((-(t * c)) • (1 : Matrix (Fin n) (Fin n) ℝ)) = Real.exp (-(t * c)) • 1 := by
    have : ((-(t * c)) • (1 : Matrix (Fin n) (Fin n) ℝ)) = diagonal fun _ => -(t * c) := by
      ext a b; by_cases h : a = b <;> simp [h]
    rw [this, Matrix.exp_diagonal]
    ext a b
    by_cases h : a = b
    · subst h; simp [Pi.coe_exp, Real.exp_eq_exp_ℝ]
    · simp [h]
  rw [hQ, Matrix.exp_add_of_commute _ _ hcomm, exp_smul_idempotent E hE, hexpI]
  ext a b
  have hj : jcE n t = Real.exp (-(t * c)) := by
    unfold jcE; congr 1; rw [hcdef]; ring
  rw [toM_apply, generalJC69P_apply n hn0, hj]
  simp only [Matrix.mul_smul, Matrix.mul_one, Matrix.smul_apply, Matrix.add_apply, Matrix.sub_apply,
    smul_eq_mul, hEdef, Matrix.of_apply, Matrix.one_apply]
  have hexp : Real.exp (-(t * c)) * Real.exp (t * c) = 1 := by
    rw [← Real.exp_add]; simp
  split_ifs <;> field_simp <;> nlinarith [hexp]

end TT.C04
