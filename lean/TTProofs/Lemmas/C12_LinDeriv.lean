import TTProofs.Lemmas.C12_SoftDeriv
import TTProofs.Lemmas.C08_LinMain
/-!
# C12 (companion) — calculus helpers for the piecewise-linear coalescent in `θ`

The sorted events do not depend on `θ`; every population size the code attaches to a sorted position is LINEAR in `θ`
(`θ` enters only through `getD`), so its derivative in `θ_k` is the same expression evaluated at the unit vector `e_k`.
The per-interval term switches formula where two consecutive sizes are equal; the derivative exists where each
consecutive pair is either distinct at the point or equal identically in `θ_k`.
-/
namespace TT.C08
open Real

/-- `e_k` of length `n` -/
def unitVec (n k : ℕ) : List ℝ := (List.range n).map fun i => if i = k then 1 else 0

theorem unitVec_length (n k : ℕ) : (unitVec n k).length = n := by simp [unitVec]

theorem unitVec_getD (n k i : ℕ) (hk : k < n) : (unitVec n k).getD i 0 = if i = k then 1 else 0 := by
  unfold unitVec
  rw [List.getD_eq_getElem?_getD, List.getElem?_map]
  by_cases hi : i < n
  · simp [List.getElem?_range hi]
  · have hik : i ≠ k := by omega
    have hnone : (List.range n)[i]? = none := List.getElem?_eq_none (by simp; omega)
    simp [hnone, hik]

theorem getD_set (θ : List ℝ) (k i : ℕ) (t : ℝ) (hk : k < θ.length) :
    (θ.set k t).getD i 0 = if i = k then t else θ.getD i 0 := by
  rw [List.getD_eq_getElem?_getD, List.getD_eq_getElem?_getD]
  by_cases h : i = k
  · subst h; simp [hk]
  · simp [h, List.getElem?_set_ne (Ne.symm h)]

theorem hasDerivAt_getD_set (θ : List ℝ) (k i : ℕ) (x : ℝ) (hk : k < θ.length) :
    HasDerivAt (fun t => (θ.set k t).getD i 0) ((unitVec θ.length k).getD i 0) x := by
  rw [unitVec_getD _ _ _ hk]
  have : (fun t => (θ.set k t).getD i 0) = fun t => if i = k then t else θ.getD i 0 := by
    funext t; exact getD_set θ k i t hk
  rw [this]
  by_cases h : i = k
  · simp only [h, if_true]; exact hasDerivAt_id x
  · simp only [h, if_false]; exact hasDerivAt_const x _

/-- the interpolated size is linear in `θ`: derivative in `θ_k` = the same interpolation of `e_k` -/
theorem hasDerivAt_interp_set (θ grid : List ℝ) (v : ℝ) (k : ℕ) (x : ℝ) (hk : k < θ.length) :
    HasDerivAt (fun t => interp (θ.set k t) grid v) (interp (unitVec θ.length k) grid v) x := by
  unfold interp
  simp only [List.length_set, unitVec_length]
  split
  · have h1 := hasDerivAt_getD_set θ k (bucket grid v) x hk
    have h2 := hasDerivAt_getD_set θ k (min (bucket grid v + 1) (θ.length - 1)) x hk
    exact h1.add (((h2.sub h1).mul_const _).div_const _)
  · exact hasDerivAt_getD_set θ k _ x hk

/-- the size attached to one sorted position (`z` = event and inclusive count of grid marks) -/
noncomputable def popEntry (θ grid : List ℝ) (z : Ev ℝ × ℕ) : ℝ :=
  if z.1.mark = 0 then θ.getD (z.2 - 1) 0 else interp θ grid z.1.t

theorem popSizes_eq_map (θ grid : List ℝ) (ev : List (Ev ℝ)) :
    popSizes θ grid ev = (ev.zip (cumsum (isMark 0 (marks ev)))).map (popEntry θ grid) := by
  unfold popSizes popEntry
  generalize cumsum (isMark 0 (marks ev)) = cs
  induction ev generalizing cs with
  | nil => simp
  | cons e ev ih =>
    cases cs with
    | nil => simp
    | cons c cs => simp only [List.zipWith_cons_cons, List.zip_cons_cons, List.map_cons, ih cs]

theorem hasDerivAt_popEntry_set (θ grid : List ℝ) (z : Ev ℝ × ℕ) (k : ℕ) (x : ℝ) (hk : k < θ.length) :
    HasDerivAt (fun t => popEntry (θ.set k t) grid z) (popEntry (unitVec θ.length k) grid z) x := by
  unfold popEntry
  split
  · exact hasDerivAt_getD_set θ k _ x hk
  · exact hasDerivAt_interp_set θ grid _ k x hk

/-! ### one interval -/

/-- derivative of `Δt (log b − log a)/(b − a)` resp. `Δt / a` along `(a(t), b(t))` -/
noncomputable def dPiece (dt a b a' b' : ℝ) : ℝ :=
  if a = b then -(dt * a') / a ^ 2
  else dt * ((b' / b - a' / a) / (b - a) - (Real.log b - Real.log a) * (b' - a') / (b - a) ^ 2)

theorem hasDerivAt_linearPiece (dt : ℝ) (a b : ℝ → ℝ) (a' b' x : ℝ) (ha : HasDerivAt a a' x) (hb : HasDerivAt b b' x)
    (hapos : 0 < a x) (hbpos : 0 < b x) (hH : a x ≠ b x ∨ ∀ t, a t = b t) :
    HasDerivAt (fun t => linearPiece dt (a t) (b t)) (dPiece dt (a x) (b x) a' b') x := by
  rcases hH with hne | heq
  · -- distinct at the point: distinct nearby, the logarithmic branch is used throughout a neighbourhood
    have hcont : ContinuousAt (fun t => b t - a t) x := (hb.continuousAt.sub ha.continuousAt)
    have hev : ∀ᶠ t in nhds x, b t - a t ≠ 0 :=
      hcont.eventually_ne (sub_ne_zero.mpr (Ne.symm hne))
    have hfun : (fun t => linearPiece dt (a t) (b t))
        =ᶠ[nhds x] fun t => dt * (Real.log (b t) - Real.log (a t)) / (b t - a t) := by
      filter_upwards [hev] with t ht
      rw [linearPiece_real]
      have : a t ≠ b t := fun h => ht (by rw [h]; ring)
      rw [if_neg this]
    have hd := (((hb.log hbpos.ne').sub (ha.log hapos.ne')).const_mul dt).div (hb.sub ha)
      (sub_ne_zero.mpr (Ne.symm hne))
    have hval : dPiece dt (a x) (b x) a' b'
        = (dt * (b' / b x - a' / a x) * (b x - a x) - dt * (Real.log (b x) - Real.log (a x)) * (b' - a'))
          / (b x - a x) ^ 2 := by
      unfold dPiece
      rw [if_neg hne]
      have hd0 : b x - a x ≠ 0 := sub_ne_zero.mpr (Ne.symm hne)
      field_simp
    rw [hval]
    refine HasDerivAt.congr_of_eventuallyEq ?_ hfun
    exact hd
  · -- identically equal: the flat branch throughout
    have hfun : (fun t => linearPiece dt (a t) (b t)) = fun t => dt / a t := by
      funext t
      rw [linearPiece_real, if_pos (heq t)]
    rw [hfun]
    have hd := (hasDerivAt_const x dt).div ha hapos.ne'
    have hval : dPiece dt (a x) (b x) a' b' = (0 * a x - dt * a') / a x ^ 2 := by
      unfold dPiece
      rw [if_pos (heq x)]
      ring
    rw [hval]
    exact hd

/-! ### all intervals -/

/-- every consecutive pair of size functions is distinct at `x` or equal identically -/
def FlatOrDistinct (x : ℝ) : List (ℝ → ℝ) → Prop
  | p1 :: p2 :: ps => (p1 x ≠ p2 x ∨ ∀ t, p1 t = p2 t) ∧ FlatOrDistinct x (p2 :: ps)
  | _ => True

/-- derivatives of the per-interval terms -/
noncomputable def dPieces : List ℝ → List ℝ → List ℝ → List ℝ
  | t1 :: t2 :: ts, p1 :: p2 :: ps, d1 :: d2 :: ds =>
      dPiece (t2 - t1) p1 p2 d1 d2 :: dPieces (t2 :: ts) (p2 :: ps) (d2 :: ds)
  | _, _, _ => []

theorem hasDerivAt_pieces_sum (x : ℝ) : ∀ (ks : List ℤ) (ts : List ℝ) (ps : List (ℝ → ℝ)) (ds : List ℝ),
    ps.length = ds.length → (∀ j (hj : j < ps.length) (hj' : j < ds.length), HasDerivAt ps[j] ds[j] x) →
    (∀ p ∈ ps, 0 < p x) → FlatOrDistinct x ps →
    HasDerivAt (fun t => (List.zipWith (fun k q => (choose2 k : ℝ) * q) ks (pieces ts (ps.map fun p => p t))).sum)
      (List.zipWith (fun k q => (choose2 k : ℝ) * q) ks (dPieces ts (ps.map fun p => p x) ds)).sum x
  | [], _, _, _, _, _, _, _ => by simpa using hasDerivAt_const x (0 : ℝ)
  | _ :: _, [], _, _, _, _, _, _ => by simpa [pieces, dPieces] using hasDerivAt_const x (0 : ℝ)
  | _ :: _, [_], _, _, _, _, _, _ => by simpa [pieces, dPieces] using hasDerivAt_const x (0 : ℝ)
  | _ :: _, _ :: _ :: _, [], _, _, _, _, _ => by simpa [pieces, dPieces] using hasDerivAt_const x (0 : ℝ)
  | _ :: _, _ :: _ :: _, [_], _, _, _, _, _ => by simpa [pieces, dPieces] using hasDerivAt_const x (0 : ℝ)
  | k :: ks, t1 :: t2 :: ts, p1 :: p2 :: ps, [], hl, _, _, _ => by simp at hl
  | k :: ks, t1 :: t2 :: ts, p1 :: p2 :: ps, [_], hl, _, _, _ => by simp at hl
  | k :: ks, t1 :: t2 :: ts, p1 :: p2 :: ps, d1 :: d2 :: ds, hl, hd, hpos, hH => by
      have h1 : HasDerivAt p1 d1 x := hd 0 (by simp) (by simp)
      have h2 : HasDerivAt p2 d2 x := hd 1 (by simp) (by simp)
      have hterm := (hasDerivAt_linearPiece (t2 - t1) p1 p2 d1 d2 x h1 h2 (hpos p1 (by simp)) (hpos p2 (by simp))
        hH.1).const_mul (choose2 k : ℝ)
      have ih := hasDerivAt_pieces_sum x ks (t2 :: ts) (p2 :: ps) (d2 :: ds) (by simpa using hl)
        (fun j hj hj' => by
          have := hd (j + 1) (by simpa using hj) (by simpa using hj')
          simpa using this)
        (fun p hp => hpos p (List.mem_cons_of_mem _ hp)) hH.2
      have hsum := hterm.add ih
      simp only [List.map_cons, pieces, dPieces, List.zipWith_cons_cons, List.sum_cons] at hsum ⊢
      exact hsum

end TT.C08
