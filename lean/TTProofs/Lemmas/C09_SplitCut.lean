import TTProofs.Lemmas.C09_SplitAway
/-! C09: at the cut — factorisation of the branch factor and the count of crossing lineages. -/
open TT TT.C09
namespace TT.C09
namespace SplitAt
variable {r r' : Rates ℝ} {t t' : Nat → ℝ} {m i : Nat} {s : ℝ}

/-- the branch factor towards the end of the cut epoch factorises at the cut (q_semigroup on the refined grid) -/
theorem logq_cut (h : SplitAt r r' t t' m i s) (z : ℝ) (hz : z ≤ s) :
    logq (Acoef r i) (BAt r' t' (m + 1) i) z s + logq (Acoef r i) (BAt r t m i) s (t (i + 1))
      = logq (Acoef r i) (BAt r t m i) z (t (i + 1)) := by
  have hi := h.hi
  have hq := q_semigroup_model r' i z s (t (i + 1)) (pAt r t m (i + 1))
    (by rw [h.lam_lo i le_rfl, h.lam_hi i le_rfl]) (by rw [h.mu_lo i le_rfl, h.mu_hi i le_rfl])
    (by rw [h.psi_lo i le_rfl, h.psi_hi i le_rfl]) h.rho_mid
    (by rw [h.lam_hi i le_rfl]; exact h.lam_pos) (by rw [h.psi_hi i le_rfl]; exact h.psi_pos)
    h.p_next.1 h.p_next.2 (by rw [h.rho_hi i le_rfl]; exact h.rho_nonneg) hz h.s_lt.le
  have hB2 : Bcoef r' (i + 1) (pAt r t m (i + 1)) = BAt r t m i :=
    Bcoef_congr r r' (i + 1) i _ (h.lam_hi i le_rfl) (h.mu_hi i le_rfl) (h.psi_hi i le_rfl) (h.rho_hi i le_rfl)
  have hB1 : BAt r' t' (m + 1) i = Bcoef r' i (pStep r' (i + 1) (t (i + 1) - s) (pAt r t m (i + 1))) := by
    unfold BAt
    rw [pAt_step _ _ _ _ (by omega : i + 1 < m + 1), h.pAt_hi (m - (i + 1)) (i + 1) rfl le_rfl,
      h.t_hi (i + 1) le_rfl, h.t_mid]
  rw [hB1, ← h.A_lo i le_rfl]
  rw [h.A_hi i le_rfl, hB2] at hq
  rw [h.A_lo i le_rfl] at hq ⊢
  exact hq

/-- a sampling time strictly inside an epoch is not a `rho`-sampling time -/
theorem not_rho_inside {r : Rates ℝ} {t : Nat → ℝ} {m : Nat} (g : Grid t m) (k : Nat) (hk : k < m) (y : ℝ)
    (h1 : t k < y) (h2 : y < t (k + 1)) (h0 : t 0 < y) (hm : y ≤ t m) : isRhoTip r t m y = false := by
  cases hv : isRhoTip r t m y with
  | false => rfl
  | true =>
      obtain ⟨k', hk', e, _⟩ := (isRhoTip_iff g y h0 hm).mp hv
      have hk'k : idxY t m y = k' := idxY_of_mem g k' hk' y (by rw [e]; exact g k' (k' + 1) (by omega) (by omega)) (le_of_eq e)
      have hkk : idxY t m y = k := idxY_of_mem g k hk y h1 h2.le
      have : k' = k := by rw [← hk'k, hkk]
      subst this
      rw [e] at h2; exact absurd h2 (lt_irrefl _)

/-- lineages crossing the cut = lineages entering the cut epoch + births before the cut − samplings up to the cut -/
theorem cross_cut (h : SplitAt r r' t t' m i s) {xs ys : List ℝ} (hev : Events t m xs ys) :
    (nCross t' (i + 1) xs ys : ℝ) = (if i = 0 then 1 else (nCross t i xs ys : ℝ))
      + ((xs.filter fun x => idxX t m x = i ∧ x < s).length : ℝ)
      - ((ys.filter fun y => idxY t m y = i ∧ y ≤ s).length : ℝ) := by
  have hi := h.hi
  have hsg := h.s_gt
  have hsl := h.s_lt
  have hx : (xs.filter fun x => x < s).length
      = (xs.filter fun x => x < t i).length + (xs.filter fun x => idxX t m x = i ∧ x < s).length := by
    rw [length_filter_split' xs (fun x => x < s) (fun x => x < t i)]
    congr 1
    · congr 1
      exact filter_congr_mem xs _ _ fun x _ => ⟨fun a => a.2, fun a => ⟨by linarith, a⟩⟩
    · congr 1
      exact filter_congr_mem xs _ _ fun x hx => by
        rw [idxX_iff h.grid x (hev.1 x hx).1 (hev.1 x hx).2 i hi]
        constructor
        · rintro ⟨a, b⟩; exact ⟨⟨not_lt.mp b, by linarith⟩, a⟩
        · rintro ⟨⟨a, _⟩, c⟩; exact ⟨c, not_lt.mpr a⟩
  have hy : (ys.filter fun y => y ≤ s).length
      = (ys.filter fun y => y ≤ t i).length + (ys.filter fun y => idxY t m y = i ∧ y ≤ s).length := by
    rw [length_filter_split' ys (fun y => y ≤ s) (fun y => y ≤ t i)]
    congr 1
    · congr 1
      exact filter_congr_mem ys _ _ fun y _ => ⟨fun a => a.2, fun a => ⟨by linarith, a⟩⟩
    · congr 1
      exact filter_congr_mem ys _ _ fun y hy => by
        rw [idxY_iff h.grid y (hev.2 y hy).1 (hev.2 y hy).2 i hi]
        constructor
        · rintro ⟨a, b⟩; exact ⟨⟨not_le.mp b, by linarith⟩, a⟩
        · rintro ⟨⟨a, _⟩, c⟩; exact ⟨c, not_le.mpr a⟩
  unfold nCross
  rw [h.t_mid, hx, hy]
  by_cases h0 : i = 0
  · subst h0
    have e1 : (xs.filter fun x => x < t 0) = [] := by
      apply List.filter_eq_nil_iff.mpr
      intro x hx; simp only [decide_eq_true_eq, not_lt]; exact (hev.1 x hx).1
    have e2 : (ys.filter fun y => y ≤ t 0) = [] := by
      apply List.filter_eq_nil_iff.mpr
      intro y hy; simp only [decide_eq_true_eq, not_le]; exact (hev.2 y hy).1
    simp [e1, e2]; ring
  · simp [h0]; ring

end SplitAt
end TT.C09
