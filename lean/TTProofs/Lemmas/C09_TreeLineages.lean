import TTProofs.Lemmas.C09_TreeRho
/-! C09: the per-epoch (event) form of the density equals the lineage-by-lineage form. -/
open TT TT.C09 Set
namespace TT.C09

/-- what a lineage starting at a birth time (or at the origin) `x` still has to pay: the rest of its epoch and every later
boundary -/
noncomputable def phiN (r : Rates ℝ) (t : Nat → ℝ) (m : Nat) (Lq : Nat → ℝ → ℝ) (x : ℝ) : ℝ :=
  Lq (idxX t m x) x + tailCost r t m Lq (idxX t m x + 1)

/-- the same seen from a sampling time `y` (a tip at a boundary belongs to the epoch that ends there) -/
noncomputable def phiT (r : Rates ℝ) (t : Nat → ℝ) (m : Nat) (Lq : Nat → ℝ → ℝ) (y : ℝ) : ℝ :=
  Lq (idxY t m y) y + tailCost r t m Lq (idxY t m y + 1)

/-- rate of the sampling event that produced a tip: `ρ` of the boundary it sits on, else `ψ` of its epoch -/
noncomputable def sampRate (r : Rates ℝ) (t : Nat → ℝ) (m : Nat) (y : ℝ) : ℝ :=
  if isRhoTip r t m y = true then r.rho (idxY t m y) else r.psi (idxY t m y)

/-- `masterEpochTerm` with the log branch factors abstracted as `Lq k z` -/
noncomputable def epochTermL (r : Rates ℝ) (t : Nat → ℝ) (m : Nat) (Lq : Nat → ℝ → ℝ) (xs ys : List ℝ) (k : Nat) : ℝ :=
  (if k = 0 then 1 else (nCross t k xs ys : ℝ)) * Lq k (t k)
  + ((xs.filter fun x => idxX t m x = k).map fun x => Real.log (r.lam k) + Lq k x).sum
  + ((ys.filter fun y => idxY t m y = k ∧ isRhoTip r t m y = false).map fun y => Real.log (r.psi k) - Lq k y).sum
  + (if k + 1 < m then (nCross t (k + 1) xs ys : ℝ) * Real.log (1 - r.rho k) else 0)
  + (nAt t k ys : ℝ) * Real.log (if 0 < nAt t k ys ∧ 0 < r.rho k then r.rho k else 1)

theorem list_sum_map_sub (l : List ℝ) (f g : ℝ → ℝ) :
    (l.map fun x => f x - g x).sum = (l.map f).sum - (l.map g).sum := by
  induction l with
  | nil => simp
  | cons a l ih => simp only [List.map_cons, List.sum_cons, ih]; ring

theorem sum_split_pred (l : List ℝ) (P : ℝ → Bool) (f : ℝ → ℝ) :
    (l.map f).sum = ((l.filter fun y => P y = false).map f).sum + ((l.filter fun y => P y = true).map f).sum := by
  induction l with
  | nil => simp
  | cons a l ih => cases h : P a <;> simp [List.filter_cons, h, ih] <;> ring

/-- **event form = lineage form**: the sum of the per-epoch contributions is what the lineages pay one by one: the origin
lineage `phiN (t 0)`, each birth its rate and a new lineage `phiN x`, each sampling its rate and the end of a lineage
`−phiT y` -/
theorem sum_epochTermL_eq_lineages (r : Rates ℝ) (t : Nat → ℝ) (m' : Nat) (g : Grid t (m' + 1)) (Lq : Nat → ℝ → ℝ)
    (xs ys : List ℝ) (hev : Events t (m' + 1) xs ys) (hLq0 : ∀ k, k < m' + 1 → Lq k (t (k + 1)) = 0) :
    ∑ k ∈ Finset.range (m' + 1), epochTermL r t (m' + 1) Lq xs ys k
      = phiN r t (m' + 1) Lq (t 0)
        + (xs.map fun x => Real.log (r.lam (idxX t (m' + 1) x)) + phiN r t (m' + 1) Lq x).sum
        + (ys.map fun y => Real.log (sampRate r t (m' + 1) y) - phiT r t (m' + 1) Lq y).sum := by
  set m := m' + 1 with hm
  have hxi : ∀ x ∈ xs, idxX t m x < m := by
    intro x hx
    have d := hev.1 x hx
    obtain ⟨k, hk, k1, k2⟩ := exists_epoch_X (t := t) (m := m) x d.1 d.2
    rw [idxX_of_mem g k hk x k1 k2]; exact hk
  have hyi : ∀ (l : List ℝ), ∀ y ∈ l, idxY t m y < m := by
    intro l y _
    unfold idxY
    have : min (countLT t (m + 1) y - 1) (m - 1) ≤ m - 1 := Nat.min_le_right _ _
    omega
  unfold epochTermL
  simp only [Finset.sum_add_distrib]
  -- births
  have S2 := sum_epochs_eq_sum_events xs (idxX t m) m (fun k x => Real.log (r.lam k) + Lq k x) hxi
  -- psi-sampled tips
  have S3 : ∑ k ∈ Finset.range m, ((ys.filter fun y => idxY t m y = k ∧ isRhoTip r t m y = false).map fun y =>
        Real.log (r.psi k) - Lq k y).sum
      = ((ys.filter fun y => isRhoTip r t m y = false).map fun y => Real.log (r.psi (idxY t m y)) - Lq (idxY t m y) y).sum := by
    rw [← sum_epochs_eq_sum_events (ys.filter fun y => isRhoTip r t m y = false) (idxY t m) m
      (fun k y => Real.log (r.psi k) - Lq k y) (hyi _)]
    apply Finset.sum_congr rfl
    intro k _
    rw [List.filter_filter]
    congr 2
    apply List.filter_congr; intro y _; simp
  -- rho-sampled tips
  have S5 : ∑ k ∈ Finset.range m, (nAt t k ys : ℝ) * Real.log (if 0 < nAt t k ys ∧ 0 < r.rho k then r.rho k else 1)
      = ((ys.filter fun y => isRhoTip r t m y = true).map fun y => Real.log (r.rho (idxY t m y))).sum := by
    rw [← sum_epochs_eq_sum_events (ys.filter fun y => isRhoTip r t m y = true) (idxY t m) m
      (fun k _ => Real.log (r.rho k)) (hyi _)]
    apply Finset.sum_congr rfl
    intro k hk
    rw [← rho_tips_epoch g ys hev.2 k (Finset.mem_range.mp hk), List.filter_filter]
    have : (ys.filter fun a => decide (idxY t m a = k) && decide (isRhoTip r t m a = true))
        = ys.filter fun y => decide (idxY t m y = k ∧ isRhoTip r t m y = true) := by
      apply List.filter_congr; intro y _; simp
    rw [this, List.map_const', List.sum_replicate]
    simp
  -- entering and leaving lineages
  have S14 : ∑ k ∈ Finset.range m, (if k = 0 then 1 else (nCross t k xs ys : ℝ)) * Lq k (t k)
        + ∑ k ∈ Finset.range m, (if k + 1 < m then (nCross t (k + 1) xs ys : ℝ) * Real.log (1 - r.rho k) else 0)
      = Lq 0 (t 0) + ∑ j ∈ Finset.Ico 1 m, (nCross t j xs ys : ℝ) * crossCost r t Lq j := by
    have h1 : ∑ k ∈ Finset.range m, (if k = 0 then 1 else (nCross t k xs ys : ℝ)) * Lq k (t k)
        = Lq 0 (t 0) + ∑ k ∈ Finset.range m', (nCross t (k + 1) xs ys : ℝ) * Lq (k + 1) (t (k + 1)) := by
      rw [hm, Finset.sum_range_succ']
      simp [add_comm]
    have h2 : ∑ k ∈ Finset.range m, (if k + 1 < m then (nCross t (k + 1) xs ys : ℝ) * Real.log (1 - r.rho k) else 0)
        = ∑ k ∈ Finset.range m', (nCross t (k + 1) xs ys : ℝ) * Real.log (1 - r.rho k) := by
      rw [hm, Finset.sum_range_succ]
      simp only [Nat.lt_irrefl, ↓reduceIte, add_zero]
      apply Finset.sum_congr rfl
      intro k hk
      have : k + 1 < m' + 1 := by simp at hk; omega
      simp [this]
    have h3 : ∑ j ∈ Finset.Ico 1 m, (nCross t j xs ys : ℝ) * crossCost r t Lq j
        = ∑ k ∈ Finset.range m', (nCross t (k + 1) xs ys : ℝ) * (Lq (k + 1) (t (k + 1)) + Real.log (1 - r.rho k)) := by
      rw [Finset.sum_Ico_eq_sum_range]
      have : m - 1 = m' := by omega
      rw [this]
      apply Finset.sum_congr rfl
      intro k _
      unfold crossCost
      have e1 : 1 + k = k + 1 := by omega
      rw [e1]; simp
    rw [h1, h2, h3, add_assoc, ← Finset.sum_add_distrib]
    congr 1
    apply Finset.sum_congr rfl
    intro k _; ring
  have hdc := crossing_double_count g (crossCost r t Lq) xs ys hev
  -- the right-hand side
  have h0 : idxX t m (t 0) = 0 := idxX_of_mem g 0 (by omega) (t 0) le_rfl (g 0 1 (by omega) (by omega))
  have R1 : phiN r t m Lq (t 0) = Lq 0 (t 0) + ∑ j ∈ Finset.Ico 1 m, crossCost r t Lq j := by
    unfold phiN tailCost; rw [h0]
  have R2 : (xs.map fun x => Real.log (r.lam (idxX t m x)) + phiN r t m Lq x).sum
      = (xs.map fun x => Real.log (r.lam (idxX t m x)) + Lq (idxX t m x) x).sum
        + (xs.map fun x => ∑ j ∈ Finset.Ico (idxX t m x + 1) m, crossCost r t Lq j).sum := by
    rw [← List.sum_map_add]
    congr 1
    apply List.map_congr_left
    intro x _; unfold phiN tailCost; ring
  have R3 : (ys.map fun y => Real.log (sampRate r t m y) - phiT r t m Lq y).sum
      = (ys.map fun y => Real.log (sampRate r t m y) - Lq (idxY t m y) y).sum
        - (ys.map fun y => ∑ j ∈ Finset.Ico (idxY t m y + 1) m, crossCost r t Lq j).sum := by
    rw [← list_sum_map_sub]
    congr 1
    apply List.map_congr_left
    intro y _; unfold phiT tailCost; ring
  have R4 := sum_split_pred ys (isRhoTip r t m) (fun y => Real.log (sampRate r t m y) - Lq (idxY t m y) y)
  have R5 : ((ys.filter fun y => isRhoTip r t m y = false).map fun y => Real.log (sampRate r t m y) - Lq (idxY t m y) y)
      = (ys.filter fun y => isRhoTip r t m y = false).map fun y => Real.log (r.psi (idxY t m y)) - Lq (idxY t m y) y := by
    apply List.map_congr_left
    intro y hy
    have : isRhoTip r t m y = false := of_decide_eq_true (List.mem_filter.mp hy).2
    simp [sampRate, this]
  have R6 : ((ys.filter fun y => isRhoTip r t m y = true).map fun y => Real.log (sampRate r t m y) - Lq (idxY t m y) y)
      = (ys.filter fun y => isRhoTip r t m y = true).map fun y => Real.log (r.rho (idxY t m y)) := by
    apply List.map_congr_left
    intro y hy
    have hmem := List.mem_filter.mp hy
    have hr : isRhoTip r t m y = true := of_decide_eq_true hmem.2
    have d := hev.2 y hmem.1
    obtain ⟨k, hk, e, _⟩ := (isRhoTip_iff g y d.1 d.2).mp hr
    have hi : idxY t m y = k := idxY_of_mem g k hk y (by rw [e]; exact g k (k + 1) (by omega) (by omega)) (le_of_eq e)
    simp only [sampRate, hr, ↓reduceIte, hi]
    rw [e, hLq0 k hk]; ring
  rw [S2, S3, S5, R1, R2, R3, R4, R5, R6]
  linarith [S14, hdc]

end TT.C09
