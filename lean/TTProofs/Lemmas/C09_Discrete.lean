import TTModel.C09_BDSK
import TTProofs.Lemmas.ScalarReal
import Mathlib.Tactic.Linarith
import Mathlib.Order.Basic
/-! Discrete lemmas for C09: `searchsorted` counts under insertion of a boundary, lineages crossing a boundary. -/
open TT TT.C09

namespace TT.C09

/-- a list of times as the function the model indexes (`arr` in the driver) -/
noncomputable def ofList (L : List ℝ) : Nat → ℝ := fun k => L.getD k 0

theorem range_map_getD (L : List ℝ) : (List.range L.length).map (fun k => L.getD k 0) = L := by
  apply List.ext_getElem
  · simp
  · intro k h1 h2
    simp [List.getD_eq_getElem?_getD, h2]

theorem countLE_ofList (L : List ℝ) (x : ℝ) :
    countLE (ofList L) L.length x = (L.filter (· ≤ x)).length := by
  unfold countLE ofList
  conv_rhs => rw [← range_map_getD L, List.filter_map, List.length_map]
  rfl

theorem countLT_ofList (L : List ℝ) (x : ℝ) :
    countLT (ofList L) L.length x = (L.filter (· < x)).length := by
  unfold countLT ofList
  conv_rhs => rw [← range_map_getD L, List.filter_map, List.length_map]
  rfl

/-! ## lineages crossing a boundary -/

/-- every child is strictly later than its parent (`p`: time of the parent / of the origin) -/
def Increasing (p : ℝ) : TTree ℝ → Prop
  | .tip y => p < y
  | .node x l r => p < x ∧ Increasing x l ∧ Increasing x r

/-- branches alive at time `τ` and not sampled at `τ`: a branch from `p` to an internal node at `x`
crosses when `p < τ ≤ x` (the birth happens at or after `τ`), a branch to a tip at `y` when `p < τ < y`
(a tip sampled exactly at `τ` ends there) -/
noncomputable def crossing (τ : ℝ) (p : ℝ) : TTree ℝ → Nat
  | .tip y => if p < τ ∧ τ < y then 1 else 0
  | .node x l r => (if p < τ ∧ τ ≤ x then 1 else 0) + crossing τ x l + crossing τ x r

theorem crossing_late (τ : ℝ) : ∀ (T : TTree ℝ) (p : ℝ), Increasing p T → τ ≤ p →
    crossing τ p T = 0 ∧ (T.internalTimes.filter (· < τ)).length = 0 ∧ (T.tipTimes.filter (· ≤ τ)).length = 0
  | .tip y, p, h, hp => by
      simp only [Increasing] at h
      have h1 : ¬ p < τ := not_lt.mpr hp
      have h2 : ¬ y ≤ τ := not_le.mpr (lt_of_le_of_lt hp h)
      simp [crossing, TTree.internalTimes, TTree.tipTimes, h1, h2]
  | .node x l r, p, h, hp => by
      simp only [Increasing] at h
      have hx : τ ≤ x := le_trans hp h.1.le
      obtain ⟨l1, l2, l3⟩ := crossing_late τ l x h.2.1 hx
      obtain ⟨r1, r2, r3⟩ := crossing_late τ r x h.2.2 hx
      have h1 : ¬ p < τ := not_lt.mpr hp
      have h2 : ¬ x < τ := not_lt.mpr hx
      simp only [List.length_eq_zero_iff] at l2 l3 r2 r3
      simp [crossing, TTree.internalTimes, TTree.tipTimes, h1, h2, l1, r1, l2, l3, r2, r3]

theorem crossing_count (τ : ℝ) : ∀ (T : TTree ℝ) (p : ℝ), Increasing p T → p < τ →
    crossing τ p T + (T.tipTimes.filter (· ≤ τ)).length = (T.internalTimes.filter (· < τ)).length + 1
  | .tip y, p, _, hp => by
      by_cases hy : y ≤ τ
      · have : ¬ τ < y := not_lt.mpr hy
        simp [crossing, TTree.internalTimes, TTree.tipTimes, hp, hy, this]
      · have : τ < y := not_le.mp hy
        simp [crossing, TTree.internalTimes, TTree.tipTimes, hp, hy, this]
  | .node x l r, p, h, hp => by
      simp only [Increasing] at h
      by_cases hx : x < τ
      · have hl := crossing_count τ l x h.2.1 hx
        have hr := crossing_count τ r x h.2.2 hx
        have : ¬ τ ≤ x := not_le.mpr hx
        simp only [crossing, TTree.internalTimes, TTree.tipTimes, hp, this, and_false, ↓reduceIte,
          List.filter_append, List.length_append, List.filter_cons, hx, decide_true, List.length_cons]
        omega
      · have hx' : τ ≤ x := not_lt.mp hx
        obtain ⟨l1, l2, l3⟩ := crossing_late τ l x h.2.1 hx'
        obtain ⟨r1, r2, r3⟩ := crossing_late τ r x h.2.2 hx'
        simp only [crossing, TTree.internalTimes, TTree.tipTimes, hp, hx', and_self, ↓reduceIte,
          List.filter_append, List.length_append, List.filter_cons, hx, decide_false, Bool.false_eq_true]
        omega

end TT.C09
