import TTProofs.Lemmas.C08_Chain
import TTProofs.Lemmas.C08_LinPiece
import TTProofs.Lemmas.ScalarReal
/-!
# C08 — assembly for the piecewise-linear model

The sorted events of the code (unique sampling times with multiplicities, coalescent marks, the sentinel grid point
moved to 0, the grid) are a time-sorted permutation of a canonical list `linEvs`; the population sizes the code
attaches to the sorted positions are `linN` at the event times; the interval sum is a walk, hence an integral.
-/
namespace TT.C08
open MeasureTheory intervalIntegral

/-- canonical event list of the piecewise-linear model (sentinel already at time 0) -/
noncomputable def linEvs (samp coal grid : List ℝ) : List (Ev ℝ) :=
  (⟨0, 0⟩ : Ev ℝ) :: ((uniqueCounts samp).map (fun p => (⟨p.1, (p.2 : Int)⟩ : Ev ℝ))
    ++ coal.map (fun c => ⟨c, -1⟩) ++ grid.map (fun g => ⟨g, 0⟩))

theorem mem_linEvs {samp coal grid : List ℝ} {e : Ev ℝ} (he : e ∈ linEvs samp coal grid) :
    (e = ⟨0, 0⟩) ∨ (1 ≤ e.mark ∧ e.t ∈ samp) ∨ (e.mark = -1 ∧ e.t ∈ coal) ∨ (e.mark = 0 ∧ e.t ∈ grid) := by
  unfold linEvs at he
  simp only [List.mem_cons, List.mem_append, List.mem_map] at he
  rcases he with rfl | ((⟨p, hp, rfl⟩ | ⟨c, hc, rfl⟩) | ⟨g, hg, rfl⟩)
  · exact Or.inl rfl
  · have h1 := uniqueCounts_pos samp p hp
    exact Or.inr (Or.inl ⟨by show (1 : ℤ) ≤ (p.2 : ℤ); exact_mod_cast h1, uniqueCounts_fst samp p hp⟩)
  · exact Or.inr (Or.inr (Or.inl ⟨rfl, hc⟩))
  · exact Or.inr (Or.inr (Or.inr ⟨rfl, hg⟩))

theorem kAt_linEvs (samp coal grid : List ℝ) (x : ℝ) :
    kAt (linEvs samp coal grid) x = lineagesAt samp coal x := by
  unfold linEvs lineagesAt
  rw [kAt_cons, kAt_append, kAt_append, kAt_uniqueCounts, kAt_map_mark, kAt_map_mark]
  simp only [ite_self]
  ring

theorem jAt_zero_map_unique (samp : List ℝ) (x : ℝ) :
    jAt 0 ((uniqueCounts samp).map (fun p => (⟨p.1, (p.2 : Int)⟩ : Ev ℝ))) x = 0 := by
  unfold jAt
  rw [List.countP_eq_zero]
  intro e he
  obtain ⟨p, hp, rfl⟩ := List.mem_map.mp he
  have := uniqueCounts_pos samp p hp
  simp only [decide_eq_true_eq, not_and]
  intro h
  have : (p.2 : ℤ) ≠ 0 := by exact_mod_cast (Nat.pos_iff_ne_zero.mp this)
  exact absurd h this

theorem jAt_zero_linEvs (samp coal grid : List ℝ) (x : ℝ) :
    jAt 0 (linEvs samp coal grid) x = (0 :: grid).countP (fun g => decide (g < x)) := by
  unfold linEvs
  rw [jAt_cons, jAt_append, jAt_append, jAt_zero_map_unique, jAt_map_mark, jAt_map_mark, List.countP_cons]
  by_cases h : (0 : ℝ) < x <;> simp [h, add_comm]

theorem marks_sum_linEvs (samp coal grid : List ℝ) :
    ((linEvs samp coal grid).map (·.mark)).sum = (samp.length : ℤ) - coal.length := by
  unfold linEvs
  simp only [List.map_cons, List.sum_cons, List.map_append, List.map_map, List.sum_append, zero_add]
  have h1 : ((uniqueCounts samp).map ((fun e : Ev ℝ => e.mark) ∘ fun p => (⟨p.1, (p.2 : Int)⟩ : Ev ℝ))).sum
      = samp.length := sum_marks_uniqueCounts samp
  have h : ∀ (m : Int) (l : List ℝ), (l.map ((fun e : Ev ℝ => e.mark) ∘ fun s => (⟨s, m⟩ : Ev ℝ))).sum
      = m * l.length := by
    intro m l
    induction l with
    | nil => simp
    | cons a l ih => simp only [List.map_cons, List.sum_cons, ih, List.length_cons, Function.comp]; push_cast; ring
  rw [h1, h, h]; ring

theorem filter_coal_linEvs (samp coal grid : List ℝ) :
    (linEvs samp coal grid).filter (fun e => decide (e.mark = -1)) = coal.map (fun c => ⟨c, -1⟩) := by
  unfold linEvs
  rw [List.filter_cons, List.filter_append, List.filter_append]
  have h1 : ((uniqueCounts samp).map (fun p => (⟨p.1, (p.2 : Int)⟩ : Ev ℝ))).filter
      (fun e => decide (e.mark = -1)) = [] := by
    rw [List.filter_eq_nil_iff]; intro e he
    obtain ⟨p, _, rfl⟩ := List.mem_map.mp he
    simp only [decide_eq_true_eq]
    intro h
    have : (0 : ℤ) ≤ (p.2 : ℤ) := Int.natCast_nonneg _
    omega
  have h2 : (grid.map (fun s => (⟨s, 0⟩ : Ev ℝ))).filter (fun e => decide (e.mark = -1)) = [] := by
    rw [List.filter_eq_nil_iff]; intro e he
    obtain ⟨s, _, rfl⟩ := List.mem_map.mp he; simp
  have h3 : (coal.map (fun s => (⟨s, -1⟩ : Ev ℝ))).filter (fun e => decide (e.mark = -1))
      = coal.map (fun s => (⟨s, -1⟩ : Ev ℝ)) := by
    rw [List.filter_eq_self]; intro e he
    obtain ⟨s, _, rfl⟩ := List.mem_map.mp he; simp
  rw [h1, h2, h3]; simp

/-- two distinct grid marks never share a time (grid strictly increasing above 0) -/
theorem linEvs_grid_marks_distinct (samp coal grid : List ℝ) (hg : (0 :: grid).Pairwise (· < ·)) :
    (linEvs samp coal grid).Pairwise (fun a b => a.mark = 0 → b.mark = 0 → a.t ≠ b.t) := by
  have hgp := List.pairwise_cons.mp hg
  have hU : ∀ e ∈ (uniqueCounts samp).map (fun p => (⟨p.1, (p.2 : Int)⟩ : Ev ℝ)), e.mark ≠ 0 := by
    intro e he
    obtain ⟨p, hp, rfl⟩ := List.mem_map.mp he
    have := uniqueCounts_pos samp p hp
    show (p.2 : ℤ) ≠ 0
    exact_mod_cast (Nat.pos_iff_ne_zero.mp this)
  have hC : ∀ e ∈ coal.map (fun c => (⟨c, -1⟩ : Ev ℝ)), e.mark ≠ 0 := by
    intro e he; obtain ⟨c, _, rfl⟩ := List.mem_map.mp he; simp
  have triv : ∀ (l : List (Ev ℝ)), (∀ e ∈ l, e.mark ≠ 0) →
      l.Pairwise (fun a b => a.mark = 0 → b.mark = 0 → a.t ≠ b.t) := by
    intro l hl
    induction l with
    | nil => exact List.Pairwise.nil
    | cons a l ih =>
      exact List.pairwise_cons.mpr ⟨fun b _ h => absurd h (hl a List.mem_cons_self),
        ih (fun e he => hl e (List.mem_cons_of_mem _ he))⟩
  unfold linEvs
  refine List.pairwise_cons.mpr ⟨?_, ?_⟩
  · intro b hb _ hb0
    simp only [List.mem_append] at hb
    rcases hb with (hb | hb) | hb
    · exact absurd hb0 (hU b hb)
    · exact absurd hb0 (hC b hb)
    · obtain ⟨g, hg', rfl⟩ := List.mem_map.mp hb
      exact (hgp.1 g hg').ne
  · rw [List.pairwise_append, List.pairwise_append]
    refine ⟨⟨triv _ hU, triv _ hC, fun a ha _ _ h => absurd h (hU a ha)⟩, ?_, ?_⟩
    · exact List.pairwise_map.mpr (hgp.2.imp (fun {a b} hab _ _ => hab.ne))
    · intro a ha _ _ h
      simp only [List.mem_append] at ha
      rcases ha with ha | ha
      · exact absurd h (hU a ha)
      · exact absurd h (hC a ha)

/-! ### the sorted events of the code -/

theorem linearEvents_eq (samp coal grid : List ℝ) (hlen : samp.length = coal.length + 1) :
    linearEvents (samp ++ coal) grid
      = (uniqueCounts samp).map (fun p => (⟨p.1, (p.2 : Int)⟩ : Ev ℝ)) ++ coal.map (fun c => ⟨c, -1⟩)
        ++ (⟨-1, 0⟩ : Ev ℝ) :: grid.map (fun g => ⟨g, 0⟩) := by
  have hn : taxaCount (samp ++ coal) = samp.length := by
    unfold taxaCount; rw [List.length_append]; omega
  unfold linearEvents
  simp only [hn, List.take_left', List.drop_left', List.map_cons]

/-- the sorted event list the code works on: sentinel at 0 first, then a time-sorted permutation of the rest -/
theorem linear_sorted_events {samp coal samp' coal' : List ℝ} (grid : List ℝ)
    (hs : samp'.Perm samp) (hc : coal'.Perm coal) (hlen : samp.length = coal.length + 1)
    (hnn : ∀ t ∈ samp ++ coal ++ grid, 0 ≤ t) :
    ∃ l, linearSorted (samp' ++ coal') grid = (⟨0, 0⟩ : Ev ℝ) :: l ∧
      ((⟨0, 0⟩ : Ev ℝ) :: l).Perm (linEvs samp' coal' grid) ∧ TimeSorted ((⟨0, 0⟩ : Ev ℝ) :: l) := by
  have hlen' : samp'.length = coal'.length + 1 := by rw [hs.length_eq, hc.length_eq]; exact hlen
  have hnn' : ∀ e ∈ (uniqueCounts samp').map (fun p => (⟨p.1, (p.2 : Int)⟩ : Ev ℝ)) ++ coal'.map (fun c => ⟨c, -1⟩)
      ++ grid.map (fun g => ⟨g, 0⟩), (0 : ℝ) ≤ e.t := by
    intro e he
    simp only [List.mem_append, List.mem_map] at he
    rcases he with (⟨p, hp, rfl⟩ | ⟨c, hc', rfl⟩) | ⟨g, hg, rfl⟩
    · exact hnn _ (by simp [hs.mem_iff.mp (uniqueCounts_fst samp' p hp)])
    · exact hnn _ (by simp [hc.mem_iff.mp hc'])
    · exact hnn _ (by simp [hg])
  set rest0 := (uniqueCounts samp').map (fun p => (⟨p.1, (p.2 : Int)⟩ : Ev ℝ)) ++ coal'.map (fun c => ⟨c, -1⟩)
      ++ grid.map (fun g => ⟨g, 0⟩) with hrest0
  have hL : linearEvents (samp' ++ coal') grid
      = (uniqueCounts samp').map (fun p => (⟨p.1, (p.2 : Int)⟩ : Ev ℝ)) ++ coal'.map (fun c => ⟨c, -1⟩)
        ++ (⟨-1, 0⟩ : Ev ℝ) :: grid.map (fun g => ⟨g, 0⟩) := linearEvents_eq samp' coal' grid hlen'
  have hpermL : (linearEvents (samp' ++ coal') grid).Perm ((⟨-1, 0⟩ : Ev ℝ) :: rest0) := by
    rw [hL, hrest0]; exact List.perm_middle
  have hperm0 := (sortEvents_perm (linearEvents (samp' ++ coal') grid)).trans hpermL
  have hsorted0 := sortEvents_sorted (linearEvents (samp' ++ coal') grid)
  unfold linearSorted
  cases hS : sortEvents (linearEvents (samp' ++ coal') grid) with
  | nil =>
    rw [hS] at hperm0
    exact absurd hperm0.length_eq (by simp)
  | cons h rest =>
    rw [hS] at hperm0 hsorted0
    have hp := List.pairwise_cons.mp hsorted0
    -- the head is the sentinel
    have hsent : (⟨-1, 0⟩ : Ev ℝ) ∈ h :: rest := hperm0.mem_iff.mpr List.mem_cons_self
    have hle : h.t ≤ -1 := by
      rcases List.mem_cons.mp hsent with heq | hmem
      · rw [← heq]
      · exact hp.1 _ hmem
    have hh : h = ⟨-1, 0⟩ := by
      rcases List.mem_cons.mp (hperm0.mem_iff.mp List.mem_cons_self) with heq | hmem
      · exact heq
      · have := hnn' h hmem; linarith
    subst hh
    have hrest : rest.Perm rest0 := hperm0.cons_inv
    refine ⟨rest, rfl, ?_, ?_⟩
    · unfold linEvs
      exact hrest.cons _
    · refine List.pairwise_cons.mpr ⟨fun e he => ?_, hp.2⟩
      exact hnn' e (hrest.mem_iff.mp he)

/-! ### population sizes at the sorted positions -/

/-- `popSizes` as a recursion carrying the number of grid marks seen so far -/
noncomputable def popsFrom (θ grid : List ℝ) (j : ℕ) : List (Ev ℝ) → List ℝ
  | [] => []
  | e :: rest =>
      (if e.mark = 0 then θ.getD j 0 else interp θ grid e.t)
        :: popsFrom θ grid (j + if e.mark = 0 then 1 else 0) rest

theorem popSizes_eq_popsFrom (θ grid : List ℝ) : ∀ (ev : List (Ev ℝ)) (j : ℕ),
    List.zipWith (fun e (c : ℕ) => if e.mark = 0 then θ.getD (c - 1) 0 else interp θ grid e.t) ev
      (cumsumFrom j (isMark 0 (marks ev))) = popsFrom θ grid j ev
  | [], _ => by simp [popsFrom, marks, isMark, cumsumFrom]
  | e :: rest, j => by
      have ih := popSizes_eq_popsFrom θ grid rest (j + if e.mark = 0 then 1 else 0)
      simp only [marks, isMark, List.map_cons, cumsumFrom, List.zipWith_cons_cons, popsFrom] at ih ⊢
      rw [ih]
      by_cases hm : e.mark = 0 <;> simp [hm]

theorem popsFrom_eq_map (θ grid : List ℝ) : ∀ (l : List (Ev ℝ)) (j : ℕ), TimeSorted l →
    l.Pairwise (fun a b => a.mark = 0 → b.mark = 0 → a.t ≠ b.t) →
    popsFrom θ grid j l
      = l.map (fun e => if e.mark = 0 then θ.getD (j + jAt 0 l e.t) 0 else interp θ grid e.t)
  | [], _, _, _ => by simp [popsFrom]
  | e :: rest, j, hs, hd => by
      have hp := List.pairwise_cons.mp hs
      have hdp := List.pairwise_cons.mp hd
      have ih := popsFrom_eq_map θ grid rest (j + if e.mark = 0 then 1 else 0) hp.2 hdp.2
      have h0 : jAt 0 (e :: rest) e.t = 0 := by
        apply jAt_eq_zero
        intro a ha
        rcases List.mem_cons.mp ha with rfl | ha
        · exact le_refl _
        · exact hp.1 a ha
      unfold popsFrom
      rw [ih, List.map_cons, h0, add_zero]
      congr 1
      apply List.map_congr_left
      intro e' he'
      by_cases hm' : e'.mark = 0
      · simp only [hm', if_true]
        rw [jAt_cons]
        by_cases hm : e.mark = 0
        · have hlt : e.t < e'.t := lt_of_le_of_ne (hp.1 e' he') (hdp.1 e' he' hm hm')
          simp [hm, hlt, add_assoc]
        · simp [hm]
      · simp only [hm', if_false]

/-- the sizes the code attaches to the sorted positions are `linN` at the event times -/
theorem popSizes_eq_linN (θ grid : List ℝ) {samp coal : List ℝ} {S : List (Ev ℝ)}
    (hperm : S.Perm (linEvs samp coal grid)) (hsorted : TimeSorted S)
    (hθ : θ.length = grid.length + 1) (hg : (0 :: grid).Pairwise (· < ·)) :
    popSizes θ grid S = S.map (fun e => linN θ grid e.t) := by
  have hd : S.Pairwise (fun a b => a.mark = 0 → b.mark = 0 → a.t ≠ b.t) := by
    refine (List.Perm.pairwise_iff ?_ hperm).mpr (linEvs_grid_marks_distinct samp coal grid hg)
    intro a b h hb ha heq
    exact h ha hb heq.symm
  unfold popSizes cumsum
  rw [popSizes_eq_popsFrom, popsFrom_eq_map θ grid S 0 hsorted hd]
  apply List.map_congr_left
  intro e he
  by_cases hm : e.mark = 0
  · simp only [hm, if_true, zero_add]
    rw [jAt_perm 0 hperm, jAt_zero_linEvs]
    -- e is a grid mark: its time is a knot
    have hknot : e.t ∈ (0 : ℝ) :: grid := by
      rcases mem_linEvs (hperm.mem_iff.mp he) with rfl | ⟨h1, _⟩ | ⟨h1, _⟩ | ⟨_, h2⟩
      · exact List.mem_cons_self
      · omega
      · omega
      · exact List.mem_cons_of_mem _ h2
    cases θ with
    | nil => simp at hθ
    | cons y0 ys =>
      have hl : grid.length = ys.length := by simpa using hθ.symm
      rw [linN]
      apply lin_at_knot grid ys 0 y0 e.t _ hl hknot
      unfold KnotsSorted
      rw [List.map_fst_zip (le_of_eq hl)]
      exact hg
  · simp only [hm, if_false]
    exact interp_eq_linN θ grid e.t hθ hg

/-! ### the interval sum as a walk -/

theorem tail_dropLast_cons {β : Type} (a : β) (L : List β) : (a :: L).dropLast.tail = L.dropLast := by
  cases L with
  | nil => rfl
  | cons b L => rw [List.dropLast_cons_cons, List.tail_cons]

theorem pieces_eq_walk (Nf : ℝ → ℝ) (v : Int) : ∀ (l : List (Ev ℝ)) (k : ℤ) (j : ℕ),
    (List.zipWith (fun k q => (choose2 k : ℝ) * q) (cumsumFrom k (marks l)).dropLast
        (pieces (times l) (l.map (fun e => Nf e.t)))).sum
      = walk (fun k _ a b => (choose2 k : ℝ) * linearPiece (b - a) (Nf a) (Nf b)) v k j l
  | [], _, _ => by simp [marks, times, cumsumFrom, pieces, walk]
  | [e], _, _ => by simp [marks, times, cumsumFrom, pieces, walk]
  | e1 :: e2 :: rest, k, j => by
      have ih := pieces_eq_walk Nf v (e2 :: rest) (k + e1.mark) (j + if e1.mark = v then 1 else 0)
      simp only [marks, times, List.map_cons, cumsumFrom, List.dropLast_cons_cons, pieces, List.zipWith_cons_cons,
        List.sum_cons, walk] at ih ⊢
      rw [ih]

/-- the knots and the non-negativity needed between consecutive events -/
def LinGood (grid : List ℝ) (a b : ℝ) : Prop := 0 ≤ a ∧ NoKnotInside (0 :: grid) a b

theorem linearPiece_real (dt na nb : ℝ) :
    linearPiece dt na nb = if na = nb then dt / na else dt * (Real.log nb - Real.log na) / (nb - na) := by
  unfold linearPiece
  simp only [trans_log_real]
  by_cases h : na = nb
  · subst h; simp
  · have : ¬(nb - na ≤ 0 ∧ 0 ≤ nb - na) := by
      intro ⟨h1, h2⟩
      exact h (by linarith)
    rw [if_neg this, if_neg h]

/-- per-piece integral of `C(k,2)/N` between consecutive events -/
theorem linear_phi (θ grid : List ℝ) (hθ : θ.length = grid.length + 1) (hg : (0 :: grid).Pairwise (· < ·))
    (hpos : ∀ t ∈ θ, 0 < t) (k : ℤ) (a b : ℝ) (hab : a ≤ b) (hgood : LinGood grid a b) :
    IntervalIntegrable (fun x => (choose2 k : ℝ) / linN θ grid x) volume a b ∧
      ∫ x in a..b, (choose2 k : ℝ) / linN θ grid x
        = (choose2 k : ℝ) * linearPiece (b - a) (linN θ grid a) (linN θ grid b) := by
  cases θ with
  | nil => simp at hθ
  | cons y0 ys =>
    have hl : grid.length = ys.length := by simpa using hθ.symm
    have hk : KnotsSorted 0 (grid.zip ys) := by
      unfold KnotsSorted; rw [List.map_fst_zip (le_of_eq hl)]; exact hg
    have hy0 : 0 < y0 := hpos y0 List.mem_cons_self
    have hys : ∀ s ∈ grid.zip ys, 0 < s.2 := fun s hs =>
      hpos s.2 (List.mem_cons_of_mem _ (List.of_mem_zip hs).2)
    have hNpos : ∀ t, 0 ≤ t → 0 < linN (y0 :: ys) grid t := fun t ht => lin_pos _ 0 y0 t hk hy0 hys ht
    rcases eq_or_lt_of_le hab with heq | hlt
    · subst heq
      refine ⟨IntervalIntegrable.refl, ?_⟩
      rw [intervalIntegral.integral_same, linearPiece_real]
      simp
    · have hno : NoKnotInside ((grid.zip ys).map Prod.fst) a b := by
        rw [List.map_fst_zip (le_of_eq hl)]
        exact fun g hg' => hgood.2 g (List.mem_cons_of_mem _ hg')
      obtain ⟨p, q, hpq⟩ := lin_affine (grid.zip ys) 0 y0 a b hk hgood.1 hab hno
      have hNa : linN (y0 :: ys) grid a = p + q * a := hpq a (le_refl _) hab
      have hNb : linN (y0 :: ys) grid b = p + q * b := hpq b hab (le_refl _)
      have hpa : 0 < p + q * a := hNa ▸ hNpos a hgood.1
      have hpb : 0 < p + q * b := hNb ▸ hNpos b (le_trans hgood.1 hab)
      have hba : b - a ≠ 0 := (sub_pos.mpr hlt).ne'
      have hfun : ∀ x ∈ Set.uIcc a b, (choose2 k : ℝ) / linN (y0 :: ys) grid x
          = (choose2 k : ℝ) * (1 / ((p + q * a) + ((p + q * b) - (p + q * a)) * (x - a) / (b - a))) := by
        intro x hx
        rw [Set.uIcc_of_le hab] at hx
        have : linN (y0 :: ys) grid x = p + q * x := hpq x hx.1 hx.2
        rw [this, div_eq_mul_one_div]
        congr 2
        field_simp
        ring
      have hcontN : ContinuousOn (fun x : ℝ => 1 / ((p + q * a) + ((p + q * b) - (p + q * a)) * (x - a) / (b - a)))
          (Set.uIcc a b) := by
        apply ContinuousOn.div continuousOn_const (by fun_prop)
        intro x hx
        rw [Set.uIcc_of_le hab] at hx
        have h1 : (p + q * a) + ((p + q * b) - (p + q * a)) * (x - a) / (b - a) = p + q * x := by
          field_simp; ring
        rw [h1, ← hpq x hx.1 hx.2]
        exact (hNpos x (le_trans hgood.1 hx.1)).ne'
      have hI0 : IntervalIntegrable (fun x : ℝ => (choose2 k : ℝ)
          * (1 / ((p + q * a) + ((p + q * b) - (p + q * a)) * (x - a) / (b - a)))) volume a b :=
        (hcontN.intervalIntegrable).const_mul _
      refine ⟨hI0.congr (fun x hx => (hfun x (Set.uIoc_subset_uIcc hx)).symm), ?_⟩
      rw [intervalIntegral.integral_congr hfun, intervalIntegral.integral_const_mul,
        linear_piece_integral a b _ _ hlt hpa hpb, hNa, hNb, linearPiece_real]

theorem consecGood_and {P Q : ℝ → ℝ → Prop} : ∀ (S : List (Ev ℝ)), ConsecGood P S → ConsecGood Q S →
    ConsecGood (fun a b => P a b ∧ Q a b) S
  | [], _, _ => trivial
  | [_], _, _ => trivial
  | _ :: e2 :: rest, hp, hq => ⟨⟨hp.1, hq.1⟩, consecGood_and (e2 :: rest) hp.2 hq.2⟩

theorem consecGood_of_forall {P : ℝ → Prop} : ∀ (S : List (Ev ℝ)), (∀ e ∈ S, P e.t) →
    ConsecGood (fun a _ => P a) S
  | [], _ => trivial
  | [_], _ => trivial
  | e1 :: e2 :: rest, h =>
      ⟨h e1 List.mem_cons_self, consecGood_of_forall (e2 :: rest) (fun e he => h e (List.mem_cons_of_mem _ he))⟩

theorem sum_map_ite_eq_filter (p : Ev ℝ → Prop) [DecidablePred p] (f : Ev ℝ → ℝ) : ∀ l : List (Ev ℝ),
    (l.map (fun e => if p e then f e else 0)).sum = ((l.filter (fun e => decide (p e))).map f).sum
  | [] => by simp
  | e :: l => by
      rw [List.map_cons, List.sum_cons, sum_map_ite_eq_filter p f l, List.filter_cons]
      by_cases h : p e <;> simp [h]

theorem lineagesAt_perm {samp samp' coal coal' : List ℝ} (hs : samp'.Perm samp) (hc : coal'.Perm coal) (x : ℝ) :
    lineagesAt samp' coal' x = lineagesAt samp coal x := by
  unfold lineagesAt; rw [hs.countP_eq, hc.countP_eq]

end TT.C08
