import TTModel.C16_Leapfrog
import TTProofs.Lemmas.C16_Shears
import Mathlib.Data.Matrix.Mul
import Mathlib.LinearAlgebra.Matrix.Symmetric
import Mathlib.Data.Real.Basic
import Mathlib.Tactic.Ring
import Mathlib.Tactic.LinearCombination
/-! one leapfrog step on an n-dimensional quadratic potential: exact energy error (vector algebra) -/
namespace TT.C16
open Matrix

variable {n : ℕ}

theorem symm_adj (S : Matrix (Fin n) (Fin n) ℝ) (hS : S.IsSymm) (x y : Fin n → ℝ) :
    (S *ᵥ x) ⬝ᵥ y = x ⬝ᵥ (S *ᵥ y) := by
  rw [dotProduct_mulVec, ← mulVec_transpose, hS.eq, dotProduct_comm]

theorem quad_expand (S : Matrix (Fin n) (Fin n) ℝ) (hS : S.IsSymm) (x d c : Fin n → ℝ) :
    (1/2 * ((x + d) ⬝ᵥ (S *ᵥ (x + d))) + c ⬝ᵥ (x + d)) - (1/2 * (x ⬝ᵥ (S *ᵥ x)) + c ⬝ᵥ x)
      = d ⬝ᵥ (S *ᵥ x + c) + 1/2 * (d ⬝ᵥ (S *ᵥ d)) := by
  have h := symm_adj S hS x d
  simp only [mulVec_add, dotProduct_add, add_dotProduct] at *
  rw [dotProduct_comm c d, dotProduct_comm (S *ᵥ x) d] at *
  linear_combination (-1/2) * h

theorem energy_core (A K : Matrix (Fin n) (Fin n) ℝ) (hA : A.IsSymm) (hK : K.IsSymm)
    (r p1 : Fin n → ℝ) (eps : ℝ) :
    let u := K *ᵥ p1
    let v := A *ᵥ u
    let e := -(eps • (r + (eps / 2) • v))
    ((eps • u) ⬝ᵥ r + 1/2 * ((eps • u) ⬝ᵥ (A *ᵥ (eps • u))))
      + (e ⬝ᵥ (K *ᵥ (p1 + (eps / 2) • r) + 0) + 1/2 * (e ⬝ᵥ (K *ᵥ e)))
      = eps ^ 3 * (1/4 * (r ⬝ᵥ (K *ᵥ v)) + eps / 8 * (p1 ⬝ᵥ (K *ᵥ (A *ᵥ (K *ᵥ v))))) := by
  intro u v e
  have f1 : u ⬝ᵥ r = r ⬝ᵥ u := dotProduct_comm _ _
  have f2 : u ⬝ᵥ v = v ⬝ᵥ u := dotProduct_comm _ _
  have f4 : p1 ⬝ᵥ (K *ᵥ (A *ᵥ (K *ᵥ v))) = v ⬝ᵥ (K *ᵥ v) := by
    rw [← symm_adj K hK, ← symm_adj A hA]
  simp only [e, mulVec_add, mulVec_smul, mulVec_neg, dotProduct_add, add_dotProduct, smul_dotProduct,
    dotProduct_smul, neg_dotProduct, dotProduct_neg, smul_eq_mul, add_zero]
  linear_combination eps * f1 + (eps ^ 2 / 2) * f2 - (eps ^ 4 / 8) * f4

/-- one-step energy error of leapfrog for a quadratic potential, in vector form -/
theorem energy_step_vec (A K : Matrix (Fin n) (Fin n) ℝ) (hA : A.IsSymm) (hK : K.IsSymm)
    (b q p : Fin n → ℝ) (eps : ℝ) :
    let r := A *ᵥ q + b
    let p1 := p - (eps / 2) • r
    let q' := q + eps • (K *ᵥ p1)
    let p' := p1 - (eps / 2) • (A *ᵥ q' + b)
    ((1/2 * (q' ⬝ᵥ (A *ᵥ q')) + b ⬝ᵥ q') + 1/2 * (p' ⬝ᵥ (K *ᵥ p')))
      - ((1/2 * (q ⬝ᵥ (A *ᵥ q)) + b ⬝ᵥ q) + 1/2 * (p ⬝ᵥ (K *ᵥ p)))
      = eps ^ 3 * (1/4 * (r ⬝ᵥ (K *ᵥ (A *ᵥ (K *ᵥ p1))))
          + eps / 8 * (p1 ⬝ᵥ (K *ᵥ (A *ᵥ (K *ᵥ (A *ᵥ (K *ᵥ p1))))))) := by
  intro r p1 q' p'
  have hU := quad_expand A hA q (eps • (K *ᵥ p1)) b
  have hp' : p' = p + (-(eps • (r + (eps / 2) • (A *ᵥ (K *ᵥ p1))))) := by
    simp only [p', q', p1, r, mulVec_add, mulVec_smul, mulVec_sub]
    ext i; simp; ring
  have hT := quad_expand K hK p (-(eps • (r + (eps / 2) • (A *ᵥ (K *ᵥ p1))))) 0
  have hp : p = p1 + (eps / 2) • r := by simp [p1]
  have hc := energy_core A K hA hK r p1 eps
  simp only [zero_dotProduct, add_zero] at hT
  simp only at hc
  rw [← hp] at hc
  simp only [add_zero] at hc
  rw [hp']
  have hq' : q' = q + eps • (K *ᵥ p1) := rfl
  rw [hq']
  linear_combination hU + hT + hc

/-- the model's one-step leapfrog on the quadratic potential `U(x) = ½ x·Ax + b·x` with dense inverse mass
matrix `K`, in vector form -/
theorem leapfrog_one_step_quadratic (A K : Matrix (Fin n) (Fin n) ℝ) (b q p : Fin n → ℝ) (eps : ℝ) :
    let g : Vec ℝ n → Vec ℝ n := fun x i => -((A *ᵥ x) i + b i)
    let p1 := p - (eps / 2) • (A *ᵥ q + b)
    let q' := q + eps • (K *ᵥ p1)
    leapfrog g eps (.dense fun i j => K i j) 1 q p = (q', p1 - (eps / 2) • (A *ᵥ q' + b)) := by
  intro g p1 q'
  have hq : (leapfrog g eps (.dense fun i j => K i j) 1 q p).1 = q' := by
    funext i
    simp only [leapfrog, leapfrogWith, loop, loopBody, force_eq, negGrad, driftQ, sumFin_eq_sum, g, q', p1,
      Matrix.mulVec, dotProduct, Pi.add_apply, Pi.sub_apply, Pi.smul_apply, smul_eq_mul]
    congr 2
    refine Finset.sum_congr rfl fun j _ => ?_
    ring
  refine Prod.ext hq ?_
  funext i
  have hq2 : (driftQ eps (IMass.dense fun i j => K i j) q
      (fun i => p i - eps / 2 * negGrad g q i)) = q' := by
    have := hq
    simpa [leapfrog, leapfrogWith, loop, loopBody, force_eq] using this
  simp only [leapfrog, leapfrogWith, loop, loopBody, force_eq, hq2]
  simp [negGrad, g, p1, Matrix.mulVec, dotProduct]
  ring

end TT.C16
