import TTProofs.Lemmas.C01_Pruning
/-! helper lemmas for C01/C02: the tip-state variant of the pruning loop computes the same root
    partial as the tip-partial loop run on indicator / all-ones tip vectors, provided the rows of
    every transition matrix sum to one (needed only for the missing state) -/
namespace TT.C01

section
variable {R : Type} [CommSemiring R] {K S : Nat}

/-- column `state` of `[M | 1]` is `M · e_state`, resp. `M · 1` for the missing state -/
theorem tipCol_eq_matVec (m : Fin S → Fin S → R) (state : Nat)
    (hrow : S ≤ state → ∀ s, ∑ j, m s j = 1) (s : Fin S) :
    tipCol m state s = matVec m (stateVec state) s := by
  unfold tipCol matVec stateVec
  rw [sumFin_eq_sum]
  by_cases h : state < S
  · simp only [h, dite_true, if_true]
    rw [Finset.sum_eq_single ⟨state, h⟩]
    · simp
    · intro b _ hb
      have : b.val ≠ state := fun e => hb (Fin.ext e)
      simp [this]
    · simp
  · simp only [h, dite_false, if_false, mul_one]
    exact (hrow (by omega) s).symm

/-- what a child contributes to its parent -/
def termOf (tip : Nat → Fin S → R) (mats : Mats R K S) (c : ITree) : Partial R K S :=
  fun k => matVec (mats c.idx k) (partialRec tip mats c k)

theorem peelLoopTS_append (mats : Mats R K S) (tc : Nat) (ts : Nat → Nat)
    (a b : List (Nat × Nat × Nat)) (st : Store R K S) :
    peelLoopTS mats tc ts (a ++ b) st = (peelLoopTS mats tc ts a st).bind (peelLoopTS mats tc ts b) := by
  induction a generalizing st with
  | nil => simp [peelLoopTS]
  | cons t rest ih =>
    simp only [List.cons_append, peelLoopTS]
    cases h : peelStepTS mats tc ts st t with
    | none => simp
    | some st' => simp [ih]

theorem childTerm_congr (mats : Mats R K S) (tc : Nat) (ts : Nat → Nat) (st st' : Store R K S) (c : Nat)
    (h : st c = st' c) : childTerm mats tc ts st c = childTerm mats tc ts st' c := by
  unfold childTerm
  rw [h]

variable (mats : Mats R K S) (tipState : Nat → Nat) (n : Nat)
  (hrow : ∀ b k s, ∑ j, mats b k s j = 1)

include hrow in
/-- invariant of the tip-state loop over the post-order of a well-indexed tree -/
theorem peelLoopTS_postorder :
    ∀ (t : ITree), WF n t → ∀ (st : Store R K S),
      ∃ st', peelLoopTS mats n tipState (postorder t) st = some st' ∧
        (∀ j, j ∉ t.internals → st' j = st j) ∧
        childTerm mats n tipState st' t.idx = some (termOf (fun i => stateVec (tipState i)) mats t) ∧
        (∀ i l r, t = .node i l r → st' i = some (partialRec (fun i => stateVec (tipState i)) mats t))
  | .leaf i, h, st => by
    refine ⟨st, by simp [postorder, peelLoopTS], fun _ _ => rfl, ?_, by intro _ _ _ e; cases e⟩
    have hi : i < n := h.leaves_lt i (by simp [ITree.leaves])
    simp only [childTerm, ITree.idx, hi, if_true]
    congr 1
    funext k s
    exact tipCol_eq_matVec _ _ (fun _ s => hrow i k s) s
  | .node i l r, h, st => by
    obtain ⟨st1, e1, k1, c1, _⟩ := peelLoopTS_postorder l h.left st
    obtain ⟨st2, e2, k2, c2, _⟩ := peelLoopTS_postorder r h.right st1
    have cl : childTerm mats n tipState st2 l.idx
        = some (termOf (fun i => stateVec (tipState i)) mats l) := by
      rw [childTerm_congr mats n tipState st2 st1 l.idx (k2 _ h.left_idx_not_mem_right)]; exact c1
    let v : Partial R K S := partialRec (fun i => stateVec (tipState i)) mats (.node i l r)
    have hstep : peelStepTS mats n tipState st2 (i, l.idx, r.idx) = some (st2.set i v) := by
      simp only [peelStepTS, cl, c2]
      congr 2
      funext k s
      simp [Tab.get_ofFn, v, termOf, partialRec, partialRec1]
    have hge : ¬ i < n := by
      have := h.internals_ge i (by simp [ITree.internals]); omega
    refine ⟨st2.set i v, ?_, ?_, ?_, ?_⟩
    · simp only [postorder, peelLoopTS_append, e1, e2, Option.bind_some, peelLoopTS, hstep]
    · intro j hj
      simp only [ITree.internals, List.mem_append, List.mem_singleton, not_or] at hj
      simp only [Store.set, hj.2, if_false]
      rw [k2 j hj.1.2, k1 j hj.1.1]
    · simp only [childTerm, ITree.idx, hge, if_false, Store.set, if_true]
      rfl
    · intro i' l' r' e
      cases e
      simp [Store.set, v]

include hrow in
theorem siteLikTS_eq (π : Fin S → R) (props : Fin K → R) (i : Nat) (l r : ITree)
    (h : WF n (.node i l r)) (hn : (postorder (.node i l r)).length + 1 = n) :
    siteLikTS π props mats (postorder (.node i l r)) tipState
      = some (rootSum π props (partialRec (fun i => stateVec (tipState i)) mats (.node i l r))) := by
  obtain ⟨st', e, _, _, v⟩ := peelLoopTS_postorder mats tipState n hrow (.node i l r) h (fun _ => none)
  unfold siteLikTS
  rw [hn, e, postorder_getLast]
  simp [v i l r rfl]

end
end TT.C01
