import TTProofs.Lemmas.C16_Shears
import Mathlib.MeasureTheory.Constructions.Pi
import Mathlib.MeasureTheory.Measure.Lebesgue.Basic
import Mathlib.MeasureTheory.Group.Measure
import Mathlib.MeasureTheory.Measure.Haar.OfBasis
/-! each shear of the leapfrog integrator preserves Lebesgue measure on `ℝⁿ × ℝⁿ` -/
namespace TT.C16
open MeasureTheory

variable {n : ℕ}

theorem measurable_apply (im : IMass ℝ n) : Measurable (im.apply) := by
  cases im with
  | diag d =>
    refine measurable_pi_lambda _ fun i => ?_
    have hi : Measurable fun p : Fin n → ℝ => p i := measurable_pi_apply i
    exact hi.const_mul (d i)
  | dense m =>
    refine measurable_pi_lambda _ fun i => ?_
    simp only [IMass.apply, sumFin_eq_sum]
    refine Finset.measurable_sum _ fun j _ => ?_
    have hj : Measurable fun p : Fin n → ℝ => p j := measurable_pi_apply j
    exact hj.const_mul (m i j)

/-- momentum shear `(q,p) ↦ (q, p + f q)` -/
theorem shear_snd_preserving (f : Vec ℝ n → Vec ℝ n) (hf : Measurable f) :
    MeasurePreserving (fun z : Vec ℝ n × Vec ℝ n => (z.1, z.2 + f z.1))
      (volume.prod volume) (volume.prod volume) := by
  have h := MeasurePreserving.skew_product (μa := (volume : Measure (Vec ℝ n))) (μb := volume)
      (μc := (volume : Measure (Vec ℝ n))) (μd := volume) (f := id) (MeasurePreserving.id _)
      (g := fun q p => p + f q) ?_ ?_
  · simpa using h
  · exact (measurable_snd.add (hf.comp measurable_fst))
  · refine Filter.Eventually.of_forall fun q => ?_
    exact (measurePreserving_add_right volume (f q)).map_eq

/-- position shear `(q,p) ↦ (q + f p, p)`: the momentum shear conjugated by the swap -/
theorem shear_fst_preserving (f : Vec ℝ n → Vec ℝ n) (hf : Measurable f) :
    MeasurePreserving (fun z : Vec ℝ n × Vec ℝ n => (z.1 + f z.2, z.2))
      (volume.prod volume) (volume.prod volume) := by
  have hs : MeasurePreserving (Prod.swap : Vec ℝ n × Vec ℝ n → Vec ℝ n × Vec ℝ n)
      (volume.prod volume) (volume.prod volume) := Measure.measurePreserving_swap
  have := (hs.comp (shear_snd_preserving f hf)).comp hs
  exact this

theorem kick_preserving (g : Vec ℝ n → Vec ℝ n) (hg : Measurable g) (a : ℝ) :
    MeasurePreserving (kick g a) (volume.prod volume) (volume.prod volume) := by
  have hf : Measurable fun q : Vec ℝ n => fun i => -(a * negGrad g q i) := by
    refine measurable_pi_lambda _ fun i => ?_
    exact (((measurable_pi_apply i).comp hg).neg.const_mul a).neg
  convert shear_snd_preserving _ hf using 1
  funext z
  ext i
  · rfl
  · simp [kick, sub_eq_add_neg]

theorem drift_preserving (eps : ℝ) (im : IMass ℝ n) :
    MeasurePreserving (drift eps im) (volume.prod volume) (volume.prod volume) := by
  have hf : Measurable fun p : Vec ℝ n => fun i => eps * im.apply p i := by
    refine measurable_pi_lambda _ fun i => ?_
    exact ((measurable_pi_apply i).comp (measurable_apply im)).const_mul eps
  convert shear_fst_preserving _ hf using 1
  funext z
  ext i
  · simp [drift, driftQ_eq]
  · rfl

theorem loopMap_preserving (g : Vec ℝ n → Vec ℝ n) (hg : Measurable g) (eps : ℝ)
    (im : IMass ℝ n) :
    MeasurePreserving (loopMap g eps im) (volume.prod volume) (volume.prod volume) :=
  (kick_preserving g hg eps).comp (drift_preserving eps im)

end TT.C16
