import TTModel.C02_Names
import TTProofs.Lemmas.Sums
import Mathlib.Algebra.BigOperators.Ring.Finset
import Mathlib.Tactic.Ring
/-! helper lemmas for C02: the pulley principle — under detailed balance, `P(0)=I` and the semigroup
    property the root can be moved to any branch without changing the likelihood -/
namespace TT.C02
open TT TT.C01

section
variable {R : Type} [CommSemiring R] {K S : Nat}

theorem rootSum_comm (π : Fin S → R) (props : Fin K → R) (p : Partial R K S) :
    rootSum π props p = ∑ k, props k * ∑ s, π s * p k s := by
  simp only [rootSum, sumFin_eq_sum, Finset.mul_sum]
  rw [Finset.sum_comm]
  refine Finset.sum_congr rfl fun k _ => Finset.sum_congr rfl fun s _ => ?_
  ring

/-- detailed balance makes `A` self-adjoint for the `π`-weighted inner product -/
theorem adjoint (π : Fin S → R) (A : Fin S → Fin S → R) (hrev : ∀ s j, π s * A s j = π j * A j s)
    (u w : Fin S → R) :
    ∑ s, π s * (matVec A u s * w s) = ∑ s, π s * (u s * matVec A w s) := by
  simp only [matVec, sumFin_eq_sum, Finset.sum_mul, Finset.mul_sum]
  rw [Finset.sum_comm]
  refine Finset.sum_congr rfl fun j _ => Finset.sum_congr rfl fun s _ => ?_
  have h := hrev s j
  calc π s * (A s j * u j * w s) = (π s * A s j) * (u j * w s) := by ring
    _ = (π j * A j s) * (u j * w s) := by rw [h]
    _ = π j * (u j * (A j s * w s)) := by ring

theorem matVec_mul (A B C : Fin S → Fin S → R) (h : ∀ s j, C s j = ∑ i, A s i * B i j) (v : Fin S → R)
    (s : Fin S) : matVec C v s = matVec A (matVec B v) s := by
  simp only [matVec, sumFin_eq_sum, h, Finset.sum_mul, Finset.mul_sum]
  rw [Finset.sum_comm]
  refine Finset.sum_congr rfl fun i _ => Finset.sum_congr rfl fun j _ => ?_
  ring

theorem matVec_one (A : Fin S → Fin S → R) (h : ∀ s j, A s j = if s = j then 1 else 0) (v : Fin S → R)
    (s : Fin S) : matVec A v s = v s := by
  simp [matVec, sumFin_eq_sum, h]

end

section
set_option linter.unusedSectionVars false
variable {L : Type} [AddCommMonoid L] {R : Type} [CommSemiring R] {K S : Nat}

/-- hypotheses of the pulley principle on the family of transition matrices `P(length, category)` -/
structure Pulley (π : Fin S → R) (P : L → Fin K → Fin S → Fin S → R) : Prop where
  /-- detailed balance: `π_i P(i,j) = π_j P(j,i)` -/
  rev : ∀ a k s j, π s * P a k s j = π j * P a k j s
  /-- `P(0) = I` -/
  zero : ∀ k s j, P 0 k s j = if s = j then 1 else 0
  /-- Chapman–Kolmogorov: `P(a+b) = P(a) P(b)` -/
  semigroup : ∀ a b k s j, P (a + b) k s j = ∑ i, P a k s i * P b k i j

variable {π : Fin S → R} {P : L → Fin K → Fin S → Fin S → R}

/-- two branches meeting at the root act like one branch of the summed length -/
theorem pulley_edge (h : Pulley π P) (a b : L) (k : Fin K) (u w : Fin S → R) :
    ∑ s, π s * (matVec (P a k) u s * matVec (P b k) w s)
      = ∑ s, π s * (u s * matVec (P (a + b) k) w s) := by
  rw [adjoint π (P a k) (h.rev a k) u (matVec (P b k) w)]
  refine Finset.sum_congr rfl fun s _ => ?_
  rw [matVec_mul (P a k) (P b k) (P (a + b) k) (h.semigroup a b k) w s]

theorem partialN_setBranch (data : String → Fin S → R) (b : L) (t : LTree L) :
    partialN P data (t.setBranch b) = partialN P data t := by
  cases t <;> rfl

theorem branch_setBranch (b : L) (t : LTree L) : (t.setBranch b).branch = b := by
  cases t <;> rfl

@[simp] theorem branch_node (l r : LTree L) (b : L) : (LTree.node l r b).branch = b := rfl
@[simp] theorem branch_leaf (nm : String) (b : L) : (LTree.leaf nm b : LTree L).branch = b := rfl

theorem likN_node (π : Fin S → R) (props : Fin K → R) (data : String → Fin S → R) (l r : LTree L) (b0 : L) :
    likN π props P data (.node l r b0) = ∑ k, props k * ∑ s, π s *
      (matVec (P l.branch k) (partialN P data l k) s * matVec (P r.branch k) (partialN P data r k) s) := by
  unfold likN
  rw [rootSum_comm]
  rfl

theorem likN_swapRoot (props : Fin K → R) (data : String → Fin S → R) (T : LTree L) :
    likN π props P data (swapRoot T) = likN π props P data T := by
  cases T with
  | leaf nm b => rfl
  | node l r b =>
    simp only [swapRoot, likN_node]
    refine Finset.sum_congr rfl fun k _ => ?_
    congr 1
    refine Finset.sum_congr rfl fun s _ => ?_
    ring

theorem likN_slideRoot (h : Pulley π P) (props : Fin K → R) (data : String → Fin S → R)
    (l r : LTree L) (b0 a' b' : L) (hsum : a' + b' = l.branch + r.branch) :
    likN π props P data (slideRoot a' b' (.node l r b0)) = likN π props P data (.node l r b0) := by
  simp only [slideRoot, likN_node, branch_setBranch, partialN_setBranch]
  refine Finset.sum_congr rfl fun k _ => ?_
  rw [pulley_edge h, pulley_edge h, hsum]

theorem likN_stepLeft (h : Pulley π P) (props : Fin K → R) (data : String → Fin S → R) (T : LTree L) :
    likN π props P data (stepLeft T) = likN π props P data T := by
  match T with
  | .leaf nm b => rfl
  | .node (.leaf nm b) Z b0 => rfl
  | .node (.node X Y a) Z b0 =>
    simp only [stepLeft, likN_node, branch_node]
    refine Finset.sum_congr rfl fun k _ => ?_
    congr 1
    rw [pulley_edge h a Z.branch k]
    refine Finset.sum_congr rfl fun s _ => ?_
    rw [matVec_one (P 0 k) (h.zero k)]
    simp only [partialN, partialN_setBranch, branch_setBranch]
    ring

theorem likN_stepRight (h : Pulley π P) (props : Fin K → R) (data : String → Fin S → R) (T : LTree L) :
    likN π props P data (stepRight T) = likN π props P data T := by
  match T with
  | .leaf nm b => rfl
  | .node X (.leaf nm b) b0 => rfl
  | .node X (.node Y Z b) b0 =>
    simp only [stepRight, likN_node, branch_node]
    refine Finset.sum_congr rfl fun k _ => ?_
    congr 1
    have e : ∀ (u w : Fin S → R), ∑ s, π s * (matVec (P X.branch k) u s * matVec (P b k) w s)
        = ∑ s, π s * (w s * matVec (P (X.branch + b) k) u s) := by
      intro u w
      rw [add_comm X.branch b, ← pulley_edge h b X.branch k w u]
      refine Finset.sum_congr rfl fun s _ => ?_
      ring
    rw [e]
    refine Finset.sum_congr rfl fun s _ => ?_
    rw [matVec_one (P 0 k) (h.zero k)]
    simp only [partialN, partialN_setBranch, branch_setBranch]
    ring

theorem likN_swapLeft (props : Fin K → R) (data : String → Fin S → R) (T : LTree L) :
    likN π props P data (swapLeft T) = likN π props P data T := by
  match T with
  | .leaf nm b => rfl
  | .node (.leaf nm b) Z b0 => rfl
  | .node (.node X Y a) Z b0 =>
    simp only [swapLeft, likN_node, branch_node]
    refine Finset.sum_congr rfl fun k _ => ?_
    congr 1
    refine Finset.sum_congr rfl fun s _ => ?_
    have e : partialN P data (.node Y X a) = partialN P data (.node X Y a) := by
      funext k s
      simp only [partialN]
      ring
    rw [e]

theorem likN_applyMove (h : Pulley π P) (props : Fin K → R) (data : String → Fin S → R) (m : Move)
    (T : LTree L) : likN π props P data (applyMove m T) = likN π props P data T := by
  cases m
  · exact likN_stepLeft h props data T
  · exact likN_stepRight h props data T
  · exact likN_swapRoot props data T
  · exact likN_swapLeft props data T

theorem likN_belowLeft (h : Pulley π P) (props : Fin K → R) (data : String → Fin S → R) :
    ∀ (f : Nat) (T T' : LTree L), T' ∈ belowLeft f T → likN π props P data T' = likN π props P data T
  | 0, _, _, hm => by simp [belowLeft] at hm
  | f + 1, T, T', hm => by
    match T, hm with
    | .leaf nm b, hm => simp [belowLeft] at hm
    | .node (.leaf nm b) Z b0, hm => simp [belowLeft] at hm
    | .node (.node X Y a) Z b0, hm =>
      simp only [belowLeft, List.mem_cons, List.mem_append] at hm
      have h1 := likN_stepLeft h props data (.node (.node X Y a) Z b0)
      have h2 := (likN_stepLeft h props data (swapLeft (.node (.node X Y a) Z b0))).trans
        (likN_swapLeft props data _)
      rcases hm with (e | hm) | e | hm
      · rw [e]; exact h1
      · exact (likN_belowLeft h props data f _ T' hm).trans h1
      · rw [e]; exact h2
      · exact (likN_belowLeft h props data f _ T' hm).trans h2

/-- every rooting enumerated by `allRootings` has the same likelihood -/
theorem likN_allRootings (h : Pulley π P) (props : Fin K → R) (data : String → Fin S → R)
    (T T' : LTree L) (hm : T' ∈ allRootings T) : likN π props P data T' = likN π props P data T := by
  simp only [allRootings, List.mem_cons, List.mem_append] at hm
  rcases hm with (e | hm) | hm
  · rw [e]
  · exact likN_belowLeft h props data _ _ _ hm
  · exact (likN_belowLeft h props data _ _ _ hm).trans (likN_swapRoot props data T)

theorem likN_reroot (h : Pulley π P) (props : Fin K → R) (data : String → Fin S → R) (ms : List Move)
    (T : LTree L) : likN π props P data (reroot ms T) = likN π props P data T := by
  unfold reroot
  induction ms generalizing T with
  | nil => rfl
  | cons m ms ih => rw [List.foldl_cons, ih, likN_applyMove h]

end
end TT.C02

/-! ### `allRootings` has `2n − 3` elements -/
namespace TT.C02
open TT TT.C01

section count
variable {L : Type} [Add L] [Zero L]

def LTree.internalCount {β : Type} : LTree β → Nat
  | .leaf _ _ => 0
  | .node l r _ => l.internalCount + r.internalCount + 1

theorem LTree.names_length {β : Type} (T : LTree β) : T.names.length = T.internalCount + 1 := by
  induction T with
  | leaf nm b => rfl
  | node l r b hl hr => simp [LTree.names, LTree.internalCount, hl, hr]; omega

theorem LTree.size_eq {β : Type} (T : LTree β) : T.size = 2 * T.internalCount + 1 := by
  induction T with
  | leaf nm b => rfl
  | node l r b hl hr => simp [LTree.size, LTree.internalCount, hl, hr]; omega

theorem belowLeft_length : ∀ (f : Nat) (U V : LTree L) (b : L), U.size ≤ f →
    (belowLeft f (.node U V b)).length = 2 * U.internalCount
  | 0, U, _, _, h => by
    have := LTree.size_eq U
    omega
  | f + 1, .leaf nm a, V, b, _ => by simp [belowLeft, LTree.internalCount]
  | f + 1, .node X Y a, V, b, h => by
    have hs : (LTree.node X Y a).size = X.size + Y.size + 1 := rfl
    have h1 := belowLeft_length f X (.node Y (V.setBranch (a + V.branch)) 0) b (by omega)
    have h2 := belowLeft_length f Y (.node X (V.setBranch (a + V.branch)) 0) b (by omega)
    simp only [belowLeft, stepLeft, swapLeft, List.length_cons, List.length_append, h1, h2,
      LTree.internalCount]
    omega

/-- `allRootings` lists `2n − 3` rooted trees for a tree with `n` leaves -/
theorem allRootings_length (l r : LTree L) (b : L) :
    (allRootings (.node l r b)).length = 2 * (LTree.node l r b).names.length - 3 := by
  have hs : (LTree.node l r b).size = l.size + r.size + 1 := rfl
  simp only [allRootings, swapRoot, List.length_cons, List.length_append]
  rw [belowLeft_length _ l r b (by omega), belowLeft_length _ r l b (by omega), LTree.names_length]
  simp only [LTree.internalCount]
  omega

end count
end TT.C02
