import TTModel.C19_CLI
/-! Helper lemmas for C19. -/
namespace TT.C19
open TT.C13 TT.C13.Json

variable {ν : Type}

theorem collect_append [CliNum ν] (xs ys : List (Json ν)) :
    collect (xs ++ ys) =
      match collect xs, collect ys with
      | some a, some b => some (a ++ b)
      | _, _ => none := by
  induction xs with
  | nil => simp only [List.nil_append, collect]; cases collect ys <;> simp
  | cons x xs ih =>
    simp only [List.cons_append, collect, ih]
    cases entryOf x <;> cases collect xs <;> cases collect ys <;> simp

/-- an entry is empty or a single id -/
theorem tpEntry_shape [CliNum ν] (kvs : List (String × Json ν)) (l : List (Json ν))
    (h : tpEntry kvs = some l) : l = [] ∨ ∃ i, l = [i] ∧ lookup "id" kvs = some i := by
  unfold tpEntry at h
  by_cases ht : strIs "TransformedParameter" (lookup "type" kvs) = true
  · simp only [ht, if_true] at h
    cases htr : lookup "transform" kvs with
    | none => simp [htr] at h
    | some tr =>
      simp only [htr] at h
      cases hex : excluded kvs tr with
      | none => simp [hex] at h
      | some b =>
        cases b with
        | true => simp [hex] at h; exact Or.inl h
        | false =>
          simp only [hex] at h
          cases hid : lookup "id" kvs with
          | none => simp [hid] at h
          | some i => simp [hid] at h; exact Or.inr ⟨i, h.symm, rfl⟩
  · simp only [ht] at h
    simp at h
    exact Or.inl h

/-- the id a value contributes, if any -/
def jacIdOf [CliNum ν] (v : Json ν) : Option (Json ν) :=
  match entryOf v with
  | some [i] => some i
  | _ => none

theorem collect_eq_filterMap [CliNum ν] :
    ∀ (vs : List (Json ν)) (ids : List (Json ν)), collect vs = some ids → ids = vs.filterMap jacIdOf := by
  intro vs
  induction vs with
  | nil => intro ids h; simp [collect] at h; simp [h]
  | cons v vs ih =>
    intro ids h
    simp only [collect] at h
    cases he : entryOf v with
    | none => simp [he] at h
    | some l =>
      cases hc : collect vs with
      | none => simp [he, hc] at h
      | some r =>
        simp only [he, hc, Option.some.injEq] at h
        subst h
        have hr := ih r hc
        have hshape : l = [] ∨ ∃ i, l = [i] := by
          cases v with
          | obj kvs =>
            rcases tpEntry_shape kvs l (by simpa [entryOf] using he) with h1 | ⟨i, h1, _⟩
            · exact Or.inl h1
            · exact Or.inr ⟨i, h1⟩
          | _ => simp [entryOf] at he; exact Or.inl he
        rcases hshape with h1 | ⟨i, h1⟩
        · subst h1
          simp [jacIdOf, he, hr]
        · subst h1
          simp [jacIdOf, he, hr]

mutual
theorem createJacobians_eq_collect [CliNum ν] :
    ∀ j : Json ν, createJacobians j = collect (subvalues j)
  | .arr xs => by
    simp only [createJacobians, subvalues, collect, entryOf]
    rw [cjList_eq_collect xs]
    cases collect (subvaluesList xs) <;> simp
  | .obj kvs => by
    simp only [createJacobians, subvalues, collect, entryOf]
    rw [cjFields_eq_collect kvs]
  | .null => by simp [createJacobians, subvalues, collect, entryOf]
  | .bool _ => by simp [createJacobians, subvalues, collect, entryOf]
  | .num _ => by simp [createJacobians, subvalues, collect, entryOf]
  | .str _ => by simp [createJacobians, subvalues, collect, entryOf]
theorem cjList_eq_collect [CliNum ν] :
    ∀ xs : List (Json ν), cjList xs = collect (subvaluesList xs)
  | [] => by simp [cjList, subvaluesList, collect]
  | x :: xs => by
    simp only [cjList, subvaluesList, collect_append]
    rw [createJacobians_eq_collect x, cjList_eq_collect xs]
    cases collect (subvalues x) <;> cases collect (subvaluesList xs) <;> rfl
theorem cjFields_eq_collect [CliNum ν] :
    ∀ kvs : List (String × Json ν), cjFields kvs = collect (subvaluesFields kvs)
  | [] => by simp [cjFields, subvaluesFields, collect]
  | (k, v) :: rest => by
    simp only [cjFields, subvaluesFields, collect_append]
    rw [createJacobians_eq_collect v, cjFields_eq_collect rest]
    cases collect (subvalues v) <;> cases collect (subvaluesFields rest) <;> rfl
end

/-! ## dict updates -/

theorem lookup_setKey_same (k : String) (v : Json ν) (kvs : List (String × Json ν)) :
    lookup k (setKey k v kvs) = some v := by
  induction kvs with
  | nil => simp [setKey, lookup]
  | cons e rest ih =>
    rcases e with ⟨k', v'⟩
    by_cases h : k' = k <;> simp [setKey, lookup, h, ih]

theorem lookup_setKey_ne (k k2 : String) (v : Json ν) (kvs : List (String × Json ν)) (h : k2 ≠ k) :
    lookup k2 (setKey k v kvs) = lookup k2 kvs := by
  induction kvs with
  | nil => simp [setKey, lookup, Ne.symm h]
  | cons e rest ih =>
    rcases e with ⟨k', v'⟩
    by_cases h1 : k' = k
    · subst h1
      simp [setKey, lookup, Ne.symm h]
    · by_cases h2 : k' = k2
      · subst h2; simp [setKey, lookup, h1]
      · simp [setKey, lookup, h1, h2, ih]

theorem lookup_delKey_ne (k k2 : String) (kvs : List (String × Json ν)) (h : k2 ≠ k) :
    lookup k2 (delKey k kvs) = lookup k2 kvs := by
  induction kvs with
  | nil => simp [delKey, lookup]
  | cons e rest ih =>
    rcases e with ⟨k', v'⟩
    by_cases h1 : k' = k
    · subst h1
      simp [delKey, lookup, Ne.symm h]
    · by_cases h2 : k' = k2
      · subst h2; simp [delKey, lookup, h1]
      · simp [delKey, lookup, h1, h2, ih]

/-- assigning a key twice keeps the position of the first assignment and the value of the second -/
theorem setKey_setKey (k : String) (v w : Json ν) (kvs : List (String × Json ν)) :
    setKey k w (setKey k v kvs) = setKey k w kvs := by
  induction kvs with
  | nil => simp [setKey]
  | cons e rest ih =>
    rcases e with ⟨k', v'⟩
    by_cases h : k' = k <;> simp [setKey, h, ih]

/-! ## `list.remove` -/

theorem listRemove_sublist (s : String) : ∀ (l l' : List (Json ν)), listRemove s l = some l' → l'.Sublist l := by
  intro l
  induction l with
  | nil => intro l' h; simp [listRemove] at h
  | cons x xs ih =>
    intro l' h
    simp only [listRemove] at h
    split at h
    · cases h; exact List.sublist_cons_self x xs
    · cases hr : listRemove s xs with
      | none => simp [hr] at h
      | some r => simp [hr] at h; subst h; exact (ih r hr).cons_cons x

/-- on a duplicate-free list, removing `s` leaves exactly the other elements -/
theorem mem_listRemove (s : String) : ∀ (l l' : List (Json ν)), l.Nodup → listRemove s l = some l' →
    ∀ x, x ∈ l' ↔ (x ∈ l ∧ isStr s x = false) := by
  intro l
  induction l with
  | nil => intro l' _ h; simp [listRemove] at h
  | cons y ys ih =>
    intro l' hnd h x
    simp only [listRemove] at h
    have hnd' := List.nodup_cons.mp hnd
    by_cases hy : isStr s y = true
    · simp only [hy, if_true, Option.some.injEq] at h
      subst h
      have hys : y = str s := by
        cases y <;> simp [isStr] at hy
        subst hy; rfl
      constructor
      · intro hx
        refine ⟨List.mem_cons_of_mem _ hx, ?_⟩
        cases hxs : isStr s x with
        | false => rfl
        | true =>
          have : x = str s := by
            cases x <;> simp [isStr] at hxs
            subst hxs; rfl
          subst this; subst hys
          exact absurd hx hnd'.1
      · rintro ⟨hx, hxs⟩
        rcases List.mem_cons.mp hx with rfl | hx
        · rw [hy] at hxs; cases hxs
        · exact hx
    · have hy' : isStr s y = false := by simpa using hy
      simp only [hy', Bool.false_eq_true, if_false] at h
      cases hr : listRemove s ys with
      | none => simp [hr] at h
      | some r =>
        simp [hr] at h; subst h
        have := ih r hnd'.2 hr x
        constructor
        · intro hx
          rcases List.mem_cons.mp hx with rfl | hx
          · exact ⟨List.mem_cons_self, hy'⟩
          · exact ⟨List.mem_cons_of_mem _ (this.mp hx).1, (this.mp hx).2⟩
        · rintro ⟨hx, hxs⟩
          rcases List.mem_cons.mp hx with rfl | hx
          · exact List.mem_cons_self
          · exact List.mem_cons_of_mem _ (this.mpr ⟨hx, hxs⟩)

/-! ## the Parameter literals a walker reaches (it does not descend into a Parameter literal) -/

mutual
def topParams : Json ν → List (List (String × Json ν))
  | .arr xs => topParamsList xs
  | .obj kvs => if strIs "Parameter" (lookup "type" kvs) then [kvs] else topParamsFields kvs
  | _ => []
def topParamsList : List (Json ν) → List (List (String × Json ν))
  | [] => []
  | x :: xs => topParams x ++ topParamsList xs
def topParamsFields : List (String × Json ν) → List (List (String × Json ν))
  | [] => []
  | (_, v) :: rest => topParams v ++ topParamsFields rest
end

mutual
/-- replace every reached Parameter literal by its image under `f`, leave everything else as it is -/
def mapTop (f : List (String × Json ν) → Json ν) : Json ν → Json ν
  | .arr xs => .arr (mapTopList f xs)
  | .obj kvs => if strIs "Parameter" (lookup "type" kvs) then f kvs else .obj (mapTopFields f kvs)
  | j => j
def mapTopList (f : List (String × Json ν) → Json ν) : List (Json ν) → List (Json ν)
  | [] => []
  | x :: xs => mapTop f x :: mapTopList f xs
def mapTopFields (f : List (String × Json ν) → Json ν) : List (String × Json ν) → List (String × Json ν)
  | [] => []
  | (k, v) :: rest => (k, mapTop f v) :: mapTopFields f rest
end

end TT.C19
