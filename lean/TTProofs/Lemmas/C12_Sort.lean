import TTModel.C12_Models
import TTProofs.Lemmas.C08_Lists
import Mathlib.Topology.Order.Basic
import Mathlib.Topology.Algebra.Order.Field
import Mathlib.Topology.Instances.Real.Lemmas
/-!
# C12 — the sort of the coalescent models is locally constant away from ties

`sortEvents` (the model of `argsort` + `gather`) commutes with every map of the events that
preserves the comparisons the sort makes.  Moving ONE height that is tied with no other event
time, by less than the distance to its neighbours, is such a map: the sorted marks do not change
and the sorted times change in exactly one position.
-/
namespace TT.C12
open TT.C08

theorem insertEv_map (f : Ev ℝ → Ev ℝ) (e : Ev ℝ) :
    ∀ L : List (Ev ℝ), (∀ x ∈ L, ((f e).t ≤ (f x).t ↔ e.t ≤ x.t)) →
      insertEv (f e) (L.map f) = (insertEv e L).map f
  | [], _ => rfl
  | x :: xs, h => by
    have hx := h x (by simp)
    have ih := insertEv_map f e xs (fun y hy => h y (List.mem_cons_of_mem _ hy))
    simp only [List.map_cons, insertEv]
    by_cases hle : e.t ≤ x.t
    · rw [if_pos hle, if_pos (hx.2 hle)]; simp
    · rw [if_neg hle, if_neg (fun h' => hle (hx.1 h'))]; simp [ih]

theorem sortEvents_map (f : Ev ℝ → Ev ℝ) :
    ∀ l : List (Ev ℝ), (∀ a ∈ l, ∀ b ∈ l, ((f a).t ≤ (f b).t ↔ a.t ≤ b.t)) →
      sortEvents (l.map f) = (sortEvents l).map f
  | [], _ => rfl
  | e :: es, h => by
    have ih := sortEvents_map f es (fun a ha b hb => h a (List.mem_cons_of_mem _ ha) b (List.mem_cons_of_mem _ hb))
    simp only [List.map_cons, sortEvents]
    rw [ih]
    apply insertEv_map
    intro x hx
    have : x ∈ es := (sortEvents_perm es).mem_iff.mp hx
    exact h e (by simp) x (List.mem_cons_of_mem _ this)

/-- move the events at time `h` to time `t` -/
noncomputable def bump (h t : ℝ) (e : Ev ℝ) : Ev ℝ := if e.t = h then ⟨t, e.mark⟩ else e

@[simp] theorem bump_mark (h t : ℝ) (e : Ev ℝ) : (bump h t e).mark = e.mark := by
  unfold bump; split <;> rfl

theorem bump_t (h t : ℝ) (e : Ev ℝ) : (bump h t e).t = if e.t = h then t else e.t := by
  unfold bump; split <;> rfl

/-- `t` lies on the same side of every other event time as `h` does -/
def SameSide (l : List (Ev ℝ)) (h t : ℝ) : Prop :=
  ∀ a ∈ l, a.t ≠ h → (a.t < h ∧ a.t < t) ∨ (h < a.t ∧ t < a.t)

theorem bump_preserves (l : List (Ev ℝ)) (h t : ℝ) (hs : SameSide l h t) :
    ∀ a ∈ l, ∀ b ∈ l, ((bump h t a).t ≤ (bump h t b).t ↔ a.t ≤ b.t) := by
  intro a ha b hb
  rw [bump_t, bump_t]
  by_cases ha' : a.t = h <;> by_cases hb' : b.t = h
  · simp [ha', hb']
  · simp only [ha', hb', if_true, if_false]
    rcases hs b hb hb' with ⟨h1, h2⟩ | ⟨h1, h2⟩
    · constructor <;> intro h3 <;> linarith
    · constructor <;> intro _ <;> linarith
  · simp only [ha', hb', if_true, if_false]
    rcases hs a ha ha' with ⟨h1, h2⟩ | ⟨h1, h2⟩
    · constructor <;> intro _ <;> linarith
    · constructor <;> intro h3 <;> linarith
  · simp [ha', hb']

/-- near `h`, every `t` is on the same side as `h` of all the other event times -/
theorem eventually_sameSide (l : List (Ev ℝ)) (h : ℝ) : ∀ᶠ t in nhds h, SameSide l h t := by
  induction l with
  | nil => exact Filter.Eventually.of_forall fun t a ha => by simp at ha
  | cons e es ih =>
    by_cases he : e.t = h
    · filter_upwards [ih] with t ht a ha hne
      rcases List.mem_cons.mp ha with rfl | ha
      · exact absurd he hne
      · exact ht a ha hne
    · rcases lt_or_gt_of_ne he with hlt | hgt
      · filter_upwards [ih, lt_mem_nhds hlt] with t ht hlt' a ha hne
        rcases List.mem_cons.mp ha with rfl | ha
        · exact Or.inl ⟨hlt, hlt'⟩
        · exact ht a ha hne
      · filter_upwards [ih, gt_mem_nhds hgt] with t ht hgt' a ha hne
        rcases List.mem_cons.mp ha with rfl | ha
        · exact Or.inr ⟨hgt, hgt'⟩
        · exact ht a ha hne

/-- **stability of the sort**: bumping commutes with `sortEvents` when `t` stays on the same side -/
theorem sortEvents_bump (l : List (Ev ℝ)) (h t : ℝ) (hs : SameSide l h t) :
    sortEvents (l.map (bump h t)) = (sortEvents l).map (bump h t) :=
  sortEvents_map (bump h t) l (bump_preserves l h t hs)

/-! ### changing one height is a bump when that height is tied with nothing -/

theorem mkEvents_set (heights grid : List ℝ) (i : Nat) (hi : i < heights.length) (t : ℝ)
    (hu : ∀ k (hk : k < heights.length), k ≠ i → heights[k] ≠ heights[i])
    (hg : ∀ g ∈ grid, g ≠ heights[i]) :
    mkEvents (heights.set i t) grid = (mkEvents heights grid).map (bump heights[i] t) := by
  have htc : taxaCount (heights.set i t) = taxaCount heights := by simp [taxaCount]
  unfold mkEvents
  rw [htc, List.map_append]
  congr 1
  · apply List.ext_getElem
    · simp
    · intro k h1 h2
      have hk1 : k < heights.length := by
        simp only [List.length_zipWith, List.length_set] at h1; omega
      simp only [List.getElem_zipWith, List.getElem_map, List.getElem_set]
      by_cases hk : i = k
      · subst hk
        simp [bump]
      · have := hu k hk1 (Ne.symm hk)
        simp [hk, bump, this]
  · rw [List.map_map]
    apply List.map_congr_left
    intro g hgm
    simp [bump, hg g hgm]

/-- the times of a bumped list: the entries equal to `h` become `t` -/
theorem times_map_bump (l : List (Ev ℝ)) (h t : ℝ) :
    times (l.map (bump h t)) = (times l).map fun s => if s = h then t else s := by
  simp [times, List.map_map, Function.comp_def, bump_t]

theorem marks_map_bump (l : List (Ev ℝ)) (h t : ℝ) : marks (l.map (bump h t)) = marks l := by
  simp [marks, List.map_map, Function.comp_def]

/-- if `h` occurs exactly at position `j`, substituting `t` for `h` is `set j t` -/
theorem map_subst_eq_set (l : List ℝ) (h t : ℝ) (j : Nat) (hj : j < l.length) (hjh : l[j] = h)
    (hu : ∀ k (hk : k < l.length), k ≠ j → l[k] ≠ h) :
    (l.map fun s => if s = h then t else s) = l.set j t := by
  apply List.ext_getElem
  · simp
  · intro k h1 h2
    simp only [List.getElem_map, List.getElem_set]
    have hk : k < l.length := by simpa using h1
    by_cases hkj : j = k
    · subst hkj; simp [hjh]
    · simp [hkj, hu k hk (Ne.symm hkj)]


/-! ### uniqueness of the moved time in the sorted list -/

theorem count_le_one_of_unique (l : List ℝ) (i : Nat) (hi : i < l.length)
    (hu : ∀ k (hk : k < l.length), k ≠ i → l[k] ≠ l[i]) : l.count l[i] ≤ 1 := by
  by_contra hc
  have h2 : 2 ≤ l.count l[i] := by omega
  obtain ⟨n, m, hnm, hn, hm⟩ := List.duplicate_iff_exists_distinct_get.mp
    (List.duplicate_iff_two_le_count.mpr h2)
  by_cases hni : n.val = i
  · have : m.val ≠ i := by omega
    exact hu m.val m.isLt this (by simpa using hm.symm)
  · exact hu n.val n.isLt hni (by simpa using hn.symm)

theorem unique_index_of_count_le_one (l : List ℝ) (h : ℝ) (hc : l.count h ≤ 1) (j : Nat) (hj : j < l.length)
    (hjh : l[j] = h) : ∀ k (hk : k < l.length), k ≠ j → l[k] ≠ h := by
  intro k hk hkj hkh
  have : 2 ≤ l.count h := by
    apply List.duplicate_iff_two_le_count.mp
    rcases Nat.lt_or_gt_of_ne hkj with hlt | hgt
    · exact List.duplicate_iff_exists_distinct_get.mpr ⟨⟨k, hk⟩, ⟨j, hj⟩, hlt, by simp [hkh], by simp [hjh]⟩
    · exact List.duplicate_iff_exists_distinct_get.mpr ⟨⟨j, hj⟩, ⟨k, hk⟩, hgt, by simp [hjh], by simp [hkh]⟩
  omega

theorem times_zipWith_sublist : ∀ (hs : List ℝ) (ms : List Int),
    ((List.zipWith (fun h m => (⟨h, m⟩ : Ev ℝ)) hs ms).map (·.t)).Sublist hs
  | [], _ => by simp
  | _ :: _, [] => by simp
  | h :: hs, m :: ms => by
    simp only [List.zipWith_cons_cons, List.map_cons]
    exact (times_zipWith_sublist hs ms).cons_cons h

theorem count_times_mkEvents_le (heights grid : List ℝ) (h : ℝ) (hg : ∀ g ∈ grid, g ≠ h) :
    (times (mkEvents heights grid)).count h ≤ heights.count h := by
  unfold times mkEvents
  rw [List.map_append, List.count_append]
  have h0 : List.count h (List.map (fun x : Ev ℝ => x.t) (List.map (fun g => (⟨g, 0⟩ : Ev ℝ)) grid)) = 0 := by
    rw [List.count_eq_zero]
    intro hm
    simp only [List.map_map, List.mem_map, Function.comp] at hm
    obtain ⟨g, hgm, rfl⟩ := hm
    exact hg g hgm rfl
  rw [h0, Nat.add_zero]
  exact (times_zipWith_sublist heights _).count_le h

/-- **Away from ties the sorted structure is locally constant**: if `heights[i]` is tied with no
other height and no grid point, and `t` stays on the same side of every other event time, then
after replacing `heights[i]` by `t` the sorted marks are unchanged and the sorted times change
exactly at the position `j` that held `heights[i]`. -/
theorem sorted_after_set (heights grid : List ℝ) (i : Nat) (hi : i < heights.length) (t : ℝ)
    (hu : ∀ k (hk : k < heights.length), k ≠ i → heights[k] ≠ heights[i])
    (hg : ∀ g ∈ grid, g ≠ heights[i])
    (hs : SameSide (mkEvents heights grid) heights[i] t)
    (j : Nat) (hj : j < (times (sortEvents (mkEvents heights grid))).length)
    (hjt : (times (sortEvents (mkEvents heights grid)))[j] = heights[i]) :
    marks (sortEvents (mkEvents (heights.set i t) grid)) = marks (sortEvents (mkEvents heights grid)) ∧
    times (sortEvents (mkEvents (heights.set i t) grid)) = (times (sortEvents (mkEvents heights grid))).set j t := by
  rw [mkEvents_set heights grid i hi t hu hg, sortEvents_bump _ _ _ hs, marks_map_bump, times_map_bump]
  refine ⟨rfl, map_subst_eq_set _ _ _ j hj hjt ?_⟩
  apply unique_index_of_count_le_one _ _ _ j hj hjt
  have hperm : (times (sortEvents (mkEvents heights grid))).Perm (times (mkEvents heights grid)) :=
    (sortEvents_perm _).map _
  rw [hperm.count_eq]
  exact (count_times_mkEvents_le heights grid _ hg).trans (count_le_one_of_unique heights i hi hu)

theorem eventually_sorted_after_set (heights grid : List ℝ) (i : Nat) (hi : i < heights.length)
    (hu : ∀ k (hk : k < heights.length), k ≠ i → heights[k] ≠ heights[i])
    (hg : ∀ g ∈ grid, g ≠ heights[i])
    (j : Nat) (hj : j < (times (sortEvents (mkEvents heights grid))).length)
    (hjt : (times (sortEvents (mkEvents heights grid)))[j] = heights[i]) :
    ∀ᶠ t in nhds heights[i],
      marks (sortEvents (mkEvents (heights.set i t) grid)) = marks (sortEvents (mkEvents heights grid)) ∧
      times (sortEvents (mkEvents (heights.set i t) grid))
        = (times (sortEvents (mkEvents heights grid))).set j t := by
  filter_upwards [eventually_sameSide (mkEvents heights grid) heights[i]] with t ht
  exact sorted_after_set heights grid i hi t hu hg ht j hj hjt

end TT.C12
