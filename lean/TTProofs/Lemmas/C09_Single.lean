import TTProofs.Lemmas.C09_Analytic
import TTProofs.Lemmas.C09_Discrete
/-! C09: the model evaluated with a single epoch (m = 1), list-sum helpers, link with Stadler's `c1, c2`. -/
open TT TT.C09
namespace TT.C09

theorem sumList_eq_sum (l : List ℝ) : sumList l = l.sum := by
  unfold sumList
  induction l with
  | nil => rfl
  | cons a l ih => simp [List.foldr, ih]

theorem ofNat_real (n : Nat) : (ofNat n : ℝ) = n := by
  induction n with
  | zero => simp [ofNat]
  | succ n ih => simp [ofNat, ih]

section single
variable (r : Rates ℝ) (t : Nat → ℝ) (T : ℝ) (h0 : t 0 = 0) (h1 : t 1 = T)
include h0 h1

theorem idxX_single (h : ℝ) (hpos : 0 < h) (hle : h ≤ T) : idxX t 1 (T - h) = 0 := by
  unfold idxX countLE
  have : List.range 2 = [0, 1] := by decide
  simp only [Nat.reduceAdd, this, List.filter_cons, h0, h1]
  have a1 : (0:ℝ) ≤ T - h := by linarith
  have a2 : ¬ T ≤ T - h := by linarith
  simp [a1, a2]

omit h0 h1 in
theorem idxY_single (y : ℝ) : idxY t 1 y = 0 := by
  unfold idxY; simp

theorem countEq_single (h : ℝ) (hlt : h < T) : (0 < countEq t 2 (T - h)) ↔ h = 0 := by
  unfold countEq
  have : List.range 2 = [0, 1] := by decide
  simp only [this, List.filter_cons, h0, h1]
  have a1 : ¬ (0:ℝ) = T - h := by intro e; linarith
  by_cases hh : h = 0
  · subst hh; split <;> simp
  · have a2 : ¬ T = T - h := by intro e; apply hh; linarith
    simp [a1, a2, hh]


theorem isRhoTip_single (h : ℝ) (hlt : h < T) :
    isRhoTip r t 1 (T - h) = decide (h = 0 ∧ 0 < r.rho 0) := by
  unfold isRhoTip
  rw [idxY_single]
  have := countEq_single t T h0 h1 h hlt
  simp only [Nat.reduceAdd]
  by_cases hc : 0 < countEq t 2 (T - h)
  · have hh := this.mp hc
    rw [decide_eq_true hc]; simp [hh]
  · have hh : ¬ h = 0 := fun e => hc (this.mpr e)
    rw [decide_eq_false hc]; simp [hh]

omit h0 h1 in
theorem pAt_single_one : pAt r t 1 1 = 1 := by
  unfold pAt; simp [pBack]

theorem pAt_single_zero : pAt r t 1 0 = pStep r 0 T 1 := by
  unfold pAt; simp [pBack, h0, h1]

omit h0 h1 in
theorem BAt_single : BAt r t 1 0 = Bcoef r 0 1 := by
  unfold BAt; rw [pAt_single_one]


omit h0 h1 in
theorem sum_zero_of_all (l : List ℝ) (f : ℝ → ℝ) (h : ∀ a ∈ l, f a = 0) : (l.map f).sum = 0 := by
  induction l with
  | nil => rfl
  | cons a l ih =>
      simp only [List.map_cons, List.sum_cons]
      rw [h a List.mem_cons_self, ih (fun b hb => h b (List.mem_cons_of_mem _ hb))]; simp

theorem logProb_single (surv : Bool) (tips ints : List ℝ) (hT : 0 < T)
    (hints : ∀ h ∈ ints, 0 < h ∧ h < T) (htips : ∀ h ∈ tips, 0 ≤ h ∧ h < T) :
    logProb r none t 1 surv tips ints =
      (Real.log (qv (Acoef r 0) (Bcoef r 0 1) T) - (if surv then Real.log (1 - pStep r 0 T 1) else 0))
      + (ints.map fun h => Real.log (r.lam 0) + Real.log (qv (Acoef r 0) (Bcoef r 0 1) h)).sum
      + (tips.map fun h => if h = 0 ∧ 0 < r.rho 0 then 0
          else Real.log (r.psi 0) - Real.log (qv (Acoef r 0) (Bcoef r 0 1) h)).sum
      + ((tips.filter (· = 0)).length : ℝ)
          * Real.log (if 0 < (tips.filter (· = 0)).length ∧ 0 < r.rho 0 then r.rho 0 else 1) := by
  unfold logProb
  simp only [h1, sumList_eq_sum, List.map_map, BAt_single, pAt_single_zero r t T h0 h1, logq_eq, trans_log_real,
    Nat.sub_self, List.range_zero, List.map_nil, List.sum_nil, add_zero, sub_zero]
  have hb : (ints.map ((fun x => Real.log (r.lam (idxX t 1 x)) +
        Real.log (qv (Acoef r (idxX t 1 x)) (BAt r t 1 (idxX t 1 x)) (t (idxX t 1 x + 1) - x))) ∘ fun h => T - h)).sum
      = (ints.map fun h => Real.log (r.lam 0) + Real.log (qv (Acoef r 0) (Bcoef r 0 1) h)).sum := by
    congr 1
    apply List.map_congr_left
    intro h hm
    have := hints h hm
    simp only [Function.comp, idxX_single t T h0 h1 h this.1 this.2.le, BAt_single, h1, sub_sub_cancel]
  have hs : (tips.map ((fun y => if isRhoTip r t 1 y = true then 0 else
        Real.log (r.psi (idxY t 1 y)) - Real.log (qv (Acoef r (idxY t 1 y)) (BAt r t 1 (idxY t 1 y)) (t (idxY t 1 y + 1) - y)))
          ∘ fun h => T - h)).sum
      = (tips.map fun h => if h = 0 ∧ 0 < r.rho 0 then 0
          else Real.log (r.psi 0) - Real.log (qv (Acoef r 0) (Bcoef r 0 1) h)).sum := by
    congr 1
    apply List.map_congr_left
    intro h hm
    have := htips h hm
    simp only [Function.comp, isRhoTip_single r t T h0 h1 h this.2, idxY_single, BAt_single, h1, decide_eq_true_eq,
      sub_sub_cancel]
  have hn : nAt t 0 (List.map (fun h => T - h) tips) = (tips.filter (· = 0)).length := by
    unfold nAt
    rw [List.filter_map, List.length_map]
    congr 1
    apply List.filter_congr
    intro h _
    simp only [Function.comp, h1]
    by_cases hh : h = 0
    · subst hh; simp
    · have : ¬ T - h = T := by intro e; apply hh; linarith
      simp [hh, this]
  have hany : (if ((List.map (fun h => T - h) tips).any fun y => !isRhoTip r t 1 y) = true then
        (tips.map ((fun y => if isRhoTip r t 1 y = true then 0 else
          Real.log (r.psi (idxY t 1 y)) - Real.log (qv (Acoef r (idxY t 1 y)) (BAt r t 1 (idxY t 1 y)) (t (idxY t 1 y + 1) - y)))
            ∘ fun h => T - h)).sum else 0)
      = (tips.map ((fun y => if isRhoTip r t 1 y = true then 0 else
          Real.log (r.psi (idxY t 1 y)) - Real.log (qv (Acoef r (idxY t 1 y)) (BAt r t 1 (idxY t 1 y)) (t (idxY t 1 y + 1) - y)))
            ∘ fun h => T - h)).sum := by
    split
    · rfl
    · rename_i hc
      symm
      apply sum_zero_of_all
      intro h hm
      simp only [Bool.not_eq_true, List.any_eq_false, List.mem_map, forall_exists_index, and_imp,
        forall_apply_eq_imp_iff₂, Bool.not_eq_eq_eq_not] at hc
      have hrt : isRhoTip r t 1 (T - h) = true := by
        have := hc h hm
        cases hv : isRhoTip r t 1 (T - h) <;> simp_all
      simp [Function.comp, hrt]
  rw [hany, hb, hs]
  simp only [List.range_one, List.map_cons, List.map_nil, List.sum_cons, List.sum_nil, add_zero, hn, ofNat_real]
  cases surv <;> simp <;> ring

end single

/-- `c1` of Stadler (2010) -/
noncomputable def c1 (lam mu psi : ℝ) : ℝ := |Real.sqrt ((lam - mu - psi) ^ 2 + 4 * lam * psi)|
/-- `c2` of Stadler (2010) -/
noncomputable def c2 (lam mu psi rho : ℝ) : ℝ := -(lam - mu - 2 * lam * rho - psi) / c1 lam mu psi

theorem Acoef_eq_c1 (r : Rates ℝ) : Acoef r 0 = c1 (r.lam 0) (r.mu 0) (r.psi 0) := by
  unfold Acoef c1
  simp only [trans_sqrt_real, four_real]
  rw [abs_of_nonneg (Real.sqrt_nonneg _), sq]

theorem Bcoef_eq_c2 (r : Rates ℝ) : Bcoef r 0 1 = c2 (r.lam 0) (r.mu 0) (r.psi 0) (r.rho 0) := by
  unfold Bcoef c2
  rw [Acoef_eq_c1]
  simp only [two_real]
  congr 1; ring

theorem log_prod_map (l : List ℝ) (f : ℝ → ℝ) (hf : ∀ a ∈ l, f a ≠ 0) :
    Real.log (l.map f).prod = (l.map fun a => Real.log (f a)).sum := by
  induction l with
  | nil => simp
  | cons a l ih =>
      have hl : ∀ b ∈ l, f b ≠ 0 := fun b hb => hf b (List.mem_cons_of_mem _ hb)
      have hp : (l.map f).prod ≠ 0 := by
        apply List.prod_ne_zero
        simp only [List.mem_map, not_exists, not_and]
        intro b hb e; exact hl b hb e
      simp only [List.map_cons, List.prod_cons, List.sum_cons]
      rw [Real.log_mul (hf a List.mem_cons_self) hp, ih hl]

theorem sum_ite_filter (l : List ℝ) (P : ℝ → Prop) [DecidablePred P] (f : ℝ → ℝ) :
    (l.map fun h => if P h then 0 else f h).sum = ((l.filter fun h => ¬ P h).map f).sum := by
  induction l with
  | nil => simp
  | cons a l ih =>
      by_cases hp : P a <;> simp [List.filter_cons, hp, ih]

theorem sum_map_const_add (l : List ℝ) (c : ℝ) (f : ℝ → ℝ) :
    (l.map fun h => c + f h).sum = l.length * c + (l.map f).sum := by
  induction l with
  | nil => simp
  | cons a l ih => simp only [List.map_cons, List.sum_cons, ih, List.length_cons, Nat.cast_add, Nat.cast_one]; ring


theorem length_filter_split (l : List ℝ) (P : ℝ → Prop) [DecidablePred P] :
    (l.filter fun h => ¬ P h).length + (l.filter fun h => P h).length = l.length := by
  induction l with
  | nil => simp
  | cons a l ih =>
      by_cases hp : P a <;> simp only [List.filter_cons, hp, not_true_eq_false, not_false_eq_true, decide_true,
        decide_false, ↓reduceIte, List.length_cons, Bool.false_eq_true] <;> omega

theorem sum_map_const_sub (l : List ℝ) (c : ℝ) (f : ℝ → ℝ) :
    (l.map fun h => c - f h).sum = l.length * c - (l.map f).sum := by
  induction l with
  | nil => simp
  | cons a l ih => simp only [List.map_cons, List.sum_cons, ih, List.length_cons, Nat.cast_add, Nat.cast_one]; ring

end TT.C09
