import TTModel.C12_CoalModels
import TTProofs.Lemmas.C12_Instances
/-!
# C12 (companion) — value and definedness lemmas of the builders `exponentialE`, `gintE`
-/
namespace TTProps.C12_Coalescent
open TT TT.C12 TT.C12.Expr TTProps.C12

theorem eval_ite (ρ : Nat → ℝ) (c : Prop) [Decidable c] (a b : Expr) :
    eval ρ (if c then a else b) = if c then eval ρ a else eval ρ b := by
  split <;> rfl

/-- value of the builder over the sorted events -/
theorem eval_exponentialE (ρ : Nat → ℝ) (θ g : Expr) (ts : List Expr) (marks : List Int) :
    eval ρ (exponentialE θ g ts marks) =
      -(List.zipWith (fun k d => (C08.choose2 k : ℝ) * (d / (eval ρ θ * eval ρ g))) (lineagesM marks)
          (C08.diffs ((ts.map (eval ρ)).map fun t => Real.exp (t * eval ρ g)))).sum
        - ((List.zipWith (fun (m : Int) t => if m = -1 then Real.log (eval ρ θ * Real.exp (-t * eval ρ g)) else (0 : ℝ))
            marks (ts.map (eval ρ))).tail).sum := by
  have h1 : C08.diffs ((ts.map (eval ρ)).map fun t => Real.exp (t * eval ρ g))
      = (diffsE (ts.map fun t => exp (mul t g))).map (eval ρ) := by
    rw [map_eval_diffsE, List.map_map, List.map_map]
    congr 1
  have h2 : (List.zipWith (fun (m : Int) t => if m = -1 then Real.log (eval ρ θ * Real.exp (-t * eval ρ g)) else (0 : ℝ))
        marks (ts.map (eval ρ)))
      = List.zipWith (fun (m : Int) t => eval ρ (if m = -1 then log (mul θ (exp (mul (neg t) g))) else nat 0))
          marks ts := by
    rw [List.zipWith_map_right]
    congr 1
    funext m t
    rw [eval_ite]
    simp [eval]
  rw [h1, h2, List.zipWith_map_right]
  simp only [exponentialE, eval, eval_sumL_real, List.map_zipWith, eval_choose2E, List.map_tail]

theorem defined_exponentialE (ρ : Nat → ℝ) (θ g : Expr) (ts : List Expr) (marks : List Int)
    (hθ : Defined ρ θ) (hg : Defined ρ g) (hθ0 : eval ρ θ ≠ 0) (hg0 : eval ρ g ≠ 0)
    (hts : ∀ e ∈ ts, Defined ρ e) :
    Defined ρ (exponentialE θ g ts marks) := by
  refine ⟨(defined_sumL _ _).2 (mem_zipWith fun k _ d hd => ?_), (defined_sumL _ _).2 ?_⟩
  · refine ⟨defined_choose2E ρ k, ?_, ⟨hθ, hg⟩, ?_⟩
    · refine defined_diffsE ρ _ ?_ d hd
      intro e he
      obtain ⟨t, ht, rfl⟩ := List.mem_map.mp he
      exact ⟨hts t ht, hg⟩
    · simp only [eval]; exact mul_ne_zero hθ0 hg0
  · intro e he
    have hall : ∀ b ∈ List.zipWith (fun (m : Int) t => if m = -1 then log (mul θ (exp (mul (neg t) g))) else nat 0)
        marks ts, Defined ρ b := by
      refine mem_zipWith fun m _ t ht => ?_
      split
      · refine ⟨⟨hθ, ⟨hts t ht, hg⟩⟩, ?_⟩
        simp only [eval, trans_exp_real]
        exact mul_ne_zero hθ0 (Real.exp_ne_zero _)
      · trivial
    exact hall e (List.mem_of_mem_tail he)

/-- `C(−N/2)·c + a·log b − lgA + lgAd − (a + N/2)·log(Σ sq/2 + b)`, the closed form of the gamma-integrated GMRF over
the squared first differences `[/ w]` (C12's `diffsRev` form) -/
noncomputable def gintClosed (x : List ℝ) (w : Option (List ℝ)) (c a b lgA lgAd : ℝ) : ℝ :=
  let sq := (diffsRev x).map fun d => d * d
  let sq := match w with
    | none => sq
    | some w => List.zipWith (fun a b => a / b) sq w
  (-((x.length - 1 : ℕ) : ℝ) / 2 * c + a * Real.log b - lgA + lgAd)
    - (a + ((x.length - 1 : ℕ) : ℝ) / 2) * Real.log (sq.sum / 2 + b)

theorem eval_gintE (ρ : Nat → ℝ) (xs : List Expr) (ws : Option (List Expr)) (c a b lgA lgAd : Expr) :
    eval ρ (gintE xs ws c a b lgA lgAd) =
      gintClosed (xs.map (eval ρ)) (ws.map fun w => w.map (eval ρ)) (eval ρ c) (eval ρ a) (eval ρ b)
        (eval ρ lgA) (eval ρ lgAd) := by
  cases ws with
  | none =>
    simp only [gintE, gintClosed, eval, eval_sumL_real, Option.map_none, trans_log_real, List.length_map]
    rw [map_eval_sq]
    simp only [Nat.cast_ofNat]
  | some w =>
    simp only [gintE, gintClosed, eval, eval_sumL_real, Option.map_some, trans_log_real, List.length_map]
    have : (List.zipWith div ((diffsRevE xs).map fun d => mul d d) w).map (eval ρ)
        = List.zipWith (fun a b => a / b) ((diffsRev (xs.map (eval ρ))).map fun d => d * d) (w.map (eval ρ)) := by
      rw [List.map_zipWith, ← map_eval_sq, List.zipWith_map]
      rfl
    rw [this]
    simp only [Nat.cast_ofNat]

/-- the squared first differences `[/ w]` as expressions -/
def sqE (xs : List Expr) (ws : Option (List Expr)) : List Expr :=
  match ws with
  | none => (diffsRevE xs).map fun d => mul d d
  | some w => List.zipWith div ((diffsRevE xs).map fun d => mul d d) w

/-- value of the argument of the logarithm -/
theorem eval_gint_arg (ρ : Nat → ℝ) (xs : List Expr) (ws : Option (List Expr)) (b : Expr) :
    eval ρ (add (div (sumL (sqE xs ws)) (nat 2)) b)
      = (match ws.map (fun (w : List Expr) => w.map (eval ρ)) with
          | none => (diffsRev (xs.map (eval ρ))).map fun d => d * d
          | some w => List.zipWith (fun a b => a / b) ((diffsRev (xs.map (eval ρ))).map fun d => d * d) w).sum / 2
        + eval ρ b := by
  cases ws with
  | none =>
    simp only [sqE, eval, eval_sumL_real, Option.map_none]
    rw [map_eval_sq]
    simp only [Nat.cast_ofNat]
  | some w =>
    simp only [sqE, eval, eval_sumL_real, Option.map_some]
    have : (List.zipWith div ((diffsRevE xs).map fun d => mul d d) w).map (eval ρ)
        = List.zipWith (fun a b => a / b) ((diffsRev (xs.map (eval ρ))).map fun d => d * d) (w.map (eval ρ)) := by
      rw [List.map_zipWith, ← map_eval_sq, List.zipWith_map]
      rfl
    rw [this]
    simp only [Nat.cast_ofNat]

theorem defined_gintE (ρ : Nat → ℝ) (xs : List Expr) (ws : Option (List Expr)) (c a b lgA lgAd : Expr)
    (hx : ∀ e ∈ xs, Defined ρ e) (hc : Defined ρ c) (ha : Defined ρ a) (hb : Defined ρ b) (hb0 : eval ρ b ≠ 0)
    (hlA : Defined ρ lgA) (hlAd : Defined ρ lgAd)
    (hw : ∀ w, ws = some w → ∀ e ∈ w, Defined ρ e ∧ eval ρ e ≠ 0)
    (harg : eval ρ (add (div (sumL (sqE xs ws)) (nat 2)) b) ≠ 0) :
    Defined ρ (gintE xs ws c a b lgA lgAd) := by
  have hsq : ∀ e ∈ (diffsRevE xs).map (fun d => mul d d), Defined ρ e := by
    intro e he
    obtain ⟨d, hd, rfl⟩ := List.mem_map.mp he
    exact ⟨defined_diffsRevE ρ xs hx d hd, defined_diffsRevE ρ xs hx d hd⟩
  have hsum : Defined ρ (sumL (sqE xs ws)) := by
    cases ws with
    | none => exact (defined_sumL _ _).2 hsq
    | some w =>
      refine (defined_sumL _ _).2 (mem_zipWith fun a ha' b' hb' => ?_)
      exact ⟨hsq a ha', (hw w rfl b' hb').1, (hw w rfl b' hb').2⟩
  refine ⟨⟨⟨⟨⟨defined_div_nat2 _ _ trivial, hc⟩, ha, hb, hb0⟩, hlA⟩, hlAd⟩,
    ⟨ha, defined_div_nat2 _ _ trivial⟩, ⟨defined_div_nat2 _ _ ?_, hb⟩, ?_⟩
  · cases ws <;> exact hsum
  · cases ws <;> exact harg

end TTProps.C12_Coalescent
