import TTProofs.Lemmas.C09_ODEUnique
import TTProofs.Lemmas.C09_SplitEvents
import TTProofs.Lemmas.C09_Epochs
/-! C09: exact solutions of the master equations on all epochs equal the closed forms; the density assembled from them. -/
open TT TT.C09 Set
namespace TT.C09

/-- admissible rates on every epoch -/
def Admissible (r : Rates ℝ) (m : Nat) : Prop :=
  ∀ k, k < m → 0 < r.lam k ∧ 0 ≤ r.mu k ∧ 0 < r.psi k ∧ 0 ≤ r.rho k ∧ r.rho k ≤ 1

theorem denom_ne_zero_epoch (r : Rates ℝ) (t : Nat → ℝ) (m : Nat) (g : Grid t m) (hr : Admissible r m) (k : Nat) (hk : k < m) :
    ∀ d, 0 ≤ d → Real.exp (Acoef r k * d) * (1 + BAt r t m k) + (1 - BAt r t m k) ≠ 0 := by
  intro d hd
  obtain ⟨a, _, c, e, _⟩ := hr k hk
  have hp := pAt_mem_unit r t m g hr (m - (k + 1)) (k + 1) rfl
  have hB : -1 ≤ BAt r t m k := Bcoef_ge_neg_one r k _ (mul_pos a c) a.le hp.1 hp.2 e
  have hA := Acoef_pos r k (mul_pos a c)
  have := denom_ge_two (Acoef r k) (BAt r t m k) d hB (mul_nonneg hA.le hd)
  linarith

/-- a family of exact solutions of the master equation for `p`, one per epoch, in the distance to the end of the epoch,
glued by the boundary condition of the code: at the end of epoch `k` the value is `(1 − ρ_k)` times the value at the
start of epoch `k+1` (1 beyond the present) -/
structure MasterP (r : Rates ℝ) (t : Nat → ℝ) (m : Nat) (pt : Nat → ℝ → ℝ) : Prop where
  cont : ∀ k, k < m → ContinuousOn (pt k) (Icc 0 (t (k + 1) - t k))
  ode : ∀ k, k < m → ∀ d ∈ Ico 0 (t (k + 1) - t k),
    HasDerivWithinAt (pt k) (r.mu k - (r.lam k + r.mu k + r.psi k) * pt k d + r.lam k * (pt k d) ^ 2) (Ici d) d
  glue : ∀ k, k < m → pt k 0 = (1 - r.rho k) * (if k + 1 < m then pt (k + 1) (t (k + 1 + 1) - t (k + 1)) else 1)

/-- **by induction over the epochs**: exact solutions equal the closed forms on every epoch, and their values at the
start of each epoch are the `p[k]` of the code -/
theorem masterP_eq_closed (r : Rates ℝ) (t : Nat → ℝ) (m : Nat) (g : Grid t m) (hr : Admissible r m)
    (pt : Nat → ℝ → ℝ) (hp : MasterP r t m pt) :
    ∀ j k, m - k = j → k < m →
      EqOn (pt k) (fun d => pClosed (r.lam k) (r.mu k) (r.psi k) (Acoef r k) (BAt r t m k) d) (Icc 0 (t (k + 1) - t k))
      ∧ pt k (t (k + 1) - t k) = pAt r t m k := by
  intro j
  induction j using Nat.strong_induction_on with
  | _ j ih =>
    intro k hk hkm
    obtain ⟨a, b, c, e, f⟩ := hr k hkm
    have hΔ : 0 ≤ t (k + 1) - t k := by have := g k (k + 1) (by omega) (by omega); linarith
    have hnext : (if k + 1 < m then pt (k + 1) (t (k + 1 + 1) - t (k + 1)) else 1) = pAt r t m (k + 1) := by
      by_cases h1 : k + 1 < m
      · simp only [h1, ↓reduceIte]
        exact (ih (m - (k + 1)) (by omega) (k + 1) rfl h1).2
      · simp only [h1, ↓reduceIte]
        exact (pAt_end r t m (k + 1) (by omega)).symm
    have h0 : pt k 0 = pClosed (r.lam k) (r.mu k) (r.psi k) (Acoef r k) (BAt r t m k) 0 := by
      rw [hp.glue k hkm, hnext]
      exact (pClosed_zero r k _ (Acoef_pos r k (mul_pos a c)).ne' a.ne').symm
    have heq := riccati_unique (r.lam k) (r.mu k) (r.psi k) (Acoef r k) (BAt r t m k) (t (k + 1) - t k) a.ne'
      (Acoef_sq r k (mul_pos a c).le) (denom_ne_zero_epoch r t m g hr k hkm) (pt k) (hp.cont k hkm) (hp.ode k hkm) h0
    refine ⟨heq, ?_⟩
    rw [heq ⟨hΔ, le_rfl⟩, pAt_step r t m k hkm, pStep_eq_pClosed]
    rfl

/-- exact branch factors: on each epoch the solution of the linear master equation along `pt k`, normalised to 1 at the
end of the epoch -/
structure MasterG (r : Rates ℝ) (t : Nat → ℝ) (m : Nat) (pt gt : Nat → ℝ → ℝ) : Prop where
  cont : ∀ k, k < m → ContinuousOn (gt k) (Icc 0 (t (k + 1) - t k))
  ode : ∀ k, k < m → ∀ d ∈ Ico 0 (t (k + 1) - t k),
    HasDerivWithinAt (gt k) (-(r.lam k + r.mu k + r.psi k - 2 * r.lam k * pt k d) * gt k d) (Ici d) d
  norm : ∀ k, k < m → gt k 0 = 1

theorem masterG_eq_closed (r : Rates ℝ) (t : Nat → ℝ) (m : Nat) (g : Grid t m) (hr : Admissible r m)
    (pt gt : Nat → ℝ → ℝ) (hp : MasterP r t m pt) (hg : MasterG r t m pt gt) (k : Nat) (hk : k < m) :
    EqOn (gt k) (fun d => qv (Acoef r k) (BAt r t m k) d) (Icc 0 (t (k + 1) - t k)) := by
  obtain ⟨a, _, c, _, _⟩ := hr k hk
  have hpe := (masterP_eq_closed r t m g hr pt hp (m - k) k rfl hk).1
  have := branch_unique (r.lam k) (r.mu k) (r.psi k) (Acoef r k) (BAt r t m k) (t (k + 1) - t k) a.ne'
    (Acoef_sq r k (mul_pos a c).le) (denom_ne_zero_epoch r t m g hr k hk) (gt k) 1 (hg.cont k hk)
    (fun d hd => by
      have h1 := hg.ode k hk d hd
      rw [hpe ⟨hd.1, hd.2.le⟩] at h1
      exact h1) (hg.norm k hk)
  intro d hd
  rw [this hd]; simp

/-- contribution of epoch `k` to the log density ASSEMBLED FROM EXACT SOLUTIONS `gt` of the master equations:
* every lineage entering the epoch (1 at the origin, `n_k` at a later boundary) carries the factor `g_k` over the whole
  epoch;
* a birth at `x` in the epoch: rate `λ_k` and the factor `g_k` from `x` to the end of the epoch (one lineage more);
* a `ψ`-sampling at `y` in the epoch (its end included): rate `ψ_k`, and the lineage stops: `1 / g_k` from `y` on;
* each of the `n_{k+1}` lineages leaving the epoch unsampled: `1 − ρ_k`; each of the `N_k` tips sampled at its end: `ρ_k`. -/
noncomputable def masterEpochTerm (r : Rates ℝ) (t : Nat → ℝ) (m : Nat) (gt : Nat → ℝ → ℝ) (xs ys : List ℝ) (k : Nat) : ℝ :=
  (if k = 0 then 1 else (nCross t k xs ys : ℝ)) * Real.log (gt k (t (k + 1) - t k))
  + ((xs.filter fun x => idxX t m x = k).map fun x => Real.log (r.lam k) + Real.log (gt k (t (k + 1) - x))).sum
  + ((ys.filter fun y => idxY t m y = k ∧ isRhoTip r t m y = false).map fun y =>
      Real.log (r.psi k) - Real.log (gt k (t (k + 1) - y))).sum
  + (if k + 1 < m then (nCross t (k + 1) xs ys : ℝ) * Real.log (1 - r.rho k) else 0)
  + (nAt t k ys : ℝ) * Real.log (if 0 < nAt t k ys ∧ 0 < r.rho k then r.rho k else 1)

/-- the log density assembled from exact solutions: survival term `−log(1 − p_0(origin))` and the epochs -/
noncomputable def masterLogDensity (r : Rates ℝ) (t : Nat → ℝ) (m : Nat) (pt gt : Nat → ℝ → ℝ) (surv : Bool)
    (xs ys : List ℝ) : ℝ :=
  (if surv then -Real.log (1 - pt 0 (t 1 - t 0)) else 0) + ∑ k ∈ Finset.range m, masterEpochTerm r t m gt xs ys k

theorem masterEpochTerm_eq (r : Rates ℝ) (t : Nat → ℝ) (m : Nat) (g : Grid t m) (hr : Admissible r m)
    (pt gt : Nat → ℝ → ℝ) (hp : MasterP r t m pt) (hg : MasterG r t m pt gt) (xs ys : List ℝ)
    (hev : Events t m xs ys) (k : Nat) (hk : k < m) :
    masterEpochTerm r t m gt xs ys k = epochTerm r t m xs ys k := by
  have hq := masterG_eq_closed r t m g hr pt gt hp hg k hk
  have hΔ : 0 ≤ t (k + 1) - t k := by have := g k (k + 1) (by omega) (by omega); linarith
  unfold masterEpochTerm epochTerm
  have e1 : Real.log (gt k (t (k + 1) - t k)) = logq (Acoef r k) (BAt r t m k) (t k) (t (k + 1)) := by
    rw [logq_eq, hq ⟨hΔ, le_rfl⟩]
  have e2 : ((xs.filter fun x => idxX t m x = k).map fun x => Real.log (r.lam k) + Real.log (gt k (t (k + 1) - x)))
      = (xs.filter fun x => idxX t m x = k).map fun x => Real.log (r.lam k) + logq (Acoef r k) (BAt r t m k) x (t (k + 1)) := by
    apply List.map_congr_left
    intro x hx
    have hmem := List.mem_filter.mp hx
    have hxk : idxX t m x = k := of_decide_eq_true hmem.2
    have d := hev.1 x hmem.1
    have hin := (idxX_iff g x d.1 d.2 k hk).mp hxk
    rw [logq_eq, hq ⟨by linarith [hin.2], by linarith [hin.1]⟩]
  have e3 : ((ys.filter fun y => idxY t m y = k ∧ isRhoTip r t m y = false).map fun y =>
        Real.log (r.psi k) - Real.log (gt k (t (k + 1) - y)))
      = (ys.filter fun y => idxY t m y = k ∧ isRhoTip r t m y = false).map fun y =>
        Real.log (r.psi k) - logq (Acoef r k) (BAt r t m k) y (t (k + 1)) := by
    apply List.map_congr_left
    intro y hy
    have hmem := List.mem_filter.mp hy
    have hyk : idxY t m y = k := (of_decide_eq_true hmem.2).1
    have d := hev.2 y hmem.1
    have hin := (idxY_iff g y d.1 d.2 k hk).mp hyk
    rw [logq_eq, hq ⟨by linarith [hin.2], by linarith [hin.1]⟩]
  rw [e1, e2, e3]

end TT.C09
