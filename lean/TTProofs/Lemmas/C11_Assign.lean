import TTProofs.Lemmas.C11_Fire
import TTProofs.Lemmas.C11_Eval
/-! C11 helper lemmas: setters keep the cache-coherence invariant and never raise -/
namespace TT.C11
variable {V : Type} [Inhabited V]

/-- making flags dirtier never breaks the invariant -/
theorem Inv_dirtier (m : Machine) (F : Nat → List V → V) (s : State V) (fl' : Flags)
    (h : ∀ a b, s.flag a b = true → fl' a b = true) (hi : Inv m F s) :
    Inv m F { s with flag := fl' } := by
  intro c hc f hg hf
  have : s.flag (m.cellAt c).owner f = false := by
    cases hs : s.flag (m.cellAt c).owner f with
    | false => rfl
    | true => have := h _ _ hs; simp only at hf; rw [this] at hf; cases hf
  exact hi c hc f hg this

/-- after leaf cell `ℓ` (owned by node `i`) changed and `i`'s listeners were walked, every cell
whose fresh value changed has had a notification it is sensitive to processed by its owner -/
theorem changed_cov (m : Machine) (hwf : WF m) (hww : WellWired m) (F : Nat → List V → V)
    (leaf : Nat → V) (ℓ i : Nat) (v : V) (fl' : Flags)
    (hown : (m.cellAt ℓ).owner = i)
    (htop : ∀ l ∈ m.listeners i, Cov m fl' (m.emits i) l) :
    ∀ n c, c < n → c < m.nC → (m.cellAt c).leaf = false →
      freshF m F (upd leaf ℓ v) m.nC c ≠ freshF m F leaf m.nC c →
      ∃ k ∈ (m.cellAt c).kinds, Cov m fl' k (m.cellAt c).owner := by
  intro n
  induction n with
  | zero => intro c h; omega
  | succ n ih =>
    intro c hcn hc hnl hne
    rw [freshF_unfold m hwf F _ c hc, freshF_unfold m hwf F _ c hc] at hne
    simp only [hnl, Bool.false_eq_true, if_false] at hne
    -- some read differs
    have : ∃ r ∈ (m.cellAt c).reads,
        freshF m F (upd leaf ℓ v) m.nC r.1 ≠ freshF m F leaf m.nC r.1 := by
      apply Classical.byContradiction
      intro hno
      apply hne
      congr 1
      apply List.map_congr_left
      intro r hr
      apply Classical.byContradiction
      intro hx
      exact hno ⟨r, hr, hx⟩
    obtain ⟨r, hr, hrne⟩ := this
    have hrlt := hwf.reads_lt c hc r hr
    have hrC : r.1 < m.nC := by omega
    by_cases hrl : (m.cellAt r.1).leaf = true
    · -- the read is a leaf: it must be ℓ
      rw [freshF_unfold m hwf F _ r.1 hrC, freshF_unfold m hwf F _ r.1 hrC] at hrne
      simp only [hrl, if_true] at hrne
      have hrℓ : r.1 = ℓ := by
        apply Classical.byContradiction
        intro hx; apply hrne; simp [upd, hx]
      have hdiff : (m.cellAt r.1).owner ≠ (m.cellAt c).owner := by
        intro heq
        have := hwf.leaf_alone r.1 hrC hrl c hc heq.symm
        rw [this] at hnl; rw [hnl] at hrl; cases hrl
      have hw := hww.ext c hc r hr hdiff
      rw [hrℓ, hown] at hw
      exact ⟨m.emits i, hw.2, htop _ hw.1⟩
    · have hrl' : (m.cellAt r.1).leaf = false := by simpa using hrl
      obtain ⟨k', hk', hcov⟩ := ih r.1 (by omega) hrC hrl' hrne
      by_cases hsame : (m.cellAt r.1).owner = (m.cellAt c).owner
      · exact ⟨k', hww.own c hc r hr hsame k' hk', hsame ▸ hcov⟩
      · have hw := hww.ext c hc r hr hsame
        have hs := hww.sets r.1 hrC k' hk'
        exact ⟨_, hw.2, hcov.fwd _ hs.1 _ hw.1⟩

/-- **one leaf write followed by the notification walk keeps the invariant and does not raise** -/
theorem writeFire_spec (m : Machine) (hwf : WF m) (hww : WellWired m) (F : Nat → List V → V)
    (i ℓ : Nat) (v : V) (s : State V) (hi : i < m.nN)
    (_hℓ : ℓ < m.nC) (_hleaf : (m.cellAt ℓ).leaf = true) (hown : (m.cellAt ℓ).owner = i)
    (hinv : Inv m F s) :
    (writeFire m i ℓ v s).2 = false ∧ Inv m F (writeFire m i ℓ v s).1 := by
  have hnr : (fireL m m.nN (m.emits i) (m.listeners i) s.flag).2 = false := by
    apply fireL_noraise m hwf hww
    intro l hl
    have := hwf.lst_gt i hi l hl
    exact ⟨this.2, by omega, hww.noraise i hi l hl⟩
  refine ⟨hnr, ?_⟩
  have htop := fireL_cov m m.nN (m.emits i) (m.listeners i) s.flag hnr
  have hmono := fireL_mono m m.nN (m.emits i) (m.listeners i) s.flag
  intro c hc f hg hf
  simp only [writeFire] at hf ⊢
  have hold : s.flag (m.cellAt c).owner f = false := by
    cases hs : s.flag (m.cellAt c).owner f with
    | false => rfl
    | true => rw [hmono _ _ hs] at hf; cases hf
  rw [hinv c hc f hg hold]
  congr 1
  apply Classical.byContradiction
  intro hne
  have hnl : (m.cellAt c).leaf = false := by
    cases hl : (m.cellAt c).leaf with
    | false => rfl
    | true => have := hwf.leaf_plain c hc hl; rw [this] at hg; cases hg
  obtain ⟨k, hk, hcov⟩ := changed_cov m hwf hww F s.leaf ℓ i v _ hown htop (c + 1) c
    (by omega) hc hnl (fun h => hne h.symm)
  have := hcov.sets f ((hww.sets c hc k hk).2 f hg)
  rw [this] at hf; cases hf

theorem assignList_spec (m : Machine) (F : Nat → List V → V) (asg : Nat → State V → State V × Bool)
    (P : Nat → Prop) :
    ∀ (js : List Nat) (s : State V),
      (∀ j ∈ js, P j) → (∀ j, P j → ∀ s, Inv m F s → (asg j s).2 = false ∧ Inv m F (asg j s).1) →
      Inv m F s → (assignList asg js s).2 = false ∧ Inv m F (assignList asg js s).1 := by
  intro js
  induction js with
  | nil => intro s _ _ hi; exact ⟨rfl, hi⟩
  | cons j js ih =>
    intro s hP hasg hi
    have h1 := hasg j (hP j (List.mem_cons_self ..)) s hi
    simp only [assignList, h1.1, Bool.false_eq_true, if_false]
    exact ih _ (fun x hx => hP x (List.mem_cons_of_mem _ hx)) hasg h1.2

/-- **a `tensor` setter of any settable parameter keeps the invariant and does not raise** -/
theorem assignF_spec (m : Machine) (hwf : WF m) (hww : WellWired m) (F : Nat → List V → V)
    (v : Nat → V) :
    ∀ fuel j, j < m.nN → settable m fuel j = true → ∀ s, Inv m F s →
      (assignF m v fuel j s).2 = false ∧ Inv m F (assignF m v fuel j s).1 := by
  intro fuel
  induction fuel with
  | zero => intro j _ h; simp [settable] at h
  | succ fuel ih =>
    intro j hj hset s hi
    simp only [settable] at hset
    simp only [assignF]
    cases hs : (m.nodeAt j).setter with
    | none => simp [hs] at hset
    | leaf c =>
      obtain ⟨h1, h2, h3⟩ := hwf.set_leaf j hj c hs
      exact writeFire_spec m hwf hww F j c (v c) s hj h1 h2 h3 hi
    | view p pc =>
      obtain ⟨h0, h1, h2, h3⟩ := hwf.set_view j hj p pc hs
      exact writeFire_spec m hwf hww F p pc (v pc) s h0 h1 h2 h3 hi
    | trans x =>
      simp only [hs] at hset
      have := hwf.set_trans j hj x hs
      exact ih x (by omega) hset s hi
    | cat ch f =>
      simp only [hs, List.all_eq_true] at hset
      have hlt := hwf.set_cat j hj ch f hs
      have h := assignList_spec m F (assignF m v fuel) (fun x => x < m.nN ∧ settable m fuel x = true)
        ch s (fun x hx => ⟨by have := hlt x hx; omega, hset x hx⟩)
        (fun x hx s' hs' => ih x hx.1 hx.2 s' hs') hi
      simp only [h.1, Bool.false_eq_true, if_false]
      exact ⟨trivial, Inv_dirtier m F _ _ (fun a b hab => setFlags_mono _ _ _ _ _ hab) h.2⟩

end TT.C11
