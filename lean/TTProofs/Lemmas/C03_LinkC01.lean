import TTModel.C03_Rescale
import TTProofs.Lemmas.C03_Rescale
import TTModel.C01_Tree
import TTProofs.Lemmas.C01_Pruning
import TTProofs.Lemmas.C01_Tree
/-!
# C03 ↔ C01: the post-order produced by `setup_indexes` / `update_traversals` is well formed

C01 models `setup_indexes` (`setupIndexes`) and `update_traversals` (`postorder`) and proves that
the indexed tree is `WF n` (leaves `< n`, internal indices `≥ n`, pairwise distinct).  Here: every
such post-order satisfies the slot-bookkeeping predicate `TT.C03.wf n` that the C03 theorems assume
(each internal slot written once, used as a child exactly once, root last).
-/
namespace TT.C03

open TT.C01 (ITree postorder WF)

/-- slots produced and not yet consumed after the triples of `t` -/
def liveAfter : ITree → List Nat → List Nat
  | .leaf _, live => live
  | .node i _ _, live => i :: live

theorem idx_lt_or_ge {n : Nat} {t : ITree} (h : WF n t) :
    (t.idx < n ∧ liveAfter t = id) ∨ (n ≤ t.idx ∧ t.idx ∈ t.internals ∧ liveAfter t = fun l => t.idx :: l) := by
  cases t with
  | leaf i => exact Or.inl ⟨h.leaves_lt i (by simp [ITree.leaves]), rfl⟩
  | node i l r =>
    exact Or.inr ⟨h.internals_ge i (by simp [ITree.internals]), by simp [ITree.internals, ITree.idx], rfl⟩

theorem wfAux_cons_eq (T : Nat) (t : Triple) (ts : List Triple) (live done : List Nat) :
    wfAux T (t :: ts) live done =
      if decide (T ≤ t.1) && !done.contains t.1 && childOk T live t.2.1
          && childOk T (consume T live t.2.1) t.2.2 then
        wfAux T ts (t.1 :: consume T (consume T live t.2.1) t.2.2) (t.1 :: done)
      else none := rfl

theorem wfAux_postorder (n : Nat) : ∀ (t : ITree), WF n t → ∀ (rest : List Triple) (live done : List Nat),
    (∀ i ∈ t.internals, i ∉ done) →
    wfAux n (postorder t ++ rest) live done =
      wfAux n rest (liveAfter t live) (t.internals.reverse ++ done)
  | .leaf _, _, rest, live, done, _ => by simp [postorder, liveAfter, ITree.internals]
  | .node i l r, h, rest, live, done, hd => by
    have hl := h.left
    have hr := h.right
    have hdl : ∀ j ∈ l.internals, j ∉ done := fun j hj => hd j (by simp [ITree.internals, hj])
    have hdisj : ∀ j ∈ r.internals, j ∉ l.internals := by
      have := h.nodup
      simp only [ITree.internals] at this
      have h2 := (List.nodup_append.mp (List.nodup_append.mp this).1).2.2
      intro j hj hjl
      exact h2 j hjl j hj rfl
    have hdr : ∀ j ∈ r.internals, j ∉ l.internals.reverse ++ done := by
      intro j hj
      simp only [List.mem_append, List.mem_reverse, not_or]
      exact ⟨hdisj j hj, hd j (by simp [ITree.internals, hj])⟩
    have e : postorder (.node i l r) ++ rest =
        postorder l ++ (postorder r ++ ((i, l.idx, r.idx) :: rest)) := by
      simp [postorder, List.append_assoc]
    rw [e, wfAux_postorder n l hl _ live done hdl, wfAux_postorder n r hr _ _ _ hdr]
    -- the root triple
    have hi_ge : n ≤ i := h.internals_ge i (by simp [ITree.internals])
    have hi_nd : i ∉ r.internals.reverse ++ (l.internals.reverse ++ done) := by
      have := h.root_not_mem
      simp only [List.mem_append, List.mem_reverse, not_or]
      exact ⟨this.2, this.1, hd i (by simp [ITree.internals])⟩
    have hne : ∀ (_ : l.idx ∈ l.internals) (_ : r.idx ∈ r.internals), r.idx ≠ l.idx := by
      intro _ hrm e
      exact h.left_idx_not_mem_right (e ▸ hrm)
    rw [wfAux_cons_eq]
    show (if (decide (n ≤ i) && !(r.internals.reverse ++ (l.internals.reverse ++ done)).contains i &&
          childOk n (liveAfter r (liveAfter l live)) l.idx &&
          childOk n (consume n (liveAfter r (liveAfter l live)) l.idx) r.idx) = true then
        wfAux n rest (i :: consume n (consume n (liveAfter r (liveAfter l live)) l.idx) r.idx)
          (i :: (r.internals.reverse ++ (l.internals.reverse ++ done)))
      else none) = wfAux n rest (liveAfter (.node i l r) live) ((ITree.node i l r).internals.reverse ++ done)
    rcases idx_lt_or_ge hl with ⟨hll, hla⟩ | ⟨hlg, hlm, hla⟩ <;>
    rcases idx_lt_or_ge hr with ⟨hrl, hra⟩ | ⟨hrg, hrm, hra⟩
    · have c : (decide (n ≤ i) && !(r.internals.reverse ++ (l.internals.reverse ++ done)).contains i &&
          childOk n (liveAfter r (liveAfter l live)) l.idx &&
          childOk n (consume n (liveAfter r (liveAfter l live)) l.idx) r.idx) = true := by
        simp [hi_ge, hi_nd, childOk, hll, hrl]
      rw [if_pos c, hla, hra]
      simp only [liveAfter]
      simp [consume, hll, hrl, ITree.internals]
    · have hnr : ¬ r.idx < n := Nat.not_lt.mpr hrg
      have c : (decide (n ≤ i) && !(r.internals.reverse ++ (l.internals.reverse ++ done)).contains i &&
          childOk n (liveAfter r (liveAfter l live)) l.idx &&
          childOk n (consume n (liveAfter r (liveAfter l live)) l.idx) r.idx) = true := by
        simp [hi_ge, hi_nd, childOk, hll, consume, hla, hra]
      rw [if_pos c, hla, hra]
      simp only [liveAfter]
      simp [consume, hll, hnr, ITree.internals]
    · have hnl : ¬ l.idx < n := Nat.not_lt.mpr hlg
      have c : (decide (n ≤ i) && !(r.internals.reverse ++ (l.internals.reverse ++ done)).contains i &&
          childOk n (liveAfter r (liveAfter l live)) l.idx &&
          childOk n (consume n (liveAfter r (liveAfter l live)) l.idx) r.idx) = true := by
        simp [hi_ge, hi_nd, childOk, hrl, hla, hra]
      rw [if_pos c, hla, hra]
      simp only [liveAfter]
      simp [consume, hnl, hrl, ITree.internals]
    · have hnl : ¬ l.idx < n := Nat.not_lt.mpr hlg
      have hnr : ¬ r.idx < n := Nat.not_lt.mpr hrg
      have hne' := hne hlm hrm
      have c : (decide (n ≤ i) && !(r.internals.reverse ++ (l.internals.reverse ++ done)).contains i &&
          childOk n (liveAfter r (liveAfter l live)) l.idx &&
          childOk n (consume n (liveAfter r (liveAfter l live)) l.idx) r.idx) = true := by
        simp [hi_ge, hi_nd, childOk, hla, hra, consume, hnl, hne']
      rw [if_pos c, hla, hra]
      simp only [liveAfter]
      simp [consume, hnl, hnr, hne', ITree.internals]

/-- **every tree model's post-order meets the hypothesis `wf` of the C03 theorems**: for any binary
  tree with `≥ 1` internal node whose leaves are numbered below `n`, the triples listed by
  `update_traversals` after `setup_indexes` are a well-formed post-order with tips `< n` -/
theorem wf_postorder_setupIndexes (n : Nat) (l r : TT.C01.BTree)
    (hleaves : ∀ i ∈ (TT.C01.BTree.node l r).leaves, i < n) :
    wf n (postorder (TT.C01.setupIndexes n (.node l r))) = true := by
  have hwf := TT.C01.setupIndexes_WF n (.node l r) hleaves
  obtain ⟨i, il, ir, e⟩ := TT.C01.setupIndexes_node n l r
  rw [e] at hwf ⊢
  have h := wfAux_postorder n (.node i il ir) hwf [] [] [] (fun _ _ => by simp)
  simp only [List.append_nil, liveAfter] at h
  have hroot : rootOf (postorder (.node i il ir)) = i := by
    simp [rootOf, postorder]
  unfold wf
  rw [h, hroot]
  simp [wfAux]

end TT.C03

/-! ### the plain loop of C03 computes what C01's loop computes

C01 models `calculate_treelikelihood_discrete` for ONE site with `None` slots (`Option`); C03 for all
sites with total slots.  Whenever C01's loop succeeds (never reads `None`), its value at site `n` is
the C03 plain site value — so everything C01 / C12 prove about `TT.C01.siteLik` (equality with the
marginal over all labelings, derivative in a branch length) is a statement about `TT.C03.siteLik …
(peel …)`, and through `rescaled_eq_plain` / `hasDerivAt_rescaled_iff_plain` about the rescaled and
safe passes. -/
namespace TT.C03

section link
variable {F : Type} [Field F] {N K S : Nat}

/-- C01's `Option` list agrees at site `n` with the C03 list wherever it is set -/
def RelC01 (n : Fin N) (st1 : TT.C01.Store F K S) (st : Store F N K S) : Prop :=
  ∀ j v, st1 j = some v → ∀ k s, v k s = (st.get j).get n k s

theorem relC01_step (mats : Mats F K S) (n : Fin N) (st1 st1' : TT.C01.Store F K S) (st : Store F N K S)
    (t : Triple) (hR : RelC01 n st1 st) (h : TT.C01.peelStep mats st1 t = some st1') :
    RelC01 n st1' (peelStep 0 noTips mats st t) := by
  unfold TT.C01.peelStep at h
  split at h
  · rename_i pl pr hl hr
    simp only [Option.some.injEq] at h
    subst h
    intro j v hv k s
    unfold TT.C01.Store.set at hv
    unfold peelStep
    simp only [Store.get_set]
    by_cases hj : j = t.1
    · simp only [hj, if_true, Option.some.injEq] at hv
      subst hv
      simp only [hj, if_true, combine_get, contrib, Nat.not_lt_zero, if_false, TT.C01.Tab.get_ofFn,
        TT.C01.matVec]
      have e1 : (fun a => mats t.2.1 k s a * pl k a) = fun a => mats t.2.1 k s a * (st.get t.2.1).get n k a :=
        funext fun a => by rw [hR _ _ hl k a]
      have e2 : (fun a => mats t.2.2 k s a * pr k a) = fun a => mats t.2.2 k s a * (st.get t.2.2).get n k a :=
        funext fun a => by rw [hR _ _ hr k a]
      rw [e1, e2]
    · simp only [hj, if_false] at hv ⊢
      exact hR j v hv k s
  · cases h

theorem relC01_loop (mats : Mats F K S) (n : Fin N) :
    ∀ (ts : List Triple) (st1 st1' : TT.C01.Store F K S) (st : Store F N K S),
      RelC01 n st1 st → TT.C01.peelLoop mats ts st1 = some st1' → RelC01 n st1' (peel 0 noTips mats st ts)
  | [], st1, st1', st, hR, h => by
      simp only [TT.C01.peelLoop, Option.some.injEq] at h
      subst h; exact hR
  | t :: ts, st1, st1', st, hR, h => by
      unfold TT.C01.peelLoop at h
      split at h
      · rename_i st1'' hs
        exact relC01_loop mats n ts st1'' st1' _ (relC01_step mats n st1 st1'' st t hR hs) h
      · cases h

/-- **C03's plain site value is C01's `siteLik`** (for one site `n` of the C03 model) -/
theorem siteLik_eq_C01 (π : Fin S → F) (props : Fin K → F) (mats : Mats F K S) (ts : List Triple)
    (nT : Nat) (tips : Nat → Fin N → Fin S → F) (n : Fin N) (x : F)
    (h : TT.C01.siteLik π props mats ts nT (fun i s => tips i n s) = some x) :
    x = siteLik π props ((peel 0 noTips mats (tipStore tips) ts).get (rootOf ts)) n := by
  unfold TT.C01.siteLik TT.C01.rootPartial at h
  have hR0 : RelC01 n (TT.C01.tipStore (K := K) nT fun i s => tips i n s) (tipStore tips) := by
    intro j v hv k s
    unfold TT.C01.tipStore at hv
    split at hv
    · simp only [Option.some.injEq] at hv
      subst hv
      simp [tipStore]
    · cases hv
  split at h
  · rename_i st' last hloop hlast
    have hR := relC01_loop mats n ts _ st' (tipStore tips) hR0 hloop
    have hroot : rootOf ts = last.1 := by simp [rootOf, hlast]
    cases hv : st' last.1 with
    | none => simp [hv] at h
    | some v =>
      simp only [hv, Option.map_some, Option.some.injEq] at h
      subst h
      unfold TT.C01.rootSum siteLik
      rw [hroot]
      congr 1; funext s; congr 1; congr 1; funext k
      rw [hR _ v hv k s]
  · simp at h

end link

end TT.C03
