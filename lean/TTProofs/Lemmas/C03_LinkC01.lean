import TTModel.C03_Rescale
import TTModel.C01_Tree
import TTProofs.Lemmas.C01_Pruning
import TTProofs.Lemmas.C01_Tree
/-!
# C03 ↔ C01: the post-order produced by `setup_indexes` / `update_traversals` is well formed

C01 models `setup_indexes` (`setupIndexes`) and `update_traversals` (`postorder`) and proves that
the indexed tree is `WF n` (leaves `< n`, internal indices `≥ n`, pairwise distinct).  Here: every
such post-order satisfies the slot-bookkeeping predicate `TT.C03.wf n` that the C03 theorems assume
(each internal slot written once, used as a child exactly once, root last).
-/
namespace TT.C03

open TT.C01 (ITree postorder WF)

/-- slots produced and not yet consumed after the triples of `t` -/
def liveAfter : ITree → List Nat → List Nat
  | .leaf _, live => live
  | .node i _ _, live => i :: live

theorem idx_lt_or_ge {n : Nat} {t : ITree} (h : WF n t) :
    (t.idx < n ∧ liveAfter t = id) ∨ (n ≤ t.idx ∧ t.idx ∈ t.internals ∧ liveAfter t = fun l => t.idx :: l) := by
  cases t with
  | leaf i => exact Or.inl ⟨h.leaves_lt i (by simp [ITree.leaves]), rfl⟩
  | node i l r =>
    exact Or.inr ⟨h.internals_ge i (by simp [ITree.internals]), by simp [ITree.internals, ITree.idx], rfl⟩

theorem wfAux_cons_eq (T : Nat) (t : Triple) (ts : List Triple) (live done : List Nat) :
    wfAux T (t :: ts) live done =
      if decide (T ≤ t.1) && !done.contains t.1 && childOk T live t.2.1
          && childOk T (consume T live t.2.1) t.2.2 then
        wfAux T ts (t.1 :: consume T (consume T live t.2.1) t.2.2) (t.1 :: done)
      else none := rfl

theorem wfAux_postorder (n : Nat) : ∀ (t : ITree), WF n t → ∀ (rest : List Triple) (live done : List Nat),
    (∀ i ∈ t.internals, i ∉ done) →
    wfAux n (postorder t ++ rest) live done =
      wfAux n rest (liveAfter t live) (t.internals.reverse ++ done)
  | .leaf _, _, rest, live, done, _ => by simp [postorder, liveAfter, ITree.internals]
  | .node i l r, h, rest, live, done, hd => by
    have hl := h.left
    have hr := h.right
    have hdl : ∀ j ∈ l.internals, j ∉ done := fun j hj => hd j (by simp [ITree.internals, hj])
    have hdisj : ∀ j ∈ r.internals, j ∉ l.internals := by
      have := h.nodup
      simp only [ITree.internals] at this
      have h2 := (List.nodup_append.mp (List.nodup_append.mp this).1).2.2
      intro j hj hjl
      exact h2 j hjl j hj rfl
    have hdr : ∀ j ∈ r.internals, j ∉ l.internals.reverse ++ done := by
      intro j hj
      simp only [List.mem_append, List.mem_reverse, not_or]
      exact ⟨hdisj j hj, hd j (by simp [ITree.internals, hj])⟩
    have e : postorder (.node i l r) ++ rest =
        postorder l ++ (postorder r ++ ((i, l.idx, r.idx) :: rest)) := by
      simp [postorder, List.append_assoc]
    rw [e, wfAux_postorder n l hl _ live done hdl, wfAux_postorder n r hr _ _ _ hdr]
    -- the root triple
    have hi_ge : n ≤ i := h.internals_ge i (by simp [ITree.internals])
    have hi_nd : i ∉ r.internals.reverse ++ (l.internals.reverse ++ done) := by
      have := h.root_not_mem
      simp only [List.mem_append, List.mem_reverse, not_or]
      exact ⟨this.2, this.1, hd i (by simp [ITree.internals])⟩
    have hne : ∀ (_ : l.idx ∈ l.internals) (_ : r.idx ∈ r.internals), r.idx ≠ l.idx := by
      intro _ hrm e
      exact h.left_idx_not_mem_right (e ▸ hrm)
    rw [wfAux_cons_eq]
    show (if (decide (n ≤ i) && !(r.internals.reverse ++ (l.internals.reverse ++ done)).contains i &&
          childOk n (liveAfter r (liveAfter l live)) l.idx &&
          childOk n (consume n (liveAfter r (liveAfter l live)) l.idx) r.idx) = true then
        wfAux n rest (i :: consume n (consume n (liveAfter r (liveAfter l live)) l.idx) r.idx)
          (i :: (r.internals.reverse ++ (l.internals.reverse ++ done)))
      else none) = wfAux n rest (liveAfter (.node i l r) live) ((ITree.node i l r).internals.reverse ++ done)
    rcases idx_lt_or_ge hl with ⟨hll, hla⟩ | ⟨hlg, hlm, hla⟩ <;>
    rcases idx_lt_or_ge hr with ⟨hrl, hra⟩ | ⟨hrg, hrm, hra⟩
    · have c : (decide (n ≤ i) && !(r.internals.reverse ++ (l.internals.reverse ++ done)).contains i &&
          childOk n (liveAfter r (liveAfter l live)) l.idx &&
          childOk n (consume n (liveAfter r (liveAfter l live)) l.idx) r.idx) = true := by
        simp [hi_ge, hi_nd, childOk, hll, hrl]
      rw [if_pos c, hla, hra]
      simp only [liveAfter]
      simp [consume, hll, hrl, ITree.internals]
    · have hnr : ¬ r.idx < n := Nat.not_lt.mpr hrg
      have c : (decide (n ≤ i) && !(r.internals.reverse ++ (l.internals.reverse ++ done)).contains i &&
          childOk n (liveAfter r (liveAfter l live)) l.idx &&
          childOk n (consume n (liveAfter r (liveAfter l live)) l.idx) r.idx) = true := by
        simp [hi_ge, hi_nd, childOk, hll, consume, hla, hra]
      rw [if_pos c, hla, hra]
      simp only [liveAfter]
      simp [consume, hll, hnr, ITree.internals]
    · have hnl : ¬ l.idx < n := Nat.not_lt.mpr hlg
      have c : (decide (n ≤ i) && !(r.internals.reverse ++ (l.internals.reverse ++ done)).contains i &&
          childOk n (liveAfter r (liveAfter l live)) l.idx &&
          childOk n (consume n (liveAfter r (liveAfter l live)) l.idx) r.idx) = true := by
        simp [hi_ge, hi_nd, childOk, hrl, hla, hra]
      rw [if_pos c, hla, hra]
      simp only [liveAfter]
      simp [consume, hnl, hrl, ITree.internals]
    · have hnl : ¬ l.idx < n := Nat.not_lt.mpr hlg
      have hnr : ¬ r.idx < n := Nat.not_lt.mpr hrg
      have hne' := hne hlm hrm
      have c : (decide (n ≤ i) && !(r.internals.reverse ++ (l.internals.reverse ++ done)).contains i &&
          childOk n (liveAfter r (liveAfter l live)) l.idx &&
          childOk n (consume n (liveAfter r (liveAfter l live)) l.idx) r.idx) = true := by
        simp [hi_ge, hi_nd, childOk, hla, hra, consume, hnl, hne']
      rw [if_pos c, hla, hra]
      simp only [liveAfter]
      simp [consume, hnl, hnr, hne', ITree.internals]

/-- **every tree model's post-order meets the hypothesis `wf` of the C03 theorems**: for any binary
  tree with `≥ 1` internal node whose leaves are numbered below `n`, the triples listed by
  `update_traversals` after `setup_indexes` are a well-formed post-order with tips `< n` -/
theorem wf_postorder_setupIndexes (n : Nat) (l r : TT.C01.BTree)
    (hleaves : ∀ i ∈ (TT.C01.BTree.node l r).leaves, i < n) :
    wf n (postorder (TT.C01.setupIndexes n (.node l r))) = true := by
  have hwf := TT.C01.setupIndexes_WF n (.node l r) hleaves
  obtain ⟨i, il, ir, e⟩ := TT.C01.setupIndexes_node n l r
  rw [e] at hwf ⊢
  have h := wfAux_postorder n (.node i il ir) hwf [] [] [] (fun _ _ => by simp)
  simp only [List.append_nil, liveAfter] at h
  have hroot : rootOf (postorder (.node i il ir)) = i := by
    simp [rootOf, postorder]
  unfold wf
  rw [h, hroot]
  simp [wfAux]

end TT.C03
