import TTModel.C12_Models
import TTProofs.Lemmas.C12_Dual
/-!
# C12 — evaluation and definedness of the expression builders (helper lemmas)
-/
namespace TT.C12
open Expr

/-- `var k, var (k+1), …, var (k+n-1)` -/
def vars (k n : Nat) : List Expr := (List.range n).map fun j => var (k + j)

theorem vars_length (k n : Nat) : (vars k n).length = n := by simp [vars]

theorem defined_vars (ρ : Nat → ℝ) (k n : Nat) : ∀ e ∈ vars k n, Defined ρ e := by
  intro e he
  simp only [vars, List.mem_map] at he
  obtain ⟨j, _, rfl⟩ := he
  trivial

theorem map_eval_vars (ρ : Nat → ℝ) (k n : Nat) :
    (vars k n).map (eval ρ) = (List.range n).map fun j => ρ (k + j) := by
  simp [vars, eval, Function.comp_def]

/-- the environment `pre ++ l ++ …` read at the positions after `pre` returns `l` -/
theorem range_map_envOf_append (pre l : List ℝ) :
    ((List.range l.length).map fun j => envOf (pre ++ l) (pre.length + j)) = l := by
  apply List.ext_getElem
  · simp
  · intro i h1 h2
    simp only [List.length_map, List.length_range] at h1
    simp [envOf, List.getD_eq_getElem?_getD, List.getElem?_append_right, h1]

theorem map_eval_vars_envOf (pre l : List ℝ) :
    (vars pre.length l.length).map (eval (envOf (pre ++ l))) = l := by
  rw [map_eval_vars, range_map_envOf_append]

/-! ### list combinators commute with evaluation -/

theorem map_eval_diffsE (ρ : Nat → ℝ) : ∀ l : List Expr, (diffsE l).map (eval ρ) = C08.diffs (l.map (eval ρ))
  | [] => rfl
  | [_] => rfl
  | a :: b :: rest => by
    have ih := map_eval_diffsE ρ (b :: rest)
    simp only [diffsE, List.map_cons, C08.diffs, eval] at ih ⊢
    rw [ih]

theorem defined_diffsE (ρ : Nat → ℝ) : ∀ l : List Expr, (∀ e ∈ l, Defined ρ e) → ∀ e ∈ diffsE l, Defined ρ e
  | [], _ => by simp [diffsE]
  | [_], _ => by simp [diffsE]
  | a :: b :: rest, h => by
    intro e he
    simp only [diffsE, List.mem_cons] at he
    rcases he with rfl | he
    · exact ⟨h b (by simp), h a (by simp)⟩
    · exact defined_diffsE ρ (b :: rest) (fun e he => h e (List.mem_cons_of_mem _ he)) e he

/-- `x[:-1] - x[1:]` on real lists -/
def diffsRev : List ℝ → List ℝ
  | a :: b :: rest => (a - b) :: diffsRev (b :: rest)
  | _ => []

theorem map_eval_diffsRevE (ρ : Nat → ℝ) : ∀ l : List Expr, (diffsRevE l).map (eval ρ) = diffsRev (l.map (eval ρ))
  | [] => rfl
  | [_] => rfl
  | a :: b :: rest => by
    have ih := map_eval_diffsRevE ρ (b :: rest)
    simp only [diffsRevE, List.map_cons, diffsRev, eval] at ih ⊢
    rw [ih]

theorem defined_diffsRevE (ρ : Nat → ℝ) : ∀ l : List Expr, (∀ e ∈ l, Defined ρ e) → ∀ e ∈ diffsRevE l, Defined ρ e
  | [], _ => by simp [diffsRevE]
  | [_], _ => by simp [diffsRevE]
  | a :: b :: rest, h => by
    intro e he
    simp only [diffsRevE, List.mem_cons] at he
    rcases he with rfl | he
    · exact ⟨h a (by simp), h b (by simp)⟩
    · exact defined_diffsRevE ρ (b :: rest) (fun e he => h e (List.mem_cons_of_mem _ he)) e he

theorem mem_zipWith {α β γ : Type} {f : α → β → γ} {P : γ → Prop} :
    ∀ {l₁ : List α} {l₂ : List β}, (∀ a ∈ l₁, ∀ b ∈ l₂, P (f a b)) → ∀ c ∈ List.zipWith f l₁ l₂, P c
  | [], _, _ => by simp
  | _ :: _, [], _ => by simp
  | a :: l₁, b :: l₂, h => by
    intro c hc
    simp only [List.zipWith_cons_cons, List.mem_cons] at hc
    rcases hc with rfl | hc
    · exact h a (by simp) b (by simp)
    · exact mem_zipWith (fun a ha b hb => h a (List.mem_cons_of_mem _ ha) b (List.mem_cons_of_mem _ hb)) c hc

theorem mem_zipWith3 {α β γ δ : Type} {f : α → β → γ → δ} {P : δ → Prop} :
    ∀ {l₁ : List α} {l₂ : List β} {l₃ : List γ},
      (∀ a ∈ l₁, ∀ b ∈ l₂, ∀ c ∈ l₃, P (f a b c)) → ∀ d ∈ C08.zipWith3 f l₁ l₂ l₃, P d
  | [], _, _, _ => by simp [C08.zipWith3]
  | _ :: _, [], _, _ => by simp [C08.zipWith3]
  | _ :: _, _ :: _, [], _ => by simp [C08.zipWith3]
  | a :: l₁, b :: l₂, c :: l₃, h => by
    intro d hd
    simp only [C08.zipWith3, List.mem_cons] at hd
    rcases hd with rfl | hd
    · exact h a (by simp) b (by simp) c (by simp)
    · exact mem_zipWith3 (fun a ha b hb c hc => h a (List.mem_cons_of_mem _ ha) b (List.mem_cons_of_mem _ hb)
        c (List.mem_cons_of_mem _ hc)) d hd

theorem map_zipWith3 {α β γ δ ε : Type} (g : δ → ε) (f : α → β → γ → δ) :
    ∀ (l₁ : List α) (l₂ : List β) (l₃ : List γ),
      (C08.zipWith3 f l₁ l₂ l₃).map g = C08.zipWith3 (fun a b c => g (f a b c)) l₁ l₂ l₃
  | [], _, _ => by simp [C08.zipWith3]
  | _ :: _, [], _ => by simp [C08.zipWith3]
  | _ :: _, _ :: _, [] => by simp [C08.zipWith3]
  | a :: l₁, b :: l₂, c :: l₃ => by simp [C08.zipWith3, map_zipWith3 g f l₁ l₂ l₃]

theorem zipWith3_map_mid {α β β' γ δ : Type} (f : α → β → γ → δ) (h : β' → β) :
    ∀ (l₁ : List α) (l₂ : List β') (l₃ : List γ),
      C08.zipWith3 f l₁ (l₂.map h) l₃ = C08.zipWith3 (fun a b c => f a (h b) c) l₁ l₂ l₃
  | [], _, _ => by simp [C08.zipWith3]
  | _ :: _, [], _ => by simp [C08.zipWith3]
  | _ :: _, _ :: _, [] => by simp [C08.zipWith3]
  | a :: l₁, b :: l₂, c :: l₃ => by simp [C08.zipWith3, zipWith3_map_mid f h l₁ l₂ l₃]

@[simp] theorem eval_choose2E (ρ : Nat → ℝ) (k : Int) : eval ρ (choose2E k) = (C08.choose2 k : ℝ) := by
  simp [choose2E, eval, C08.choose2]

theorem defined_choose2E (ρ : Nat → ℝ) (k : Int) : Defined ρ (choose2E k) := by
  refine ⟨trivial, trivial, ?_⟩
  simp [eval]

theorem getD_mem_or {l : List Expr} {i : Nat} {d : Expr} : l.getD i d ∈ l ∨ l.getD i d = d := by
  rw [List.getD_eq_getElem?_getD]
  by_cases h : i < l.length
  · left; simp [List.getElem?_eq_getElem h]
  · right; simp [List.getElem?_eq_none (Nat.le_of_not_lt h)]

theorem eval_getD (ρ : Nat → ℝ) (l : List Expr) (i : Nat) :
    eval ρ (l.getD i (nat 0)) = (l.map (eval ρ)).getD i 0 := by
  rw [List.getD_eq_getElem?_getD, List.getD_eq_getElem?_getD, List.getElem?_map]
  cases l[i]? <;> simp [eval]


/-! ### environments -/

theorem range_map_envOf_prefix (l post : List ℝ) :
    ((List.range l.length).map fun j => envOf (l ++ post) (0 + j)) = l := by
  apply List.ext_getElem
  · simp
  · intro i h1 h2
    simp only [List.length_map, List.length_range] at h1
    simp [envOf, List.getD_eq_getElem?_getD, List.getElem?_append_left, h1]

theorem map_eval_vars_envOf_prefix (l post : List ℝ) :
    (vars 0 l.length).map (eval (envOf (l ++ post))) = l := by
  rw [map_eval_vars, range_map_envOf_prefix]

theorem sum_zipWith_sub : ∀ (l₁ l₂ : List ℝ), l₁.length = l₂.length →
    (List.zipWith (fun a b => a - b) l₁ l₂).sum = l₁.sum - l₂.sum
  | [], [], _ => by simp
  | [], _ :: _, h => by simp at h
  | _ :: _, [], h => by simp at h
  | a :: l₁, b :: l₂, h => by
    have := sum_zipWith_sub l₁ l₂ (by simpa using h)
    simp only [List.zipWith_cons_cons, List.sum_cons, this]
    ring

theorem length_cumsumFrom {β : Type} [Add β] (acc : β) : ∀ l : List β, (C08.cumsumFrom acc l).length = l.length
  | [] => rfl
  | x :: xs => by simp [C08.cumsumFrom, length_cumsumFrom (acc + x) xs]

theorem length_cumsum {β : Type} [Add β] [Zero β] (l : List β) : (C08.cumsum l).length = l.length :=
  length_cumsumFrom 0 l

theorem length_diffs : ∀ l : List ℝ, (C08.diffs l).length = l.length - 1
  | [] => rfl
  | [_] => rfl
  | a :: b :: rest => by
    have := length_diffs (b :: rest)
    simp only [C08.diffs, List.length_cons] at this ⊢
    omega

theorem length_zipWith3 {α β γ δ : Type} (f : α → β → γ → δ) :
    ∀ (l₁ : List α) (l₂ : List β) (l₃ : List γ),
      (C08.zipWith3 f l₁ l₂ l₃).length = min l₁.length (min l₂.length l₃.length)
  | [], _, _ => by simp [C08.zipWith3]
  | _ :: _, [], _ => by simp [C08.zipWith3]
  | _ :: _, _ :: _, [] => by simp [C08.zipWith3]
  | a :: l₁, b :: l₂, c :: l₃ => by
    simp only [C08.zipWith3, List.length_cons, length_zipWith3 f l₁ l₂ l₃]
    omega


theorem update_envOf (l : List ℝ) (i : Nat) (hi : i < l.length) (t : ℝ) :
    Function.update (envOf l) i t = envOf (l.set i t) := by
  funext j
  by_cases hj : j = i
  · subst hj
    simp [envOf, List.getD_eq_getElem?_getD, hi]
  · simp [envOf, Function.update_of_ne hj, List.getD_eq_getElem?_getD, List.getElem?_set_ne (Ne.symm hj)]

theorem envOf_getElem (l : List ℝ) (i : Nat) (hi : i < l.length) : envOf l i = l[i] := by
  simp [envOf, List.getD_eq_getElem?_getD, hi]

/-- a function that agrees near `ρ i` with the evaluation of an expression has the forward-mode
tangent of that expression as derivative -/
theorem hasDerivAt_of_eval (E : Expr) (ρ : Nat → ℝ) (i : Nat) (f : ℝ → ℝ) (hdef : Defined ρ E)
    (hf : ∀ᶠ t in nhds (ρ i), f t = eval (Function.update ρ i t) E) :
    HasDerivAt f (partialD E ρ i) (ρ i) :=
  (dual_sound E ρ i hdef).congr_of_eventuallyEq hf

theorem hasDerivAt_of_eval' (E : Expr) (ρ : Nat → ℝ) (i : Nat) (f : ℝ → ℝ) (hdef : Defined ρ E)
    (hf : ∀ t, f t = eval (Function.update ρ i t) E) :
    HasDerivAt f (partialD E ρ i) (ρ i) :=
  hasDerivAt_of_eval E ρ i f hdef (Filter.Eventually.of_forall hf)

end TT.C12
