import TTProofs.Lemmas.C09_Epochs
import TTProofs.Lemmas.C09_Semigroup
/-! C09: cutting one epoch in two — the hypotheses (`SplitAt`) and what happens to the backward recursion. -/
open TT TT.C09
namespace TT.C09

/-- `(r', t', m+1)` is `(r, t, m)` with epoch `i` cut at `s` into two sub-epochs carrying the rates of epoch `i`,
no sampling event at the cut (`rho' i = 0`), the sampling event of epoch `i` kept at its end -/
structure SplitAt (r r' : Rates ℝ) (t t' : Nat → ℝ) (m i : Nat) (s : ℝ) : Prop where
  hi : i < m
  grid : Grid t m
  grid' : Grid t' (m + 1)
  t0 : t 0 = 0
  t_lo : ∀ k, k ≤ i → t' k = t k
  t_mid : t' (i + 1) = s
  t_hi : ∀ k, i + 1 ≤ k → t' (k + 1) = t k
  lam_lo : ∀ k, k ≤ i → r'.lam k = r.lam k
  lam_hi : ∀ k, i ≤ k → r'.lam (k + 1) = r.lam k
  mu_lo : ∀ k, k ≤ i → r'.mu k = r.mu k
  mu_hi : ∀ k, i ≤ k → r'.mu (k + 1) = r.mu k
  psi_lo : ∀ k, k ≤ i → r'.psi k = r.psi k
  psi_hi : ∀ k, i ≤ k → r'.psi (k + 1) = r.psi k
  rho_lo : ∀ k, k < i → r'.rho k = r.rho k
  rho_mid : r'.rho i = 0
  rho_hi : ∀ k, i ≤ k → r'.rho (k + 1) = r.rho k
  lam_pos : 0 < r.lam i
  psi_pos : 0 < r.psi i
  rho_nonneg : 0 ≤ r.rho i
  /-- the probability of leaving no sampled descendant from the start of the next epoch is a probability -/
  p_next : 0 ≤ pAt r t m (i + 1) ∧ pAt r t m (i + 1) ≤ 1

namespace SplitAt
variable {r r' : Rates ℝ} {t t' : Nat → ℝ} {m i : Nat} {s : ℝ}

theorem s_gt (h : SplitAt r r' t t' m i s) : t i < s := by
  have := h.grid' i (i + 1) (by omega) (by have := h.hi; omega)
  rw [h.t_lo i le_rfl, h.t_mid] at this; exact this

theorem s_lt (h : SplitAt r r' t t' m i s) : s < t (i + 1) := by
  have := h.grid' (i + 1) (i + 2) (by omega) (by have := h.hi; omega)
  rw [h.t_mid, h.t_hi (i + 1) le_rfl] at this; exact this

/-- start-of-epoch probabilities of the later epochs are shifted by one index -/
theorem pAt_hi (h : SplitAt r r' t t' m i s) : ∀ j k, m - k = j → i + 1 ≤ k →
    pAt r' t' (m + 1) (k + 1) = pAt r t m k := by
  intro j
  induction j with
  | zero =>
      intro k hk _
      rw [pAt_end _ _ _ _ (by omega), pAt_end _ _ _ _ (by omega)]
  | succ j ih =>
      intro k hk hik
      have hkm : k < m := by omega
      rw [pAt_step _ _ _ _ (by omega : k + 1 < m + 1), pAt_step _ _ _ _ hkm,
        ih (k + 1) (by omega) (by omega), h.t_hi (k + 1) (by omega), h.t_hi k hik]
      exact pStep_congr r r' (k + 1) k _ _ (h.lam_hi k (by omega)) (h.mu_hi k (by omega)) (h.psi_hi k (by omega))
        (h.rho_hi k (by omega))

/-- the value at the cut -/
theorem pAt_mid (h : SplitAt r r' t t' m i s) :
    pAt r' t' (m + 1) (i + 1) = pStep r i (t (i + 1) - s) (pAt r t m (i + 1)) := by
  have hi := h.hi
  rw [pAt_step _ _ _ _ (by omega : i + 1 < m + 1), h.pAt_hi (m - (i + 1)) (i + 1) rfl le_rfl,
    h.t_hi (i + 1) le_rfl, h.t_mid]
  exact pStep_congr r r' (i + 1) i _ _ (h.lam_hi i le_rfl) (h.mu_hi i le_rfl) (h.psi_hi i le_rfl) (h.rho_hi i le_rfl)

/-- the value at the start of the cut epoch is unchanged (p_semigroup) -/
theorem pAt_cut (h : SplitAt r r' t t' m i s) : pAt r' t' (m + 1) i = pAt r t m i := by
  have hi := h.hi
  rw [pAt_step _ _ _ _ (by omega : i < m + 1), pAt_step _ _ _ _ hi,
    pAt_step _ _ _ _ (by omega : i + 1 < m + 1), h.pAt_hi (m - (i + 1)) (i + 1) rfl le_rfl,
    h.t_hi (i + 1) le_rfl, h.t_mid, h.t_lo i le_rfl]
  have hsg := p_semigroup_model r' i (s - t i) (t (i + 1) - s) (pAt r t m (i + 1))
    (by rw [h.lam_lo i le_rfl, h.lam_hi i le_rfl]) (by rw [h.mu_lo i le_rfl, h.mu_hi i le_rfl])
    (by rw [h.psi_lo i le_rfl, h.psi_hi i le_rfl]) h.rho_mid
    (by rw [h.lam_hi i le_rfl]; exact h.lam_pos) (by rw [h.psi_hi i le_rfl]; exact h.psi_pos)
    h.p_next.1 h.p_next.2 (by rw [h.rho_hi i le_rfl]; exact h.rho_nonneg)
    (by have := h.s_gt; linarith) (by have := h.s_lt; linarith)
  rw [hsg]
  have : s - t i + (t (i + 1) - s) = t (i + 1) - t i := by ring
  rw [this]
  exact pStep_congr r r' (i + 1) i _ _ (h.lam_hi i le_rfl) (h.mu_hi i le_rfl) (h.psi_hi i le_rfl) (h.rho_hi i le_rfl)

/-- … and so are the values at the start of all earlier epochs -/
theorem pAt_lo (h : SplitAt r r' t t' m i s) : ∀ j k, i - k = j → k ≤ i →
    pAt r' t' (m + 1) k = pAt r t m k := by
  intro j
  induction j with
  | zero =>
      intro k hk hki
      have : k = i := by omega
      subst this; exact h.pAt_cut
  | succ j ih =>
      intro k hk hki
      have hi := h.hi
      have hk1 : k < i := by omega
      rw [pAt_step _ _ _ _ (by omega : k < m + 1), pAt_step _ _ _ _ (by omega : k < m),
        ih (k + 1) (by omega) (by omega), h.t_lo (k + 1) (by omega), h.t_lo k hki]
      exact pStep_congr r r' k k _ _ (h.lam_lo k hki) (h.mu_lo k hki) (h.psi_lo k hki) (h.rho_lo k hk1)

theorem A_lo (h : SplitAt r r' t t' m i s) (k : Nat) (hk : k ≤ i) : Acoef r' k = Acoef r k :=
  Acoef_congr r r' k k (h.lam_lo k hk) (h.mu_lo k hk) (h.psi_lo k hk)

theorem A_hi (h : SplitAt r r' t t' m i s) (k : Nat) (hk : i ≤ k) : Acoef r' (k + 1) = Acoef r k :=
  Acoef_congr r r' (k + 1) k (h.lam_hi k hk) (h.mu_hi k hk) (h.psi_hi k hk)

theorem B_lo (h : SplitAt r r' t t' m i s) (k : Nat) (hk : k < i) : BAt r' t' (m + 1) k = BAt r t m k := by
  unfold BAt
  rw [h.pAt_lo (i - (k + 1)) (k + 1) rfl (by omega)]
  exact Bcoef_congr r r' k k _ (h.lam_lo k (by omega)) (h.mu_lo k (by omega)) (h.psi_lo k (by omega)) (h.rho_lo k hk)

theorem B_hi (h : SplitAt r r' t t' m i s) (k : Nat) (hk : i ≤ k) : BAt r' t' (m + 1) (k + 1) = BAt r t m k := by
  unfold BAt
  rw [h.pAt_hi (m - (k + 1)) (k + 1) rfl (by omega)]
  exact Bcoef_congr r r' (k + 1) k _ (h.lam_hi k hk) (h.mu_hi k hk) (h.psi_hi k hk) (h.rho_hi k hk)

end SplitAt
end TT.C09
