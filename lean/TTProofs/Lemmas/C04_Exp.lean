import TTModel.C04_Subst
import TTProofs.Lemmas.Sums
import TTProofs.Lemmas.ScalarReal
import Mathlib.Analysis.Normed.Algebra.MatrixExponential
import Mathlib.Analysis.SpecialFunctions.Exponential
import Mathlib.LinearAlgebra.Matrix.NonsingularInverse
/-! helper lemmas for C04: the eigen reconstruction of `SymmetricSubstitutionModel.p_t` equals the
matrix exponential (`NormedSpace.exp`) under the contract of `eigh` -/
namespace TT.C04
open Matrix NormedSpace

variable {n : Nat}

/-- a model matrix viewed as a Mathlib matrix (same function) -/
def toM (A : Mat n ℝ) : Matrix (Fin n) (Fin n) ℝ := Matrix.of A

@[simp] theorem toM_apply (A : Mat n ℝ) (i j : Fin n) : toM A i j = A i j := rfl

theorem toM_mmul (A B : Mat n ℝ) : toM (mmul A B) = toM A * toM B := by
  ext i j; simp [mmul, sumFin_eq_sum, Matrix.mul_apply]

theorem toM_ident : toM (ident (α := ℝ) (n := n)) = 1 := by
  ext i j; simp [ident, Matrix.one_apply]

theorem toM_symmetrised (Q : Mat n ℝ) (π : Fin n → ℝ) :
    toM (symmetrised Q π)
      = diagonal (fun i => Real.sqrt (π i)) * toM Q * diagonal (fun i => 1 / Real.sqrt (π i)) := by
  ext i j; simp [symmetrised, Matrix.mul_apply, Matrix.diagonal_apply, mul_comm]

theorem toM_reconA (π : Fin n → ℝ) (V : Mat n ℝ) (e : Fin n → ℝ) (t : ℝ) :
    toM (reconA π V e t)
      = diagonal (fun i => 1 / Real.sqrt (π i)) * toM V * diagonal (fun k => Real.exp (e k * t)) := by
  ext i j; simp [reconA, Matrix.mul_apply, Matrix.diagonal_apply]

theorem toM_reconB (π : Fin n → ℝ) (Vinv : Mat n ℝ) :
    toM (reconB π Vinv) = toM Vinv * diagonal (fun i => Real.sqrt (π i)) := by
  ext i j; simp [reconB, Matrix.mul_apply, Matrix.diagonal_apply]

/-- **reconstruction = matrix exponential**, purely on Mathlib matrices: if `D Q D⁻¹ = V diag(e) V⁻¹`
with `D` an invertible diagonal matrix, then `(D⁻¹ V) diag(exp(e t)) (V⁻¹ D) = exp(t • Q)` -/
theorem conj_diag_exp (D Di V Vi Q : Matrix (Fin n) (Fin n) ℝ) (e : Fin n → ℝ) (t : ℝ)
    (hD' : Di * D = 1) (hV : V * Vi = 1)
    (hS : D * Q * Di = V * diagonal e * Vi) :
    (Di * V) * diagonal (fun k => Real.exp (e k * t)) * (Vi * D) = exp (t • Q) := by
  have hUU : (Di * V) * (Vi * D) = 1 := by
    calc (Di * V) * (Vi * D) = Di * (V * Vi) * D := by simp only [Matrix.mul_assoc]
      _ = 1 := by rw [hV, Matrix.mul_one, hD']
  have hinv : (Di * V)⁻¹ = Vi * D := Matrix.inv_eq_right_inv hUU
  have hunit : IsUnit (Di * V) :=
    (Matrix.isUnit_iff_isUnit_det _).2 (Matrix.isUnit_det_of_right_inverse hUU)
  have hQ : Q = (Di * V) * diagonal e * (Vi * D) := by
    calc Q = (Di * D) * Q * (Di * D) := by rw [hD', Matrix.one_mul, Matrix.mul_one]
      _ = Di * (D * Q * Di) * D := by simp only [Matrix.mul_assoc]
      _ = Di * (V * diagonal e * Vi) * D := by rw [hS]
      _ = (Di * V) * diagonal e * (Vi * D) := by simp only [Matrix.mul_assoc]
  have htQ : t • Q = (Di * V) * diagonal (fun k => e k * t) * (Di * V)⁻¹ := by
    rw [hinv]
    conv_lhs => rw [hQ]
    have : (diagonal (fun k => e k * t) : Matrix (Fin n) (Fin n) ℝ) = t • diagonal e := by
      ext i j; by_cases h : i = j <;> simp [h, mul_comm]
    rw [this, Matrix.mul_smul, Matrix.smul_mul]
  rw [htQ, Matrix.exp_conj _ _ hunit, Matrix.exp_diagonal, hinv]
  congr 2
  ext i j
  by_cases h : i = j
  · subst h; simp [Pi.coe_exp, Real.exp_eq_exp_ℝ]
  · simp [h]

theorem diag_sqrt_inv (π : Fin n → ℝ) (hπ : ∀ i, 0 < π i) :
    (diagonal (fun i => Real.sqrt (π i)) : Matrix (Fin n) (Fin n) ℝ)
      * diagonal (fun i => 1 / Real.sqrt (π i)) = 1 := by
  rw [Matrix.diagonal_mul_diagonal]
  have : (fun i => Real.sqrt (π i) * (1 / Real.sqrt (π i))) = fun _ => (1 : ℝ) := by
    funext i
    have : Real.sqrt (π i) ≠ 0 := (Real.sqrt_pos.mpr (hπ i)).ne'
    field_simp
  rw [this]; exact Matrix.diagonal_one

theorem diag_sqrt_inv' (π : Fin n → ℝ) (hπ : ∀ i, 0 < π i) :
    (diagonal (fun i => 1 / Real.sqrt (π i)) : Matrix (Fin n) (Fin n) ℝ)
      * diagonal (fun i => Real.sqrt (π i)) = 1 := by
  rw [Matrix.diagonal_mul_diagonal]
  have : (fun i => 1 / Real.sqrt (π i) * Real.sqrt (π i)) = fun _ => (1 : ℝ) := by
    funext i
    have : Real.sqrt (π i) ≠ 0 := (Real.sqrt_pos.mpr (hπ i)).ne'
    field_simp
  rw [this]; exact Matrix.diagonal_one

/-- the model's `recon` equals `exp(t • Q)` under the contract of `eigh` and `inverse` -/
theorem recon_eq_exp_toM (π e : Fin n → ℝ) (V Vinv Q : Mat n ℝ) (hπ : ∀ i, 0 < π i)
    (hV : toM V * toM Vinv = 1)
    (hS : toM (symmetrised Q π) = toM V * diagonal e * toM Vinv) (t : ℝ) :
    toM (recon π V Vinv e t) = exp (t • toM Q) := by
  unfold recon
  rw [toM_mmul, toM_reconA, toM_reconB]
  rw [toM_symmetrised] at hS
  have h := conj_diag_exp _ _ (toM V) (toM Vinv) (toM Q) e t (diag_sqrt_inv' π hπ) hV hS
  rw [← h]

theorem exp_smul_zero (Q : Matrix (Fin n) (Fin n) ℝ) : exp ((0 : ℝ) • Q) = 1 := by
  rw [zero_smul, NormedSpace.exp_zero]

theorem exp_smul_add (Q : Matrix (Fin n) (Fin n) ℝ) (s t : ℝ) :
    exp ((s + t) • Q) = exp (s • Q) * exp (t • Q) := by
  rw [add_smul]
  exact Matrix.exp_add_of_commute _ _ (((Commute.refl Q).smul_left s).smul_right t)

end TT.C04
