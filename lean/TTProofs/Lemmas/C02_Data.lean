import TTModel.C02_Names
import TTModel.C01_Patterns
import TTProofs.Lemmas.C02_Names
import TTProofs.Lemmas.C02_Swap
import TTProofs.Lemmas.C01_Main
import TTProofs.Lemmas.ScalarReal
/-! helper lemmas for C02: the alignment side — the symbol a taxon shows at a site is looked up by
    NAME, whatever the order of `Taxa` and of the sequence list; hence the reported value is a sum over
    sites of a function of name-indexed data only -/
namespace TT.C02
open TT TT.C01

/-- the sequence recorded for a name -/
def seqOf (seqs : List (String × List Char)) (nm : String) : List Char :=
  match seqs.find? (fun s => s.1 == nm) with
  | some s => s.2
  | none => []

theorem find?_of_nodup_keys {γ : Type} : ∀ (l : List (String × γ)) (a : String) (b : γ),
    (l.map (·.1)).Nodup → (a, b) ∈ l → l.find? (fun s => s.1 == a) = some (a, b)
  | [], _, _, _, hm => by cases hm
  | p :: rest, a, b, hnd, hm => by
    simp only [List.map_cons, List.nodup_cons] at hnd
    simp only [List.find?_cons]
    rcases List.mem_cons.mp hm with e | hm'
    · subst e; simp
    · have hne : p.1 ≠ a := by
        intro e
        apply hnd.1
        rw [e]
        exact List.mem_map.mpr ⟨(a, b), hm', rfl⟩
      have : (p.1 == a) = false := by simpa using hne
      rw [this]
      exact find?_of_nodup_keys rest a b hnd.2 hm'

theorem seqOf_mem (seqs : List (String × List Char)) (hnd : (seqs.map (·.1)).Nodup) (a : String) (b : List Char)
    (hm : (a, b) ∈ seqs) : seqOf seqs a = b := by
  unfold seqOf
  rw [find?_of_nodup_keys seqs a b hnd hm]

/-- `seqOf` does not depend on the order of the sequence list -/
theorem seqOf_perm (seqs seqs' : List (String × List Char)) (hp : seqs.Perm seqs')
    (hnd : (seqs.map (·.1)).Nodup) (nm : String) : seqOf seqs nm = seqOf seqs' nm := by
  by_cases h : ∃ b, (nm, b) ∈ seqs
  · obtain ⟨b, hb⟩ := h
    rw [seqOf_mem seqs hnd nm b hb, seqOf_mem seqs' ((hp.map _).nodup_iff.mp hnd) nm b (hp.subset hb)]
  · have h1 : seqs.find? (fun s => s.1 == nm) = none := by
      rw [List.find?_eq_none]
      intro s hs e
      exact h ⟨s.2, by have : s.1 = nm := by simpa using e
                       rw [← this]; exact hs⟩
    have h2 : seqs'.find? (fun s => s.1 == nm) = none := by
      rw [List.find?_eq_none]
      intro s hs e
      exact h ⟨s.2, by have : s.1 = nm := by simpa using e
                       rw [← this]; exact hp.symm.subset hs⟩
    unfold seqOf
    rw [h1, h2]

theorem minLength_const {γ : Type} (m : Nat) : ∀ (rows : List (List γ)), rows ≠ [] →
    (∀ r ∈ rows, r.length = m) → minLength rows = m
  | [], h, _ => absurd rfl h
  | [r], _, hl => by simp [minLength, hl r (by simp)]
  | r :: r2 :: rest, _, hl => by
    have ih := minLength_const m (r2 :: rest) (by simp) (fun x hx => hl x (by simp [hx]))
    simp only [minLength] at ih ⊢
    rw [ih, hl r (by simp)]
    simp

/-- component `nm` of column `j` of the alignment `ss` (any order, distinct names) is the `j`-th symbol of
    the sequence recorded for `nm` -/
theorem column_component (size : Nat) (ss : List (String × List Char)) (hnd : (ss.map (·.1)).Nodup)
    (nm : String) (hm : nm ∈ ss.map (·.1)) (j : Nat) :
    ((ss.map fun s => splitSyms size s.2).map fun r => r.getD j [])[(ss.map (·.1)).idxOf nm]?
      = some ((splitSyms size (seqOf ss nm)).getD j []) := by
  have hi : (ss.map (·.1)).idxOf nm < (ss.map (·.1)).length := List.idxOf_lt_length_iff.mpr hm
  have hi' : (ss.map (·.1)).idxOf nm < ss.length := by simpa using hi
  have hname : (ss[(ss.map (·.1)).idxOf nm]'hi').1 = nm := by
    have h := List.getElem_idxOf (xs := ss.map (·.1)) (x := nm) hi
    rw [List.getElem_map] at h
    exact h
  have hmem : (nm, (ss[(ss.map (·.1)).idxOf nm]'hi').2) ∈ ss := by
    have h : ss[(ss.map (·.1)).idxOf nm]'hi' ∈ ss := List.getElem_mem hi'
    have e : (nm, (ss[(ss.map (·.1)).idxOf nm]'hi').2) = ss[(ss.map (·.1)).idxOf nm]'hi' := by
      exact Prod.ext hname.symm rfl
    rw [e]
    exact h
  rw [seqOf_mem ss hnd nm _ hmem]
  simp [List.getElem?_map, List.getElem?_eq_getElem hi']

/-- `symbolOf` on column `j`: the model's lookup `patterns[taxon.id]` returns the named sequence's symbol -/
theorem symbolOf_column (size : Nat) (taxa : List String) (seqs : List (String × List Char))
    (hnd : (seqs.map (·.1)).Nodup) (nm : String) (hm : nm ∈ seqs.map (·.1)) (j : Nat) :
    symbolOf taxa seqs nm (((sortSeqs taxa seqs).map fun s => splitSyms size s.2).map fun r => r.getD j [])
      = some ((splitSyms size (seqOf seqs nm)).getD j []) := by
  have hp : (sortSeqs taxa seqs).Perm seqs := foldr_insertByKey_perm _ seqs
  have hnd' : ((sortSeqs taxa seqs).map (·.1)).Nodup := (hp.map _).nodup_iff.mpr hnd
  have hm' : nm ∈ (sortSeqs taxa seqs).map (·.1) := (hp.map _).symm.subset hm
  unfold symbolOf
  simp only [hm', if_true]
  rw [column_component size _ hnd' nm hm' j, seqOf_perm _ _ hp hnd']

section reported
variable {β : Type} {K S : Nat}

theorem partialN_congr {R : Type} [CommSemiring R] (P : β → Fin K → Fin S → Fin S → R)
    (data data' : String → Fin S → R) : ∀ (T : LTree β), (∀ nm ∈ T.names, data nm = data' nm) →
      partialN P data T = partialN P data' T
  | .leaf nm b, h => by
    funext k
    simp only [partialN]
    exact h nm (by simp [LTree.names])
  | .node l r b, h => by
    funext k s
    simp only [partialN]
    rw [partialN_congr P data data' l (fun nm hm => h nm (by simp [LTree.names, hm])),
      partialN_congr P data data' r (fun nm hm => h nm (by simp [LTree.names, hm]))]

/-- tip data of one pattern column as the model object holds it: by taxon NAME through `symbolOf` -/
def dataOfColumn {R : Type} [Zero R] (vec : Sym → Fin S → R) (taxa : List String)
    (seqs : List (String × List Char)) (p : Column) : String → Fin S → R :=
  fun nm => match symbolOf taxa seqs nm p with
    | some s => vec s
    | none => fun _ => 0

/-- what `TreeLikelihoodModel()` reports, composed from the model's functions: compressed patterns of the
    sorted alignment, per pattern the index-addressed likelihood, `Σ_p w_p log L_p` -/
noncomputable def reported (π : Fin S → ℝ) (props : Fin K → ℝ) (P : β → Fin K → Fin S → Fin S → ℝ) (d : β)
    (vec : Sym → Fin S → ℝ) (size : Nat) (taxa : List String) (seqs : List (String × List Char))
    (T : LTree β) : ℝ :=
  logLik ((patterns size taxa seqs).map fun p =>
            (likIdx π props P d taxa T (dataOfColumn vec taxa seqs p.1)).getD 0)
         ((patterns size taxa seqs).map fun p => (p.2 : ℝ))

/-- **the reported value is a function of name-indexed data only**: a sum over sites `j` of the log of
    the name-based likelihood of the symbols the named sequences show at site `j` -/
theorem reported_by_name (π : Fin S → ℝ) (props : Fin K → ℝ) (P : β → Fin K → Fin S → Fin S → ℝ) (d : β)
    (vec : Sym → Fin S → ℝ) (size : Nat) (taxa : List String) (seqs : List (String × List Char))
    (l r : LTree β) (b : β) (m : Nat)
    (hseq_nd : (seqs.map (·.1)).Nodup) (hseq_ne : seqs ≠ [])
    (hlen : ∀ s ∈ seqs, (splitSyms size s.2).length = m)
    (hsub : ∀ nm ∈ (LTree.node l r b).names, nm ∈ taxa) (hnd : (LTree.node l r b).names.Nodup)
    (hhas : ∀ nm ∈ (LTree.node l r b).names, nm ∈ seqs.map (·.1)) :
    reported π props P d vec size taxa seqs (.node l r b)
      = ((List.range m).map fun j => Real.log (likN π props P
          (fun nm => vec ((splitSyms size (seqOf seqs nm)).getD j [])) (.node l r b))).sum := by
  have hp : (sortSeqs taxa seqs).Perm seqs := foldr_insertByKey_perm _ seqs
  unfold reported patterns
  have hll := TT.C01.compress_sum (M := ℝ)
    (fun c => Real.log ((likIdx π props P d taxa (.node l r b) (dataOfColumn vec taxa seqs c)).getD 0))
    (columns ((sortSeqs taxa seqs).map fun s => splitSyms size s.2))
  -- logLik over patterns = Σ over patterns of w • log
  have hlog : ∀ (pats : List (Column × Nat)) (g : Column → ℝ),
      logLik (pats.map fun p => g p.1) (pats.map fun p => (p.2 : ℝ))
        = (pats.map fun pw => pw.2 • Real.log (g pw.1)).sum := by
    intro pats g
    unfold logLik
    rw [List.zipWith_map, List.zipWith_self]
    congr 1
    refine List.map_congr_left fun p _ => ?_
    simp [nsmul_eq_mul, mul_comm]
  rw [hlog _ (fun c => (likIdx π props P d taxa (.node l r b) (dataOfColumn vec taxa seqs c)).getD 0), hll]
  -- the columns are the sites 0..m-1
  have hmin : minLength ((sortSeqs taxa seqs).map fun s => splitSyms size s.2) = m := by
    refine minLength_const m _ ?_ ?_
    · intro e
      have h0 : (sortSeqs taxa seqs).length = 0 := by
        have := congrArg List.length e
        simpa using this
      rw [hp.length_eq] at h0
      exact hseq_ne (List.length_eq_zero_iff.mp h0)
    · intro rr hr
      obtain ⟨s, hs, rfl⟩ := List.mem_map.mp hr
      exact hlen s (hp.subset hs)
  unfold columns
  rw [hmin, List.map_map]
  congr 1
  refine List.map_congr_left fun j _ => ?_
  simp only [Function.comp]
  rw [likIdx_eq_likN π props P d taxa l r b _ hsub hnd, Option.getD_some]
  congr 1
  unfold likN
  congr 1
  refine partialN_congr P _ _ _ ?_
  intro nm hnm
  unfold dataOfColumn
  have := symbolOf_column size taxa seqs hseq_nd nm (hhas nm hnm) j
  simp only [List.map_map] at this ⊢
  rw [this]

end reported
end TT.C02
