import TTModel.Scalar
import Mathlib.Algebra.BigOperators.Fin
import Mathlib.Algebra.BigOperators.Ring.Finset
/-! bridge from the executable list sums of the models to `Finset.sum` -/
namespace TT

theorem sumFin_eq_sum {R} [AddCommMonoid R] {n} (f : Fin n → R) : sumFin f = ∑ i, f i := by
  unfold sumFin
  rw [Fin.sum_univ_def]

theorem prodFin_eq_prod {R} [CommMonoid R] {n} (f : Fin n → R) : prodFin f = ∏ i, f i := by
  unfold prodFin
  rw [Fin.prod_univ_def]
  induction (List.finRange n) with
  | nil => simp
  | cons a l ih => simp [List.prod_cons, ih]

end TT
