import TTModel.C08_Soft
import TTProofs.Lemmas.ScalarReal
import Mathlib.Algebra.BigOperators.Group.List.Basic
import Mathlib.Tactic.Ring
import Mathlib.Tactic.Linarith
import Mathlib.Tactic.Positivity
/-!
# C08 — exact (limit-free) facts about the relaxed skygrid
-/
namespace TT.C08

theorem list_sum_pos : ∀ (l : List ℝ), l ≠ [] → (∀ x ∈ l, 0 < x) → 0 < l.sum
  | [], h, _ => absurd rfl h
  | [a], _, hp => by simpa using hp a (by simp)
  | a :: b :: l, _, hp => by
      rw [List.sum_cons]
      have h1 := hp a (by simp)
      have h2 := list_sum_pos (b :: l) (by simp) (fun x hx => hp x (List.mem_cons_of_mem _ hx))
      linarith

theorem sum_map_div (s : ℝ) : ∀ l : List ℝ, (l.map (fun e => e / s)).sum = l.sum / s
  | [] => by simp
  | a :: l => by rw [List.map_cons, List.sum_cons, List.sum_cons, sum_map_div s l]; ring

theorem softmax_length (xs : List ℝ) : (softmax xs).length = xs.length := by
  unfold softmax; simp

/-- **softmax weights sum to one** -/
theorem softmax_sum_one (xs : List ℝ) (h : xs ≠ []) : (softmax xs).sum = 1 := by
  unfold softmax
  simp only [trans_exp_real]
  rw [sum_map_div]
  have hpos : 0 < (xs.map fun x => Real.exp (x - maxList xs)).sum := by
    apply list_sum_pos
    · simpa using h
    · intro x hx
      obtain ⟨y, _, rfl⟩ := List.mem_map.mp hx
      exact Real.exp_pos _
  exact div_self hpos.ne'

theorem softmax_nonneg (xs : List ℝ) : ∀ w ∈ softmax xs, 0 ≤ w := by
  intro w hw
  unfold softmax at hw
  simp only [trans_exp_real] at hw
  obtain ⟨e, he, rfl⟩ := List.mem_map.mp hw
  obtain ⟨y, _, rfl⟩ := List.mem_map.mp he
  by_cases hx : xs = []
  · subst hx; simp at he
  · have hpos : 0 < (xs.map fun x => Real.exp (x - maxList xs)).sum := by
      apply list_sum_pos
      · simpa using hx
      · intro x hx'
        obtain ⟨z, _, rfl⟩ := List.mem_map.mp hx'
        exact Real.exp_pos _
    exact div_nonneg (Real.exp_pos _).le hpos.le

theorem length_cumsumFrom' {β : Type} [Add β] (acc : β) (l : List β) : (cumsumFrom acc l).length = l.length := by
  induction l generalizing acc with
  | nil => rfl
  | cons a l ih => simp [cumsumFrom, ih]

theorem pieceWeights_length (τ : ℝ) (grid : List ℝ) (t : ℝ) : (pieceWeights τ grid t).length = grid.length + 1 := by
  unfold pieceWeights cumsum
  simp [softmax_length, length_cumsumFrom']

/-- the weights over the pieces at any time sum to one -/
theorem pieceWeights_sum_one (τ : ℝ) (grid : List ℝ) (t : ℝ) : (pieceWeights τ grid t).sum = 1 := by
  unfold pieceWeights
  apply softmax_sum_one
  intro h
  have := congrArg List.length h
  simp [cumsum, softmax_length, length_cumsumFrom'] at this

theorem pieceWeights_nonneg (τ : ℝ) (grid : List ℝ) (t : ℝ) : ∀ w ∈ pieceWeights τ grid t, 0 ≤ w := by
  unfold pieceWeights
  exact softmax_nonneg _

/-- every row of the relaxed permutation sums to one -/
theorem softSortRows_sum_one (τ : ℝ) (heights : List ℝ) (h : heights ≠ []) :
    ∀ row ∈ softSortRows τ heights, row.sum = 1 := by
  intro row hrow
  unfold softSortRows at hrow
  obtain ⟨s, _, rfl⟩ := List.mem_map.mp hrow
  apply softmax_sum_one
  simpa using h

theorem zipWith_replicate_right (c : ℝ) : ∀ (w : List ℝ) (n : ℕ), w.length ≤ n →
    List.zipWith (fun a b => a * b) w (List.replicate n c) = w.map (fun a => a * c)
  | [], _, _ => by simp
  | a :: w, 0, h => by simp at h
  | a :: w, n + 1, h => by
      rw [List.replicate_succ, List.zipWith_cons_cons, List.map_cons,
        zipWith_replicate_right c w n (by simpa using h)]

theorem sum_map_mul_const (c : ℝ) : ∀ l : List ℝ, (l.map (fun a => a * c)).sum = l.sum * c
  | [] => by simp
  | a :: l => by rw [List.map_cons, List.sum_cons, List.sum_cons, sum_map_mul_const c l]; ring

/-- all pieces equal: the relaxed population size is that value at every time -/
theorem softTheta_all_equal (τ θ₀ : ℝ) (grid : List ℝ) (t : ℝ) :
    softTheta τ (List.replicate (grid.length + 1) θ₀) grid t = θ₀ := by
  unfold softTheta dot
  rw [zipWith_replicate_right θ₀ _ _ (le_of_eq (pieceWeights_length τ grid t)), sum_map_mul_const,
    pieceWeights_sum_one, one_mul]

/-- a weighted mean lies between bounds of its terms -/
theorem dot_bounds (lo hi : ℝ) : ∀ (w x : List ℝ), w.length = x.length → (∀ a ∈ w, 0 ≤ a) →
    (∀ b ∈ x, lo ≤ b ∧ b ≤ hi) → lo * w.sum ≤ dot w x ∧ dot w x ≤ hi * w.sum
  | [], [], _, _, _ => by simp [dot]
  | [], _ :: _, h, _, _ => by simp at h
  | _ :: _, [], h, _, _ => by simp at h
  | a :: w, b :: x, h, hw, hx => by
      have ih := dot_bounds lo hi w x (by simpa using h) (fun a ha => hw a (List.mem_cons_of_mem _ ha))
        (fun b hb => hx b (List.mem_cons_of_mem _ hb))
      have ha := hw a List.mem_cons_self
      have hb := hx b List.mem_cons_self
      unfold dot at ih ⊢
      simp only [List.zipWith_cons_cons, List.sum_cons]
      constructor
      · nlinarith [ih.1, mul_le_mul_of_nonneg_left hb.1 ha]
      · nlinarith [ih.2, mul_le_mul_of_nonneg_left hb.2 ha]

/-- the relaxed population size is a convex combination of the `θ_k` -/
theorem softTheta_between (τ : ℝ) (θ grid : List ℝ) (t lo hi : ℝ) (hθ : θ.length = grid.length + 1)
    (hb : ∀ b ∈ θ, lo ≤ b ∧ b ≤ hi) : lo ≤ softTheta τ θ grid t ∧ softTheta τ θ grid t ≤ hi := by
  have h := dot_bounds lo hi (pieceWeights τ grid t) θ (by rw [pieceWeights_length, hθ])
    (pieceWeights_nonneg τ grid t) hb
  rw [pieceWeights_sum_one, mul_one, mul_one] at h
  exact h

theorem zipWith3_replicate_third {β γ : Type} (f : β → γ → ℝ → ℝ) (c : ℝ) : ∀ (ks : List β) (ds : List γ) (n : ℕ),
    ds.length ≤ n → zipWith3 f ks ds (List.replicate n c) = List.zipWith (fun k d => f k d c) ks ds
  | [], _, _, _ => by simp [zipWith3]
  | _ :: _, [], _, _ => by simp [zipWith3]
  | k :: ks, d :: ds, 0, h => by simp at h
  | k :: ks, d :: ds, n + 1, h => by
      rw [List.replicate_succ]
      simp only [zipWith3, List.zipWith_cons_cons]
      rw [zipWith3_replicate_third f c ks ds n (by simpa using h)]

theorem length_diffs' : ∀ (l : List ℝ), (diffs l).length = l.length - 1
  | [] => rfl
  | [_] => rfl
  | a :: b :: l => by
      have := length_diffs' (b :: l)
      simp only [diffs, List.length_cons] at this ⊢
      omega

end TT.C08
