import TTProofs.Lemmas.C09_Const
/-! C09: the single-epoch model with a removal probability, unfolded. -/
open TT TT.C09
namespace TT.C09

theorem logProb_single_rem (r : Rates ℝ) (rr : Nat → ℝ) (t : Nat → ℝ) (T : ℝ) (h0 : t 0 = 0) (h1 : t 1 = T)
    (surv : Bool) (tips ints : List ℝ) (hT : 0 < T)
    (hints : ∀ h ∈ ints, 0 < h ∧ h < T) (htips : ∀ h ∈ tips, 0 ≤ h ∧ h < T) :
    logProb r (some rr) t 1 surv tips ints =
      (Real.log (qv (Acoef r 0) (Bcoef r 0 1) T) - (if surv then Real.log (1 - pStep r 0 T 1) else 0))
      + (ints.map fun h => Real.log (r.lam 0) + Real.log (qv (Acoef r 0) (Bcoef r 0 1) h)).sum
      + (tips.map fun h => if h = 0 ∧ 0 < r.rho 0 then 0
          else Real.log (r.psi 0 * (rr 0 + (1 - rr 0) * pClosed (r.lam 0) (r.mu 0) (r.psi 0) (Acoef r 0) (Bcoef r 0 1) h))
            - Real.log (qv (Acoef r 0) (Bcoef r 0 1) h)).sum
      + ((tips.filter (· = 0)).length : ℝ)
          * Real.log (if 0 < (tips.filter (· = 0)).length ∧ 0 < r.rho 0 then r.rho 0 else 1)
      + Real.log 2 * ((tips.length - 1 : ℕ) : ℝ) := by
  unfold logProb
  simp only [h1, sumList_eq_sum, List.map_map, BAt_single, pAt_single_zero r t T h0 h1, logq_eq, trans_log_real,
    Nat.sub_self, List.range_zero, List.map_nil, List.sum_nil, add_zero, sub_zero, two_real, ofNat_real,
    pAt_single_one, List.length_map]
  have hb : (ints.map ((fun x => Real.log (r.lam (idxX t 1 x)) +
        Real.log (qv (Acoef r (idxX t 1 x)) (BAt r t 1 (idxX t 1 x)) (t (idxX t 1 x + 1) - x))) ∘ fun h => T - h)).sum
      = (ints.map fun h => Real.log (r.lam 0) + Real.log (qv (Acoef r 0) (Bcoef r 0 1) h)).sum := by
    congr 1
    apply List.map_congr_left
    intro h hm
    have := hints h hm
    simp only [Function.comp, idxX_single t T h0 h1 h this.1 this.2.le, BAt_single, h1, sub_sub_cancel]
  have hn : nAt t 0 (List.map (fun h => T - h) tips) = (tips.filter (· = 0)).length := by
    unfold nAt
    rw [List.filter_map, List.length_map]
    congr 1
    apply List.filter_congr
    intro h _
    simp only [Function.comp, h1]
    by_cases hh : h = 0
    · subst hh; simp
    · have : ¬ T - h = T := by intro e; apply hh; linarith
      simp [hh, this]
  rw [hb]
  -- psi-sampled tips
  have hs : (if ((List.map (fun h => T - h) tips).any fun y => !isRhoTip r t 1 y) = true then
        (tips.map ((fun y => if isRhoTip r t 1 y = true then 0 else
          Real.log (r.psi (idxY t 1 y) * (rr (idxY t 1 y) + (1 - rr (idxY t 1 y)) *
              p0 (r.lam (idxY t 1 y)) (r.mu (idxY t 1 y)) (r.psi (idxY t 1 y)) (Acoef r (idxY t 1 y))
                (BAt r t 1 (idxY t 1 y)) (t (idxY t 1 y + 1)) y))
            - Real.log (qv (Acoef r (idxY t 1 y)) (BAt r t 1 (idxY t 1 y)) (t (idxY t 1 y + 1) - y)))
            ∘ fun h => T - h)).sum else 0)
      = (tips.map fun h => if h = 0 ∧ 0 < r.rho 0 then 0
          else Real.log (r.psi 0 * (rr 0 + (1 - rr 0) * pClosed (r.lam 0) (r.mu 0) (r.psi 0) (Acoef r 0) (Bcoef r 0 1) h))
            - Real.log (qv (Acoef r 0) (Bcoef r 0 1) h)).sum := by
    rw [← List.map_map]
    rw [ite_any_sum' (tips.map fun h => T - h) (isRhoTip r t 1)]
    rw [List.map_map]
    congr 1
    apply List.map_congr_left
    intro h hm
    have := htips h hm
    simp only [Function.comp, isRhoTip_single r t T h0 h1 h this.2, idxY_single, BAt_single, h1, decide_eq_true_eq,
      sub_sub_cancel, p0]
  rw [hs]
  simp only [List.range_one, List.map_cons, List.map_nil, List.sum_cons, List.sum_nil, add_zero, hn,
    pAt_single_one]
  have hp1 : pAt r t 1 (0 + 1) = 1 := pAt_single_one r t
  have h1' : rr 0 + (1 - rr 0) * 1 = 1 := by ring
  rw [hp1, h1']
  cases surv <;> simp <;> ring

end TT.C09
