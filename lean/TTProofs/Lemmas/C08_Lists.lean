import TTModel.C08_Coalescent
import Mathlib.Data.List.Sort
import Mathlib.Data.Real.Basic
import Mathlib.Algebra.BigOperators.Group.List.Basic
import Mathlib.Tactic.Ring
import Mathlib.Tactic.Linarith
/-!
# C08 — list-level lemmas (no analysis)

* `sortEvents` returns a time-sorted permutation of its input;
* the `cumsum(...)[:-1]` / `x[1:] - x[:-1]` / `gather` formulation of the code equals a recursive walk
  over the sorted list carrying the running lineage count `k` and the running theta index `j`;
* the declarative counters `kAt` (marks strictly before `x`) and `jAt` are permutation invariant.
-/
namespace TT.C08

/-- sorted by time (ties in any order) -/
def TimeSorted (l : List (Ev ℝ)) : Prop := l.Pairwise (fun a b => a.t ≤ b.t)

theorem insertEv_perm (e : Ev ℝ) : ∀ l : List (Ev ℝ), (insertEv e l).Perm (e :: l)
  | [] => by simp [insertEv]
  | x :: xs => by
      unfold insertEv
      split
      · exact List.Perm.refl _
      · exact ((insertEv_perm e xs).cons x).trans (List.Perm.swap e x xs)

theorem sortEvents_perm : ∀ l : List (Ev ℝ), (sortEvents l).Perm l
  | [] => by simp [sortEvents]
  | e :: es => by
      unfold sortEvents
      exact (insertEv_perm e _).trans ((sortEvents_perm es).cons e)

theorem insertEv_sorted (e : Ev ℝ) : ∀ l : List (Ev ℝ), TimeSorted l → TimeSorted (insertEv e l)
  | [], _ => by simp [insertEv, TimeSorted]
  | x :: xs, h => by
      unfold insertEv
      have hx := List.pairwise_cons.mp h
      split
      · rename_i hle
        refine List.pairwise_cons.mpr ⟨?_, h⟩
        intro b hb
        rcases List.mem_cons.mp hb with rfl | hb
        · exact hle
        · exact le_trans hle (hx.1 b hb)
      · rename_i hle
        refine List.pairwise_cons.mpr ⟨?_, insertEv_sorted e xs hx.2⟩
        intro b hb
        have := (insertEv_perm e xs).mem_iff.mp hb
        rcases List.mem_cons.mp this with rfl | hb
        · exact le_of_lt (not_le.mp hle)
        · exact hx.1 b hb

theorem sortEvents_sorted : ∀ l : List (Ev ℝ), TimeSorted (sortEvents l)
  | [] => by simp [sortEvents, TimeSorted]
  | e :: es => by
      unfold sortEvents
      exact insertEv_sorted e _ (sortEvents_sorted es)

/-! ### declarative counters -/

/-- sum of the marks of the events strictly before `x` -/
noncomputable def kAt (l : List (Ev ℝ)) (x : ℝ) : ℤ := ((l.filter (fun e => decide (e.t < x))).map (·.mark)).sum

/-- number of events with mark `v` strictly before `x` -/
noncomputable def jAt (v : Int) (l : List (Ev ℝ)) (x : ℝ) : ℕ := l.countP (fun e => decide (e.mark = v ∧ e.t < x))

theorem kAt_perm {l l' : List (Ev ℝ)} (h : l.Perm l') (x : ℝ) : kAt l x = kAt l' x :=
  ((h.filter _).map _).sum_eq

theorem jAt_perm (v : Int) {l l' : List (Ev ℝ)} (h : l.Perm l') (x : ℝ) : jAt v l x = jAt v l' x :=
  h.countP_eq _

theorem kAt_cons (e : Ev ℝ) (l : List (Ev ℝ)) (x : ℝ) :
    kAt (e :: l) x = (if e.t < x then e.mark else 0) + kAt l x := by
  unfold kAt
  by_cases h : e.t < x <;> simp [h]

theorem jAt_cons (v : Int) (e : Ev ℝ) (l : List (Ev ℝ)) (x : ℝ) :
    jAt v (e :: l) x = (if e.mark = v ∧ e.t < x then 1 else 0) + jAt v l x := by
  unfold jAt
  rw [List.countP_cons]
  by_cases h : e.mark = v ∧ e.t < x <;> simp [h, add_comm]

theorem kAt_append (l l' : List (Ev ℝ)) (x : ℝ) : kAt (l ++ l') x = kAt l x + kAt l' x := by
  unfold kAt; simp [List.filter_append]

theorem jAt_append (v : Int) (l l' : List (Ev ℝ)) (x : ℝ) : jAt v (l ++ l') x = jAt v l x + jAt v l' x := by
  unfold jAt; simp [List.countP_append]

/-- no event strictly before `x` when every event is at or after `x` -/
theorem kAt_eq_zero {l : List (Ev ℝ)} {x : ℝ} (h : ∀ e ∈ l, x ≤ e.t) : kAt l x = 0 := by
  unfold kAt
  rw [List.filter_eq_nil_iff.mpr]
  · simp
  · intro e he; simpa using h e he

theorem jAt_eq_zero (v : Int) {l : List (Ev ℝ)} {x : ℝ} (h : ∀ e ∈ l, x ≤ e.t) : jAt v l x = 0 := by
  unfold jAt
  rw [List.countP_eq_zero]
  intro e he
  have := h e he
  simp only [decide_eq_true_eq, not_and, not_lt]
  intro _; exact this

/-- every event strictly before `x`: all marks are counted -/
theorem kAt_eq_total {l : List (Ev ℝ)} {x : ℝ} (h : ∀ e ∈ l, e.t < x) :
    kAt l x = (l.map (·.mark)).sum := by
  unfold kAt
  rw [List.filter_eq_self.mpr]
  intro e he; simpa using h e he

/-! ### the time of the last event -/

/-- time of the last element of `e :: l` -/
def lastTime (e : Ev ℝ) : List (Ev ℝ) → ℝ
  | [] => e.t
  | x :: xs => lastTime x xs

theorem le_lastTime : ∀ (l : List (Ev ℝ)) (e : Ev ℝ), TimeSorted (e :: l) → ∀ x ∈ e :: l, x.t ≤ lastTime e l
  | [], e, _, x, hx => by
      simp only [List.mem_singleton] at hx; subst hx; exact le_refl _
  | y :: ys, e, h, x, hx => by
      have hp := List.pairwise_cons.mp h
      show x.t ≤ lastTime y ys
      rcases List.mem_cons.mp hx with rfl | hx
      · exact le_trans (hp.1 y (List.mem_cons_self)) (le_lastTime ys y hp.2 y (List.mem_cons_self))
      · exact le_lastTime ys y hp.2 x hx

/-! ### the code's cumsum / slice formulation as a walk over the sorted list -/

/-- walk over consecutive pairs of events; `k` = lineage count and `j` = number of events with mark `v`
seen so far (both *before* the current head is added); `c k j a b` is the contribution of the interval
`[a, b]` lying after the head -/
def walk (c : ℤ → ℕ → ℝ → ℝ → ℝ) (v : Int) (k : ℤ) (j : ℕ) : List (Ev ℝ) → ℝ
  | e1 :: e2 :: rest =>
      c (k + e1.mark) (j + if e1.mark = v then 1 else 0) e1.t e2.t
        + walk c v (k + e1.mark) (j + if e1.mark = v then 1 else 0) (e2 :: rest)
  | _ => 0

/-- three-list form: `zip(cumsum(mask)[:-1], diffs, cumsum(mask == v)[:-1])` -/
theorem zipWith3_eq_walk (f : ℤ → ℝ → ℕ → ℝ) (v : Int) :
    ∀ (ev : List (Ev ℝ)) (k : ℤ) (j : ℕ),
      (zipWith3 f (cumsumFrom k (marks ev)).dropLast (diffs (times ev))
        (cumsumFrom j (isMark v (marks ev))).dropLast).sum
        = walk (fun k j a b => f k (b - a) j) v k j ev
  | [], _, _ => by simp [marks, times, isMark, cumsumFrom, diffs, zipWith3, walk]
  | [e], _, _ => by simp [marks, times, isMark, cumsumFrom, diffs, zipWith3, walk]
  | e1 :: e2 :: rest, k, j => by
      have ih := zipWith3_eq_walk f v (e2 :: rest) (k + e1.mark) (j + if e1.mark = v then 1 else 0)
      simp only [marks, times, isMark, List.map_cons, cumsumFrom, List.dropLast_cons_cons, diffs, zipWith3,
        List.sum_cons, walk] at ih ⊢
      rw [ih]

/-- two-list form with the times mapped through `H` first (`H = id`: durations; `H = exp(· g)`) -/
theorem zipWith_eq_walk (f : ℤ → ℝ → ℝ) (H : ℝ → ℝ) (v : Int) :
    ∀ (ev : List (Ev ℝ)) (k : ℤ) (j : ℕ),
      (List.zipWith f (cumsumFrom k (marks ev)).dropLast (diffs ((times ev).map H))).sum
        = walk (fun k _ a b => f k (H b - H a)) v k j ev
  | [], _, _ => by simp [marks, times, cumsumFrom, diffs, walk]
  | [e], _, _ => by simp [marks, times, cumsumFrom, diffs, walk]
  | e1 :: e2 :: rest, k, j => by
      have ih := zipWith_eq_walk f H v (e2 :: rest) (k + e1.mark) (j + if e1.mark = v then 1 else 0)
      simp only [marks, times, List.map_cons, cumsumFrom, List.dropLast_cons_cons, diffs, List.zipWith_cons_cons,
        List.sum_cons, walk] at ih ⊢
      rw [ih]

/-- point terms: sum over the coalescent events of `ψ` at the running (inclusive) count of `v`-marks -/
def pts (ψ : ℕ → ℝ) (v : Int) (j : ℕ) : List (Ev ℝ) → ℝ
  | [] => 0
  | e :: rest =>
      (if e.mark = -1 then ψ (j + if e.mark = v then 1 else 0) else 0)
        + pts ψ v (j + if e.mark = v then 1 else 0) rest

theorem zipWith_eq_pts (ψ : ℕ → ℝ) (v : Int) :
    ∀ (ev : List (Ev ℝ)) (j : ℕ),
      (List.zipWith (fun m i => if m = -1 then ψ i else (0 : ℝ)) (marks ev)
        (cumsumFrom j (isMark v (marks ev)))).sum = pts ψ v j ev
  | [], _ => by simp [marks, isMark, cumsumFrom, pts]
  | e :: rest, j => by
      have ih := zipWith_eq_pts ψ v rest (j + if e.mark = v then 1 else 0)
      simp only [marks, isMark, List.map_cons, cumsumFrom, List.zipWith_cons_cons, List.sum_cons, pts] at ih ⊢
      rw [ih]

/-- on a time-sorted list in which no `v`-marked event shares its time with a coalescent event, the
running count at a coalescent event is the declarative count `jAt` at its time -/
theorem pts_eq_sum (ψ : ℕ → ℝ) (v : Int) (hv : v ≠ -1) :
    ∀ (l : List (Ev ℝ)) (j : ℕ), TimeSorted l →
      (∀ e ∈ l, ∀ e' ∈ l, e.mark = v → e'.mark = -1 → e.t ≠ e'.t) →
      pts ψ v j l = ((l.filter (fun e => decide (e.mark = -1))).map (fun e => ψ (j + jAt v l e.t))).sum
  | [], _, _, _ => by simp [pts]
  | e :: rest, j, hs, hne => by
      have hp := List.pairwise_cons.mp hs
      have ih := pts_eq_sum ψ v hv rest (j + if e.mark = v then 1 else 0) hp.2
        (fun a ha b hb => hne a (List.mem_cons_of_mem _ ha) b (List.mem_cons_of_mem _ hb))
      -- the tail sum, rewritten with the counter of the longer list
      have htail : ((rest.filter (fun e => decide (e.mark = -1))).map
            (fun e' => ψ (j + jAt v (e :: rest) e'.t))).sum
          = ((rest.filter (fun e => decide (e.mark = -1))).map
            (fun e' => ψ ((j + if e.mark = v then 1 else 0) + jAt v rest e'.t))).sum := by
        congr 1
        apply List.map_congr_left
        intro e' he'
        have hmem := (List.mem_filter.mp he')
        have hm : e'.mark = -1 := by simpa using hmem.2
        rw [jAt_cons]
        by_cases hev : e.mark = v
        · have hlt : e.t < e'.t := lt_of_le_of_ne (hp.1 e' hmem.1)
            (hne e (List.mem_cons_self) e' (List.mem_cons_of_mem _ hmem.1) hev hm)
          simp [hev, hlt, add_assoc]
        · simp [hev]
      unfold pts
      rw [ih, List.filter_cons]
      by_cases hm : e.mark = -1
      · have hev : ¬ e.mark = v := by rw [hm]; exact fun h => hv h.symm
        have h0 : jAt v (e :: rest) e.t = 0 := by
          apply jAt_eq_zero
          intro a ha
          rcases List.mem_cons.mp ha with rfl | ha
          · exact le_refl _
          · exact hp.1 a ha
        have hd : decide (e.mark = -1) = true := by simp [hm]
        rw [if_pos hm, if_pos hd, List.map_cons, List.sum_cons, h0, htail, if_neg hev]
      · have hd : ¬ decide (e.mark = -1) = true := by simp [hm]
        rw [if_neg hm, if_neg hd, htail, zero_add]

end TT.C08
