import TTProofs.Lemmas.C09_ODE
import Mathlib.Analysis.ODE.ExistUnique
/-! C09: uniqueness of the solutions of the master equations on one epoch (Grönwall). -/
open TT TT.C09 Set
namespace TT.C09

/-- the Riccati right-hand side is Lipschitz on a bounded interval -/
theorem riccati_lipschitz (lam mu psi M : ℝ) (hM : 0 ≤ M) :
    LipschitzOnWith (Real.toNNReal (|lam + mu + psi| + 2 * |lam| * M))
      (fun x : ℝ => mu - (lam + mu + psi) * x + lam * x ^ 2) (Icc (-M) M) := by
  apply LipschitzOnWith.of_dist_le_mul
  intro x hx y hy
  rw [Real.dist_eq, Real.dist_eq, Real.coe_toNNReal _ (by positivity)]
  have h1 : mu - (lam + mu + psi) * x + lam * x ^ 2 - (mu - (lam + mu + psi) * y + lam * y ^ 2)
      = (x - y) * (-(lam + mu + psi) + lam * (x + y)) := by ring
  rw [h1, abs_mul, mul_comm]
  apply mul_le_mul_of_nonneg_right _ (abs_nonneg _)
  have hxy : |x + y| ≤ 2 * M := by
    rw [abs_le]; constructor <;> linarith [hx.1, hx.2, hy.1, hy.2]
  calc |-(lam + mu + psi) + lam * (x + y)| ≤ |-(lam + mu + psi)| + |lam * (x + y)| := abs_add_le _ _
    _ = |lam + mu + psi| + |lam| * |x + y| := by rw [abs_neg, abs_mul]
    _ ≤ |lam + mu + psi| + |lam| * (2 * M) := by gcongr
    _ = |lam + mu + psi| + 2 * |lam| * M := by ring

/-- **uniqueness for `p` on one epoch**: any function that is continuous on `[0, Δ]`, satisfies the master equation
`f' = μ − (λ+μ+ψ) f + λ f²` on `[0, Δ)` (right derivative) and starts from the same value at the end of the epoch
(`d = 0`) is the closed form on the whole epoch -/
theorem riccati_unique (lam mu psi A B Δ : ℝ) (hlam : lam ≠ 0)
    (hA2 : A * A = (lam + mu + psi) ^ 2 - 4 * lam * mu)
    (hD : ∀ d, 0 ≤ d → Real.exp (A * d) * (1 + B) + (1 - B) ≠ 0)
    (f : ℝ → ℝ) (hf : ContinuousOn f (Icc 0 Δ))
    (hf' : ∀ d ∈ Ico 0 Δ, HasDerivWithinAt f (mu - (lam + mu + psi) * f d + lam * (f d) ^ 2) (Ici d) d)
    (h0 : f 0 = pClosed lam mu psi A B 0) :
    EqOn f (fun d => pClosed lam mu psi A B d) (Icc 0 Δ) := by
  have hPd : ∀ d, 0 ≤ d → HasDerivAt (fun d => pClosed lam mu psi A B d)
      (mu - (lam + mu + psi) * pClosed lam mu psi A B d + lam * (pClosed lam mu psi A B d) ^ 2) d :=
    fun d hd => hasDerivAt_pClosed lam mu psi A B d hlam hA2 (hD d hd)
  have hPc : ContinuousOn (fun d => pClosed lam mu psi A B d) (Icc 0 Δ) :=
    fun d hd => (hPd d hd.1).continuousAt.continuousWithinAt
  obtain ⟨C1, hC1⟩ := isCompact_Icc.exists_bound_of_continuousOn hf
  obtain ⟨C2, hC2⟩ := isCompact_Icc.exists_bound_of_continuousOn hPc
  set M := max (max C1 C2) 0 with hM
  have hM0 : 0 ≤ M := le_max_right _ _
  have hin : ∀ (g : ℝ → ℝ) (C : ℝ), (∀ x ∈ Icc (0:ℝ) Δ, ‖g x‖ ≤ C) → C ≤ M → ∀ d ∈ Ico 0 Δ, g d ∈ Icc (-M) M := by
    intro g C hC hCM d hd
    have := hC d ⟨hd.1, hd.2.le⟩
    rw [Real.norm_eq_abs, abs_le] at this
    exact ⟨by linarith [this.1], by linarith [this.2]⟩
  exact ODE_solution_unique_of_mem_Icc_right (v := fun _ x => mu - (lam + mu + psi) * x + lam * x ^ 2)
    (s := fun _ => Icc (-M) M)
    (fun _ _ => riccati_lipschitz lam mu psi M hM0) hf hf'
    (hin f C1 hC1 (le_trans (le_max_left _ _) (le_max_left _ _))) hPc
    (fun d hd => (hPd d hd.1).hasDerivWithinAt)
    (hin _ C2 hC2 (le_trans (le_max_right _ _) (le_max_left _ _))) h0

/-- **uniqueness for the branch factor on one epoch**: any continuous `g` satisfying the linear master equation
`g' = −(λ+μ+ψ − 2λ p(d)) g` along the closed form `p`, with `g(0) = g0` at the end of the epoch, is `g0 · q` -/
theorem branch_unique (lam mu psi A B Δ : ℝ) (hlam : lam ≠ 0)
    (hA2 : A * A = (lam + mu + psi) ^ 2 - 4 * lam * mu)
    (hD : ∀ d, 0 ≤ d → Real.exp (A * d) * (1 + B) + (1 - B) ≠ 0)
    (g : ℝ → ℝ) (g0 : ℝ) (hg : ContinuousOn g (Icc 0 Δ))
    (hg' : ∀ d ∈ Ico 0 Δ, HasDerivWithinAt g (-(lam + mu + psi - 2 * lam * pClosed lam mu psi A B d) * g d) (Ici d) d)
    (h0 : g 0 = g0) :
    EqOn g (fun d => g0 * qv A B d) (Icc 0 Δ) := by
  have hPd : ∀ d, 0 ≤ d → HasDerivAt (fun d => pClosed lam mu psi A B d)
      (mu - (lam + mu + psi) * pClosed lam mu psi A B d + lam * (pClosed lam mu psi A B d) ^ 2) d :=
    fun d hd => hasDerivAt_pClosed lam mu psi A B d hlam hA2 (hD d hd)
  have hPc : ContinuousOn (fun d => pClosed lam mu psi A B d) (Icc 0 Δ) :=
    fun d hd => (hPd d hd.1).continuousAt.continuousWithinAt
  obtain ⟨C, hC⟩ := isCompact_Icc.exists_bound_of_continuousOn hPc
  have hqd : ∀ d, 0 ≤ d → HasDerivAt (fun d => g0 * qv A B d)
      (-(lam + mu + psi - 2 * lam * pClosed lam mu psi A B d) * (g0 * qv A B d)) d := by
    intro d hd
    exact ((hasDerivAt_qv lam mu psi A B d hlam (hD d hd)).const_mul g0).congr_deriv (by ring)
  have hqc : ContinuousOn (fun d => g0 * qv A B d) (Icc 0 Δ) :=
    fun d hd => (hqd d hd.1).continuousAt.continuousWithinAt
  have hlip : ∀ d ∈ Ico (0:ℝ) Δ, LipschitzOnWith (Real.toNNReal (|lam + mu + psi| + 2 * |lam| * max C 0))
      (fun x : ℝ => -(lam + mu + psi - 2 * lam * pClosed lam mu psi A B d) * x) univ := by
    intro d hd
    apply LipschitzOnWith.of_dist_le_mul
    intro x _ y _
    rw [Real.dist_eq, Real.dist_eq, Real.coe_toNNReal _ (by positivity)]
    have : -(lam + mu + psi - 2 * lam * pClosed lam mu psi A B d) * x
        - -(lam + mu + psi - 2 * lam * pClosed lam mu psi A B d) * y
        = -(lam + mu + psi - 2 * lam * pClosed lam mu psi A B d) * (x - y) := by ring
    rw [this, abs_mul]
    apply mul_le_mul_of_nonneg_right _ (abs_nonneg _)
    have hP := hC d ⟨hd.1, hd.2.le⟩
    rw [Real.norm_eq_abs] at hP
    calc |-(lam + mu + psi - 2 * lam * pClosed lam mu psi A B d)|
        = |lam + mu + psi - 2 * lam * pClosed lam mu psi A B d| := abs_neg _
      _ ≤ |lam + mu + psi| + |2 * lam * pClosed lam mu psi A B d| := abs_sub _ _
      _ = |lam + mu + psi| + 2 * |lam| * |pClosed lam mu psi A B d| := by rw [abs_mul, abs_mul]; simp
      _ ≤ |lam + mu + psi| + 2 * |lam| * max C 0 := by
          have : |pClosed lam mu psi A B d| ≤ max C 0 := le_trans hP (le_max_left _ _)
          gcongr
  exact ODE_solution_unique_of_mem_Icc_right
    (v := fun d x => -(lam + mu + psi - 2 * lam * pClosed lam mu psi A B d) * x) (s := fun _ => univ)
    hlip hg hg' (fun _ _ => mem_univ _) hqc (fun d hd => (hqd d hd.1).hasDerivWithinAt) (fun _ _ => mem_univ _)
    (by simp [h0, qv_zero])

end TT.C09
