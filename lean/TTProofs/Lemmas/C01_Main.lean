import TTModel.C01_Tree
import TTModel.C01_Pruning
import TTModel.C01_Patterns
import TTProofs.Lemmas.C01_Pruning
import TTProofs.Lemmas.C01_Tree
import TTProofs.Lemmas.C01_TipStates
import TTProofs.Lemmas.C01_Patterns
/-! C01 main results at lemma level (restated as the property theorems in `Props/C01.lean`, reused by C02) -/
namespace TT.C01

theorem peel_eq_marginal {R : Type} [CommSemiring R] {K S : Nat}
    (π : Fin S → R) (props : Fin K → R) (mats : Mats R K S) (tip : Nat → Fin S → R)
    (n : Nat) (l r : BTree) (hleaves : ∀ i ∈ (BTree.node l r).leaves, i < n) :
    siteLik π props mats (postorder (setupIndexes n (.node l r))) n tip
      = some (marginal π props mats tip (setupIndexes n (.node l r))) := by
  have hwf := setupIndexes_WF n (.node l r) hleaves
  obtain ⟨i, il, ir, e⟩ := setupIndexes_node n l r
  rw [e] at hwf ⊢
  unfold siteLik
  rw [rootPartial_postorder mats tip n i il ir hwf, Option.map_some, rootSum_eq_marginal]

theorem tipStates_eq_tipPartials {R : Type} [CommSemiring R] {K S : Nat}
    (π : Fin S → R) (props : Fin K → R) (mats : Mats R K S) (tipState : Nat → Nat)
    (n : Nat) (l r : BTree) (hleaves : ∀ i ∈ (BTree.node l r).leaves, i < n)
    (hn : (BTree.node l r).leaves.length = n)
    (hrow : ∀ b k s, ∑ j, mats b k s j = 1) :
    siteLikTS π props mats (postorder (setupIndexes n (.node l r))) tipState
      = siteLik π props mats (postorder (setupIndexes n (.node l r))) n
          (fun i => stateVec (tipState i)) := by
  have hwf := setupIndexes_WF n (.node l r) hleaves
  have hlen : (postorder (setupIndexes n (.node l r))).length + 1 = n := by
    rw [postorder_length, setupIndexes_internals, List.length_range', ← BTree.leaves_length, hn]
  obtain ⟨i, il, ir, e⟩ := setupIndexes_node n l r
  rw [e] at hwf hlen ⊢
  rw [siteLikTS_eq mats tipState n hrow π props i il ir hwf hlen]
  unfold siteLik
  rw [rootPartial_postorder mats _ n i il ir hwf, Option.map_some]

theorem compress_sum {C : Type} [DecidableEq C] [LT C] [DecidableLT C] {M : Type} [AddCommMonoid M]
    (f : C → M) (cols : List C) :
    ((compress cols).map fun pw => pw.2 • f pw.1).sum = (cols.map f).sum := by
  unfold compress
  rw [foldl_insertCount_sum]
  simp

end TT.C01
