import TTModel.C10_Shapes
import Mathlib.Algebra.BigOperators.Group.List.Basic
/-! helper lemmas for C10: `longest`, `indices`, pieces produced by the branches of the joint reduction -/
namespace TT.C10

/-! ### `longest` (Python `max(..., key=len)`) -/

theorem longest_mem : ∀ (l : List Shape), l ≠ [] → longest l ∈ l
  | [], h => absurd rfl h
  | [s], _ => by simp [longest]
  | s :: t :: rest, _ => by
    have ih := longest_mem (t :: rest) (by simp)
    simp only [longest]
    split
    · simp
    · exact List.mem_cons_of_mem _ ih

theorem longest_length_max : ∀ (l : List Shape) (s : Shape), s ∈ l → s.length ≤ (longest l).length
  | [], _, h => by simp at h
  | [a], s, h => by simp at h; subst h; simp [longest]
  | a :: t :: rest, s, h => by
    have ih := longest_length_max (t :: rest)
    simp only [longest]
    rcases List.mem_cons.mp h with h | h
    · subst h; split <;> omega
    · have := ih s h
      split <;> omega

theorem longest_all_eq (J : Shape) : ∀ (l : List Shape), l ≠ [] → (∀ s ∈ l, s = J) → longest l = J
  | l, hne, h => h _ (longest_mem l hne)

/-! ### `indices` -/

theorem indices_nil : indices [] = [[]] := rfl

theorem indices_one : indices [1] = [[0]] := by
  simp [indices, List.range_succ]

variable {α : Type} [AddCommMonoid α]

theorem sum_singleton' (a : α) : [a].sum = a := by simp

theorem sum_flatMap' {β : Type} (l : List β) (g : β → List α) :
    (l.flatMap g).sum = (l.map fun a => (g a).sum).sum := by
  induction l with
  | nil => simp
  | cons a l ih => simp [List.flatMap_cons, List.sum_append, ih]

/-- summing over the indices of `A ++ B` = summing over `A` then over `B` -/
theorem sum_indices_append (f : List Nat → α) : ∀ (A B : Shape),
    ((indices (A ++ B)).map f).sum =
      ((indices A).map fun a => ((indices B).map fun b => f (a ++ b)).sum).sum
  | [], B => by simp [indices]
  | d :: A, B => by
    have ih := fun g => sum_indices_append g A B
    simp only [List.cons_append, indices, List.map_flatMap, sum_flatMap', List.map_map]
    congr 1
    apply List.map_congr_left
    intro i _
    have := ih (fun x => f (i :: x))
    simpa [Function.comp_def] using this

/-! ### shape algebra used by the branch analysis -/

theorem append_eq_self_left {J E : Shape} : J ++ E = J ↔ E = [] := by
  constructor
  · intro h
    have := congrArg List.length h
    simp at this
    exact this
  · intro h; simp [h]

theorem take_len_append (J E : Shape) : (J ++ E).take J.length = J := by simp

theorem drop_len_append (J E : Shape) : (J ++ E).drop J.length = E := by simp

theorem take_of_len_append (s x : List Nat) (n : Nat) (h : s.length = n) : (s ++ x).take n = s := by
  subst h; simp

end TT.C10
