import TTProofs.Lemmas.C09_Grid
import Mathlib.Tactic.NormNum
/-! C09: every `p_k` of the backward recursion is a probability. -/
open TT TT.C09
namespace TT.C09

/-- one step of the backward recursion maps probabilities to probabilities -/
theorem pStep_mem_unit (r : Rates ℝ) (i : Nat) (d pn : ℝ) (hlam : 0 < r.lam i) (hmu : 0 ≤ r.mu i) (hpsi : 0 < r.psi i)
    (hr0 : 0 ≤ r.rho i) (hr1 : r.rho i ≤ 1) (hp0 : 0 ≤ pn) (hp1 : pn ≤ 1) (hd : 0 ≤ d) :
    0 ≤ pStep r i d pn ∧ pStep r i d pn ≤ 1 := by
  rw [pStep_eq_pClosed]
  have hA : 0 < Acoef r i := Acoef_pos r i (mul_pos hlam hpsi)
  have hB : -1 ≤ Bcoef r i pn := Bcoef_ge_neg_one r i pn (mul_pos hlam hpsi) hlam.le hp0 hp1 hr0
  have hAsq : Acoef r i * Acoef r i = (r.lam i - r.mu i - r.psi i) * (r.lam i - r.mu i - r.psi i) + 4 * r.lam i * r.psi i := by
    unfold Acoef
    simp only [trans_sqrt_real, four_real]
    exact Real.mul_self_sqrt (by nlinarith [mul_self_nonneg (r.lam i - r.mu i - r.psi i), mul_pos hlam hpsi])
  have habs := abs_le_Acoef r i (mul_pos hlam hpsi).le
  set A := Acoef r i
  set B := Bcoef r i pn with hBdef
  set lam := r.lam i
  set mu := r.mu i
  set psi := r.psi i
  set rho := r.rho i
  set c := (1 - 2 * (1 - rho) * pn) * lam + mu + psi with hc
  have hBA : B * A = c := by
    rw [hBdef, Bcoef_def]
    exact div_mul_cancel₀ _ hA.ne'
  set E := Real.exp (A * d) with hE
  have hE1 : 1 ≤ E := Real.one_le_exp (mul_nonneg hA.le hd)
  have hD := denom_ge_two A B d hB (mul_nonneg hA.le hd)
  set sm := lam + mu + psi with hs
  have hAs : A ≤ sm := by
    have h1 : A * A ≤ sm * sm := by rw [hAsq, hs]; nlinarith [mul_nonneg hlam.le hmu]
    have hs0 : 0 < sm := by rw [hs]; linarith
    nlinarith
  have hu1 : -(lam - mu - psi) ≤ A := by have := neg_abs_le (lam - mu - psi); linarith [neg_le_neg habs, neg_abs_le (lam - mu - psi), le_abs_self (lam - mu - psi)]
  have hu2 : lam - mu - psi ≤ A := le_trans (le_abs_self _) habs
  have hq : 0 ≤ (1 - rho) * pn ∧ (1 - rho) * pn ≤ 1 := by
    constructor
    · exact mul_nonneg (by linarith) hp0
    · nlinarith
  have hcs : c ≤ sm := by rw [hc, hs]; nlinarith [hq.1, hlam]
  have hcu : (mu + psi - lam) ≤ c := by rw [hc]; nlinarith [hq.2, hlam]
  have hAc : 0 ≤ A + c := by
    have : A + c = A * (1 + B) := by rw [← hBA]; ring
    rw [this]; exact mul_nonneg hA.le (by linarith)
  unfold pClosed
  simp only [trans_exp_real, two_real]
  rw [← hE]
  have hDpos : 0 < E * (1 + B) + (1 - B) := by linarith
  have hAD : A * (E * (1 + B) + (1 - B)) = E * (A + c) + (A - c) := by rw [← hBA]; ring
  have hAN : A * (E * (1 + B) - (1 - B)) = E * (A + c) - (A - c) := by rw [← hBA]; ring
  constructor
  · apply div_nonneg _ (by linarith)
    rw [sub_nonneg, div_le_iff₀ hDpos]
    have key : 0 ≤ (E - 1) * ((A + c) * (sm - A)) := mul_nonneg (by linarith) (mul_nonneg hAc (by linarith))
    have key2 : 0 ≤ A * (sm - c) := mul_nonneg hA.le (by linarith)
    have : A * (A * (E * (1 + B) - (1 - B))) ≤ A * (sm * (E * (1 + B) + (1 - B))) := by
      rw [hAN, mul_left_comm A sm, hAD]; nlinarith
    exact le_of_mul_le_mul_left this hA
  · rw [div_le_one (by linarith)]
    rw [sub_le_iff_le_add, ← sub_le_iff_le_add', le_div_iff₀ hDpos]
    have key : 0 ≤ (E - 1) * ((A + c) * (A - (mu + psi - lam))) :=
      mul_nonneg (by linarith) (mul_nonneg hAc (by linarith))
    have key2 : 0 ≤ A * (c - (mu + psi - lam)) := mul_nonneg hA.le (by linarith)
    have : A * ((sm - 2 * lam) * (E * (1 + B) + (1 - B))) ≤ A * (A * (E * (1 + B) - (1 - B))) := by
      rw [hAN, mul_left_comm A (sm - 2 * lam), hAD, hs]; nlinarith
    exact le_of_mul_le_mul_left this hA

/-- all the `p_k` are probabilities when the rates are positive (`mu ≥ 0`) and `0 ≤ rho ≤ 1` -/
theorem pAt_mem_unit (r : Rates ℝ) (t : Nat → ℝ) (m : Nat) (g : Grid t m)
    (hr : ∀ k, k < m → 0 < r.lam k ∧ 0 ≤ r.mu k ∧ 0 < r.psi k ∧ 0 ≤ r.rho k ∧ r.rho k ≤ 1) :
    ∀ j k, m - k = j → 0 ≤ pAt r t m k ∧ pAt r t m k ≤ 1 := by
  intro j
  induction j with
  | zero =>
      intro k hk
      rw [pAt_end _ _ _ _ (by omega)]; norm_num
  | succ j ih =>
      intro k hk
      have hkm : k < m := by omega
      rw [pAt_step _ _ _ _ hkm]
      obtain ⟨a, b, c, d, e⟩ := hr k hkm
      have hnext := ih (k + 1) (by omega)
      exact pStep_mem_unit r k _ _ a b c d e hnext.1 hnext.2 (by have := g k (k + 1) (by omega) (by omega); linarith)

end TT.C09
