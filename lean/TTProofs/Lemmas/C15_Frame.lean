import TTModel.C15_MCMC
/-! frame lemmas: a proposal touches only the operator's own parameters, and the restoring loop
of `MCMCOperator.reject` puts exactly those back (core Lean lists only) -/
namespace TT.C15

variable {α : Type}

theorem setMany_nil_left (st : Params α) (vals : List (List α)) : setMany st [] vals = st := by
  simp [setMany]

theorem setMany_cons (st : Params α) (k : Nat) (ks : List Nat) (v : List α) (vs : List (List α)) :
    setMany st (k :: ks) (v :: vs) = setMany (st.set k v) ks vs := by
  simp [setMany]

theorem setMany_length (pidx : List Nat) : ∀ (st : Params α) (vals : List (List α)),
    (setMany st pidx vals).length = st.length := by
  induction pidx with
  | nil => intro st vals; simp [setMany]
  | cons k ks ih =>
    intro st vals
    cases vals with
    | nil => simp [setMany]
    | cons v vs => rw [setMany_cons, ih]; simp

theorem setMany_getElem?_not_mem (pidx : List Nat) : ∀ (st : Params α) (vals : List (List α))
    (j : Nat), j ∉ pidx → (setMany st pidx vals)[j]? = st[j]? := by
  induction pidx with
  | nil => intro st vals j _; simp [setMany]
  | cons k ks ih =>
    intro st vals j hj
    cases vals with
    | nil => simp [setMany]
    | cons v vs =>
      have hjk : k ≠ j := fun h => hj (h ▸ List.mem_cons_self ..)
      have hjks : j ∉ ks := fun h => hj (List.mem_cons_of_mem _ h)
      rw [setMany_cons, ih _ _ _ hjks, List.getElem?_set_ne hjk]

/-- a state `l` that agrees with `st` outside `pidx` is turned back into `st` by the restoring
loop fed with the clones taken from `st` -/
theorem restore_of_frame (pidx : List Nat) : ∀ (st l : Params α),
    l.length = st.length → (∀ j, j ∉ pidx → l[j]? = st[j]?) → (∀ k ∈ pidx, k < st.length) →
    setMany l pidx (savedOf st pidx) = st := by
  induction pidx with
  | nil =>
    intro st l _ h _
    rw [setMany_nil_left]
    exact List.ext_getElem? fun j => h j (by simp)
  | cons k ks ih =>
    intro st l hlen h hk
    have hkl : k < st.length := hk k (List.mem_cons_self ..)
    simp only [savedOf, List.map_cons]
    rw [setMany_cons]
    apply ih st (l.set k (st.getD k []))
    · simp [hlen]
    · intro j hj
      by_cases hjk : k = j
      · subst hjk
        rw [List.getElem?_set_self (by rw [hlen]; exact hkl)]
        simp [List.getD, List.getElem?_eq_getElem hkl]
      · rw [List.getElem?_set_ne hjk]
        apply h
        intro hmem
        cases List.mem_cons.mp hmem with
        | inl e => exact hjk e.symm
        | inr e => exact hj e
    · intro k' hk'
      exact hk k' (List.mem_cons_of_mem _ hk')

/-- the frame of a proposal -/
def Frame (st prop : Params α) (pidx : List Nat) : Prop :=
  prop.length = st.length ∧ ∀ j, j ∉ pidx → prop[j]? = st[j]?

theorem frame_refl (st : Params α) (pidx : List Nat) : Frame st st pidx := ⟨rfl, fun _ _ => rfl⟩

theorem frame_set (st : Params α) (pidx : List Nat) (k : Nat) (v : List α) (hk : k ∈ pidx) :
    Frame st (st.set k v) pidx := by
  refine ⟨by simp, fun j hj => ?_⟩
  have : k ≠ j := fun h => hj (h ▸ hk)
  rw [List.getElem?_set_ne this]

theorem frame_setMany (st : Params α) (pidx : List Nat) (vals : List (List α)) :
    Frame st (setMany st pidx vals) pidx :=
  ⟨setMany_length pidx st vals, fun j hj => setMany_getElem?_not_mem pidx st vals j hj⟩

section
variable [Add α] [Sub α] [Mul α] [Div α] [Neg α] [Zero α] [One α] [FromNat α]
  [Trans α] [LT α] [DecidableLT α]

omit [FromNat α] [LT α] [DecidableLT α] in
theorem propose_frame (env : Env α) (half : α) (op : Op α) (st : Params α) (tape : Tape α) :
    Frame st (propose env half op st tape).1 op.pidx := by
  unfold propose
  cases op.kind with
  | scaler =>
    simp only [proposeScaler]
    split
    · rename_i r rs i1 i2 is _ _
      split
      · exact frame_refl st _
      · rename_i k hk
        exact frame_set st _ k _ (List.mem_of_getElem? hk)
    · exact frame_refl st _
  | window =>
    simp only [proposeWindow]
    split
    · split
      · exact frame_refl st _
      · rename_i k hk
        exact frame_set st _ k _ (List.mem_of_getElem? hk)
    · exact frame_refl st _
  | dirichlet =>
    simp only [proposeDirichlet]
    split
    · rename_i newv ds k ks _ hp
      exact frame_set st _ k _ (by rw [hp]; exact List.mem_cons_self ..)
    · exact frame_refl st _
  | hmc => exact frame_setMany st _ _
  | block => exact frame_setMany st _ _

end
end TT.C15
