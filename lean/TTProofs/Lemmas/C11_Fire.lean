import TTModel.C11_Cache
/-! C11 helper lemmas: the notification walk `fireL` -/
namespace TT.C11

theorem setFlags_mono (fl : Flags) (j : Nat) (fs : List Nat) (a b : Nat) (h : fl a b = true) :
    setFlags fl j fs a b = true := by
  unfold setFlags; split <;> simp_all

theorem setFlags_hit (fl : Flags) (j : Nat) (fs : List Nat) (f : Nat) (h : f ∈ fs) :
    setFlags fl j fs j f = true := by
  unfold setFlags; simp [h]

/-- a notification walk only ever sets flags -/
theorem fireL_mono (m : Machine) (fuel : Nat) (k : Kind) (js : List Nat) (fl : Flags) :
    ∀ a b, fl a b = true → (fireL m fuel k js fl).1 a b = true := by
  fun_induction fireL m fuel k js fl with
  | case1 => intro a b h; exact h
  | case2 => intro a b h; exact h
  | case3 fuel k j js fl h fl1 ht => intro a b hab; exact setFlags_mono _ _ _ _ _ hab
  | case4 fuel k j js fl h fl1 ht ih =>
    intro a b hab; exact ih a b (setFlags_mono _ _ _ _ _ hab)
  | case5 fuel k j js fl h fl1 k' ht r hr ih =>
    intro a b hab; exact ih a b (setFlags_mono _ _ _ _ _ hab)
  | case6 fuel k j js fl h fl1 k' ht r hr ih1 _ ih2 =>
    intro a b hab; exact ih2 a b (ih1 a b (setFlags_mono _ _ _ _ _ hab))

/-- "node `j` has processed notification `k`", as far as the flags can tell: every flag its handler
sets is set, and if the handler forwards, every listener of `j` has processed that notification -/
inductive Cov (m : Machine) (fl : Flags) : Kind → Nat → Prop
  | mk (k : Kind) (j : Nat) :
      (∀ f ∈ (m.handlerOf j k).sets, fl j f = true) →
      (∀ k', (m.handlerOf j k).tail = .fire k' → ∀ l ∈ m.listeners j, Cov m fl k' l) →
      Cov m fl k j

theorem Cov.sets {m : Machine} {fl : Flags} {k : Kind} {j : Nat} (h : Cov m fl k j) :
    ∀ f ∈ (m.handlerOf j k).sets, fl j f = true := by
  cases h with | mk _ _ a _ => exact a

theorem Cov.fwd {m : Machine} {fl : Flags} {k : Kind} {j : Nat} (h : Cov m fl k j) :
    ∀ k', (m.handlerOf j k).tail = .fire k' → ∀ l ∈ m.listeners j, Cov m fl k' l := by
  cases h with | mk _ _ _ b => exact b

theorem Cov.mono {m : Machine} {fl fl' : Flags} {k : Kind} {j : Nat} (h : Cov m fl k j)
    (hm : ∀ a b, fl a b = true → fl' a b = true) : Cov m fl' k j := by
  induction h with
  | mk k j hs _ ih =>
    exact Cov.mk k j (fun f hf => hm _ _ (hs f hf)) (fun k' hk l hl => ih k' hk l hl)

/-- a walk that did not raise has covered every listener it was started on -/
theorem fireL_cov (m : Machine) (fuel : Nat) (k : Kind) (js : List Nat) (fl : Flags) :
    (fireL m fuel k js fl).2 = false → ∀ j ∈ js, Cov m (fireL m fuel k js fl).1 k j := by
  fun_induction fireL m fuel k js fl with
  | case1 => intro _ j hj; cases hj
  | case2 => intro h; simp at h
  | case3 fuel k j js fl h fl1 ht => intro h; simp at h
  | case4 fuel k j js fl h fl1 ht ih =>
    intro hr x hx
    rcases List.mem_cons.mp hx with rfl | hx
    · refine Cov.mk k x ?_ ?_
      · intro f hf
        exact fireL_mono m (fuel + 1) k js fl1 x f (setFlags_hit _ _ _ _ hf)
      · intro k' hk; rw [show (m.handlerOf x k).tail = h.tail from rfl, ht] at hk; cases hk
    · exact ih hr x hx
  | case5 fuel k j js fl h fl1 k' ht r hr ih =>
    intro h2; simp [hr] at h2
  | case6 fuel k j js fl h fl1 k' ht r hr ih1 _ ih2 =>
    intro hr2 x hx
    have hrf : r.2 = false := by simpa using hr
    rcases List.mem_cons.mp hx with rfl | hx
    · refine Cov.mk k x ?_ ?_
      · intro f hf
        exact fireL_mono m (fuel + 1) k js r.1 x f
          (fireL_mono m fuel k' (m.listeners x) fl1 x f (setFlags_hit _ _ _ _ hf))
      · intro k'' hk l hl
        rw [show (m.handlerOf x k).tail = h.tail from rfl, ht] at hk
        cases hk
        exact (ih1 hrf l hl).mono (fireL_mono m (fuel + 1) k js r.1)
    · exact ih2 hr2 x hx

/-- in a well-formed, well-wired machine a walk never raises (and never runs out of fuel) -/
theorem fireL_noraise (m : Machine) (hwf : WF m) (hww : WellWired m)
    (fuel : Nat) (k : Kind) (js : List Nat) (fl : Flags) :
    (∀ j ∈ js, j < m.nN ∧ m.nN ≤ fuel + j ∧ (m.handlerOf j k).tail ≠ .raise) →
    (fireL m fuel k js fl).2 = false := by
  fun_induction fireL m fuel k js fl with
  | case1 => intro _; rfl
  | case2 k j js fl =>
    intro h; have := h j (List.mem_cons_self ..); omega
  | case3 fuel k j js fl h fl1 ht =>
    intro hq; exact absurd ht (hq j (List.mem_cons_self ..)).2.2
  | case4 fuel k j js fl h fl1 ht ih =>
    intro hq; exact ih fun x hx => hq x (List.mem_cons_of_mem _ hx)
  | case5 fuel k j js fl h fl1 k' ht r hr ih =>
    intro hq
    have hj := hq j (List.mem_cons_self ..)
    have hk : k' = m.emits j := hww.kind j hj.1 k k' ht
    have : r.2 = false := ih fun l hl => by
      have := hwf.lst_gt j hj.1 l hl
      refine ⟨this.2, by omega, ?_⟩
      rw [hk]; exact hww.noraise j hj.1 l hl
    simp [this] at hr
  | case6 fuel k j js fl h fl1 k' ht r hr ih1 _ ih2 =>
    intro hq; exact ih2 fun x hx => hq x (List.mem_cons_of_mem _ hx)

end TT.C11
