import TTProofs.Lemmas.C09_Analytic
/-! C09: the semigroup identities at the level of the model's recursion (`pStep`, `logq`). -/
open TT TT.C09
namespace TT.C09

theorem p_semigroup_model (r : Rates ℝ) (i : Nat) (d1 d2 pn : ℝ)
    (hl : r.lam i = r.lam (i + 1)) (hm : r.mu i = r.mu (i + 1)) (hp : r.psi i = r.psi (i + 1))
    (hrho : r.rho i = 0) (hlam : 0 < r.lam (i + 1)) (hpsi : 0 < r.psi (i + 1))
    (hpn0 : 0 ≤ pn) (hpn1 : pn ≤ 1) (hrho1 : 0 ≤ r.rho (i + 1)) (hd1 : 0 ≤ d1) (hd2 : 0 ≤ d2) :
    pStep r i d1 (pStep r (i + 1) d2 pn) = pStep r (i + 1) (d1 + d2) pn := by
  have hAeq : Acoef r i = Acoef r (i + 1) := by unfold Acoef; rw [hl, hm, hp]
  have hA : 0 < Acoef r (i + 1) := Acoef_pos r (i + 1) (mul_pos hlam hpsi)
  have hB : -1 ≤ Bcoef r (i + 1) pn := Bcoef_ge_neg_one r (i + 1) pn (mul_pos hlam hpsi) hlam.le hpn0 hpn1 hrho1
  have hD2 : Real.exp (Acoef r (i + 1) * d2) * (1 + Bcoef r (i + 1) pn) + (1 - Bcoef r (i + 1) pn) ≠ 0 := by
    have := denom_ge_two _ _ d2 hB (mul_nonneg hA.le hd2); linarith
  have hD12 : Real.exp (Acoef r (i + 1) * (d1 + d2)) * (1 + Bcoef r (i + 1) pn) + (1 - Bcoef r (i + 1) pn) ≠ 0 := by
    have := denom_ge_two _ _ (d1 + d2) hB (mul_nonneg hA.le (add_nonneg hd1 hd2)); linarith
  rw [pStep_eq_pClosed, pStep_eq_pClosed, pStep_eq_pClosed]
  have hBi : Bcoef r i (pClosed (r.lam (i + 1)) (r.mu (i + 1)) (r.psi (i + 1)) (Acoef r (i + 1)) (Bcoef r (i + 1) pn) d2)
      = (Real.exp (Acoef r (i + 1) * d2) * (1 + Bcoef r (i + 1) pn) - (1 - Bcoef r (i + 1) pn))
        / (Real.exp (Acoef r (i + 1) * d2) * (1 + Bcoef r (i + 1) pn) + (1 - Bcoef r (i + 1) pn)) := by
    rw [Bcoef_def r i, hAeq, hl, hm, hp, hrho]
    exact Bcoef_of_pClosed _ _ _ _ _ _ hA.ne' hlam.ne' hD2
  rw [hBi, hAeq, hl, hm, hp]
  exact p_semigroup_core _ _ _ _ _ _ _ hD2 hD12

theorem q_semigroup_model (r : Rates ℝ) (i : Nat) (x tmid tend pn : ℝ)
    (hl : r.lam i = r.lam (i + 1)) (hm : r.mu i = r.mu (i + 1)) (hp : r.psi i = r.psi (i + 1))
    (hrho : r.rho i = 0) (hlam : 0 < r.lam (i + 1)) (hpsi : 0 < r.psi (i + 1))
    (hpn0 : 0 ≤ pn) (hpn1 : pn ≤ 1) (hrho1 : 0 ≤ r.rho (i + 1)) (hx : x ≤ tmid) (hmid : tmid ≤ tend) :
    logq (Acoef r i) (Bcoef r i (pStep r (i + 1) (tend - tmid) pn)) x tmid
      + logq (Acoef r (i + 1)) (Bcoef r (i + 1) pn) tmid tend
      = logq (Acoef r (i + 1)) (Bcoef r (i + 1) pn) x tend := by
  have hAeq : Acoef r i = Acoef r (i + 1) := by unfold Acoef; rw [hl, hm, hp]
  have hA : 0 < Acoef r (i + 1) := Acoef_pos r (i + 1) (mul_pos hlam hpsi)
  have hB : -1 ≤ Bcoef r (i + 1) pn := Bcoef_ge_neg_one r (i + 1) pn (mul_pos hlam hpsi) hlam.le hpn0 hpn1 hrho1
  have hd1 : 0 ≤ tmid - x := by linarith
  have hd2 : 0 ≤ tend - tmid := by linarith
  have hD2 : Real.exp (Acoef r (i + 1) * (tend - tmid)) * (1 + Bcoef r (i + 1) pn) + (1 - Bcoef r (i + 1) pn) ≠ 0 := by
    have := denom_ge_two _ _ (tend - tmid) hB (mul_nonneg hA.le hd2); linarith
  have hD12 : Real.exp (Acoef r (i + 1) * ((tmid - x) + (tend - tmid))) * (1 + Bcoef r (i + 1) pn)
      + (1 - Bcoef r (i + 1) pn) ≠ 0 := by
    have := denom_ge_two _ _ ((tmid - x) + (tend - tmid)) hB (mul_nonneg hA.le (add_nonneg hd1 hd2)); linarith
  have hBi : Bcoef r i (pStep r (i + 1) (tend - tmid) pn)
      = (Real.exp (Acoef r (i + 1) * (tend - tmid)) * (1 + Bcoef r (i + 1) pn) - (1 - Bcoef r (i + 1) pn))
        / (Real.exp (Acoef r (i + 1) * (tend - tmid)) * (1 + Bcoef r (i + 1) pn) + (1 - Bcoef r (i + 1) pn)) := by
    rw [pStep_eq_pClosed, Bcoef_def r i, hAeq, hl, hm, hp, hrho]
    exact Bcoef_of_pClosed _ _ _ _ _ _ hA.ne' hlam.ne' hD2
  have key := q_semigroup_core (Acoef r (i + 1)) (Bcoef r (i + 1) pn) (tmid - x) (tend - tmid) hD2 hD12
  have e : (tmid - x) + (tend - tmid) = tend - x := by ring
  rw [e] at key hD12
  have hq2 : qv (Acoef r (i + 1)) (Bcoef r (i + 1) pn) (tend - tmid) ≠ 0 := by
    unfold qv
    exact div_ne_zero (mul_ne_zero (by norm_num) (Real.exp_ne_zero _)) (pow_ne_zero _ hD2)
  have hq12 : qv (Acoef r (i + 1)) (Bcoef r (i + 1) pn) (tend - x) ≠ 0 := by
    unfold qv
    exact div_ne_zero (mul_ne_zero (by norm_num) (Real.exp_ne_zero _)) (pow_ne_zero _ hD12)
  rw [logq_eq, logq_eq, logq_eq, hBi, hAeq, ← key]
  refine (Real.log_mul ?_ hq2).symm
  intro h0
  rw [h0, zero_mul] at key
  exact hq12 key.symm

end TT.C09
