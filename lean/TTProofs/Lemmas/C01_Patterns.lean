import TTModel.C01_Patterns
import Mathlib.Algebra.BigOperators.Group.List.Basic
import Mathlib.Algebra.Group.Basic
import Mathlib.Algebra.Group.Defs
import Mathlib.Algebra.Order.Group.Nat
/-! helper lemmas for C01/C02: pattern compression preserves every weighted sum -/
namespace TT.C01

section
variable {C : Type} [DecidableEq C] [LT C] [DecidableLT C] {M : Type} [AddCommMonoid M]

theorem insertCount_sum (f : C → M) (c : C) : ∀ acc : List (C × Nat),
    ((insertCount c acc).map fun pw => pw.2 • f pw.1).sum = f c + (acc.map fun pw => pw.2 • f pw.1).sum
  | [] => by simp [insertCount, one_nsmul]
  | (p, w) :: rest => by
    unfold insertCount
    split
    · next h =>
      subst h
      simp only [List.map_cons, List.sum_cons, succ_nsmul]
      rw [add_comm (w • f c) (f c), add_assoc]
    · split
      · simp [one_nsmul]
      · simp only [List.map_cons, List.sum_cons, insertCount_sum f c rest]
        rw [add_left_comm]

theorem foldl_insertCount_sum (f : C → M) : ∀ (cols : List C) (acc : List (C × Nat)),
    ((cols.foldl (fun a c => insertCount c a) acc).map fun pw => pw.2 • f pw.1).sum
      = (cols.map f).sum + (acc.map fun pw => pw.2 • f pw.1).sum
  | [], acc => by simp
  | c :: cols, acc => by
    simp only [List.foldl_cons, List.map_cons, List.sum_cons]
    rw [foldl_insertCount_sum f cols, insertCount_sum, add_left_comm, add_assoc]

theorem insertCount_total (c : C) : ∀ acc : List (C × Nat),
    ((insertCount c acc).map (·.2)).sum = (acc.map (·.2)).sum + 1 := by
  intro acc
  have := insertCount_sum (M := Nat) (fun _ => 1) c acc
  simpa [add_comm] using this

/-- membership of keys: the patterns are exactly the distinct columns -/
theorem mem_insertCount_keys (c x : C) : ∀ acc : List (C × Nat),
    x ∈ (insertCount c acc).map (·.1) ↔ x = c ∨ x ∈ acc.map (·.1)
  | [] => by simp [insertCount]
  | (p, w) :: rest => by
    unfold insertCount
    split
    · next h => subst h; simp
    · split
      · simp
      · simp only [List.map_cons, List.mem_cons, mem_insertCount_keys c x rest]
        tauto

theorem mem_compress_keys (x : C) (cols : List C) : x ∈ (compress cols).map (·.1) ↔ x ∈ cols := by
  unfold compress
  suffices h : ∀ acc : List (C × Nat), x ∈ (cols.foldl (fun a c => insertCount c a) acc).map (·.1)
      ↔ x ∈ cols ∨ x ∈ acc.map (·.1) by simpa using h []
  induction cols with
  | nil => intro acc; simp
  | cons c cols ih =>
    intro acc
    simp only [List.foldl_cons, ih, mem_insertCount_keys, List.mem_cons]
    tauto

end
end TT.C01
