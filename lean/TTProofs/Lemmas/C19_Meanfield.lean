import TTProofs.Lemmas.C19_Covers
/-! C19: what `create_meanfield` (default family) does to ONE annotated `Parameter` literal. -/
namespace TT.C19
open TT.C13 TT.C13.Json
variable {ν : Type} [CliNum ν]

/-- the row `create_meanfield` applies (it sends EVERY two-sided interval through the sigmoid) -/
def mfRowOf (m : Dispatch) (kvs : List (String × Json ν)) : Option Row :=
  match lookup "@lower" kvs, lookup "@upper" kvs with
  | some lo, some up => if sameBound lo up then none else some m.unit
  | some lo, none =>
    match lo with
    | .num x => if CliNum.pos x then some m.lowerPos else some m.lower0
    | _ => none
  | none, _ => if simplexFlag kvs then some m.simplex else none

theorem mfExp_covers (m : Dispatch) (kvs l : List (String × Json ν)) (h : mfExp m kvs = some l) :
    IsTransformed m.lower0 (.obj l) := by
  unfold mfExp at h
  simp only [bind, pure, Option.bind_eq_some_iff] at h
  obtain ⟨xid, _, tensor, _, inv, _, t, _, h⟩ := h
  refine ⟨_, rfl, ?_⟩
  split at h
  · simp only [Option.bind_eq_some_iff, Option.some.injEq] at h
    obtain ⟨f, _, rfl⟩ := h
    simp [lookup_delKey_ne, lookup_setKey_ne, lookup_setKey_same]
  · split at h
    · simp only [Option.bind_eq_some_iff, Option.some.injEq] at h
      obtain ⟨f, _, rfl⟩ := h
      simp [lookup_delKey_ne, lookup_setKey_ne, lookup_setKey_same]
    · simp only [Option.some.injEq] at h
      subst h
      simp [lookup_delKey_ne, lookup_setKey_ne, lookup_setKey_same]

theorem mfSigmoid_covers (m : Dispatch) (kvs l : List (String × Json ν)) (h : mfSigmoid m kvs = some l) :
    IsTransformed m.unit (.obj l) := by
  unfold mfSigmoid at h
  simp only [bind, pure, Option.bind_eq_some_iff] at h
  obtain ⟨xid, _, inv, _, h⟩ := h
  refine ⟨_, rfl, ?_⟩
  split at h
  · simp only [Option.bind_eq_some_iff, Option.some.injEq] at h
    obtain ⟨t, _, rfl⟩ := h
    simp [lookup_delKey_ne, lookup_setKey_ne, lookup_setKey_same]
  · split at h
    · simp only [Option.bind_eq_some_iff, Option.some.injEq] at h
      obtain ⟨tensor, _, t, _, f, _, rfl⟩ := h
      simp [lookup_delKey_ne, lookup_setKey_ne, lookup_setKey_same]
    · cases h

theorem mfSimplex_covers (m : Dispatch) (kvs l : List (String × Json ν)) (h : mfSimplex m kvs = some l) :
    IsTransformed m.simplex (.obj l) := by
  unfold mfSimplex at h
  simp only [bind, pure, Option.bind_eq_some_iff] at h
  obtain ⟨xid, _, h⟩ := h
  refine ⟨_, rfl, ?_⟩
  split at h
  · cases h
  · split at h
    · split at h
      · simp only [Option.map_eq_some_iff] at h
        obtain ⟨_, _, rfl⟩ := h
        simp [lookup_delKey_ne, lookup_setKey_ne, lookup_setKey_same]
      · cases h
    · split at h
      · simp only [Option.bind_eq_some_iff, Option.some.injEq] at h
        obtain ⟨vec, _, rfl⟩ := h
        simp [lookup_delKey_ne, lookup_setKey_ne, lookup_setKey_same]
      · cases h

theorem mfAffine_covers (m : Dispatch) (kvs l : List (String × Json ν)) (lo : ν) (h : mfAffine m kvs lo = some l) :
    IsTransformed m.lowerPos (.obj l) := by
  unfold mfAffine at h
  simp only [bind, pure, Option.bind_eq_some_iff] at h
  obtain ⟨xid, _, h⟩ := h
  refine ⟨_, rfl, ?_⟩
  split at h
  · cases h
  · simp only [Option.bind_eq_some_iff, Option.some.injEq] at h
    obtain ⟨_, _, tensor, _, t, _, x', _, rfl⟩ := h
    simp [lookup_delKey_ne, lookup_setKey_ne, lookup_setKey_same]

/-- whenever `create_meanfield` handles an annotated parameter it has become a
`TransformedParameter` with the transform of its row of the (meanfield) dispatch table -/
theorem mfParam_covers (m : Dispatch) (kvs : List (String × Json ν)) (j : Json ν) (row : Row)
    (h : mfParam m kvs = some j) (hr : mfRowOf m kvs = some row) : IsTransformed row j := by
  unfold mfParam at h
  unfold mfRowOf at hr
  split at h
  · rename_i lo up hlo hup
    simp only [hlo, hup] at hr
    by_cases hc : sameBound lo up = true
    · simp [hc] at hr
    · simp only [hc, Bool.false_eq_true, if_false, Option.some.injEq, Option.map_eq_some_iff] at hr h
      subst hr
      obtain ⟨l, hl, rfl⟩ := h
      exact mfSigmoid_covers m kvs l hl
  · rename_i lo hlo hup
    simp only [hlo, hup] at hr
    cases lo with
    | num x =>
      simp only at h hr
      by_cases hpos : CliNum.pos x = true
      · simp only [hpos, if_true, Option.some.injEq, Option.map_eq_some_iff] at hr h
        subst hr
        obtain ⟨l, hl, rfl⟩ := h
        exact mfAffine_covers m kvs l x hl
      · simp only [hpos, Bool.false_eq_true, if_false, Option.some.injEq, Option.map_eq_some_iff] at hr h
        subst hr
        obtain ⟨l, hl, rfl⟩ := h
        exact mfExp_covers m kvs l hl
    | _ => simp at hr
  · rename_i hlo
    simp only [hlo] at hr
    by_cases hs : simplexFlag kvs = true
    · simp only [hs, if_true, Option.some.injEq, Option.map_eq_some_iff] at hr h
      subst hr
      obtain ⟨l, hl, rfl⟩ := h
      exact mfSimplex_covers m kvs l hl
    · simp [hs] at hr

theorem mfParam_untouched (m : Dispatch) (kvs : List (String × Json ν)) (j : Json ν)
    (h : mfParam m kvs = some j) (hr : mfRowOf m kvs = none) : j = .obj kvs := by
  unfold mfParam at h
  unfold mfRowOf at hr
  split at h
  · rename_i lo up hlo hup
    simp only [hlo, hup] at hr
    by_cases hc : sameBound lo up = true
    · simp [hc] at h; exact h.symm
    · simp [hc] at hr
  · rename_i lo hlo hup
    simp only [hlo, hup] at hr
    cases lo with
    | num x => simp only at hr; split at hr <;> cases hr
    | _ => simp at h
  · rename_i hlo
    simp only [hlo] at hr
    by_cases hs : simplexFlag kvs = true
    · simp [hs] at hr
    · simp only [hs, Bool.false_eq_true, if_false, Option.map_eq_some_iff] at h
      obtain ⟨_, _, rfl⟩ := h
      rfl

end TT.C19
