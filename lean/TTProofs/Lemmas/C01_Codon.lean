import TTModel.C01_Patterns
import TTProofs.Lemmas.C01_Tables
/-! C01: facts about the GENERATED genetic-code tables (`decide` over `TTGen/C01_Alphabet.lean`) -/
namespace TT.C01
open TTGen.C01

/-- NCBI translation tables in NCBI's own presentation — bases in the order T, C, A, G, first base slowest — written
    independently of `datatype.py` (which lists the codes in A, C, G, T order after BEAST); code points, `*` = 42 -/
def ncbiTables : List (Nat × List Nat) := [
    (1, /- FFLLSSSSYY**CC*WLLLLPPPPHHQQRRRRIIIMTTTTNNKKSSRRVVVVAAAADDEEGGGG -/ [70, 70, 76, 76, 83, 83, 83, 83, 89, 89, 42, 42, 67, 67, 42, 87, 76, 76, 76, 76, 80, 80, 80, 80, 72, 72, 81, 81, 82, 82, 82, 82, 73, 73, 73, 77, 84, 84, 84, 84, 78, 78, 75, 75, 83, 83, 82, 82, 86, 86, 86, 86, 65, 65, 65, 65, 68, 68, 69, 69, 71, 71, 71, 71]),
    (2, /- FFLLSSSSYY**CCWWLLLLPPPPHHQQRRRRIIMMTTTTNNKKSS**VVVVAAAADDEEGGGG -/ [70, 70, 76, 76, 83, 83, 83, 83, 89, 89, 42, 42, 67, 67, 87, 87, 76, 76, 76, 76, 80, 80, 80, 80, 72, 72, 81, 81, 82, 82, 82, 82, 73, 73, 77, 77, 84, 84, 84, 84, 78, 78, 75, 75, 83, 83, 42, 42, 86, 86, 86, 86, 65, 65, 65, 65, 68, 68, 69, 69, 71, 71, 71, 71]),
    (3, /- FFLLSSSSYY**CCWWTTTTPPPPHHQQRRRRIIMMTTTTNNKKSSRRVVVVAAAADDEEGGGG -/ [70, 70, 76, 76, 83, 83, 83, 83, 89, 89, 42, 42, 67, 67, 87, 87, 84, 84, 84, 84, 80, 80, 80, 80, 72, 72, 81, 81, 82, 82, 82, 82, 73, 73, 77, 77, 84, 84, 84, 84, 78, 78, 75, 75, 83, 83, 82, 82, 86, 86, 86, 86, 65, 65, 65, 65, 68, 68, 69, 69, 71, 71, 71, 71]),
    (4, /- FFLLSSSSYY**CCWWLLLLPPPPHHQQRRRRIIIMTTTTNNKKSSRRVVVVAAAADDEEGGGG -/ [70, 70, 76, 76, 83, 83, 83, 83, 89, 89, 42, 42, 67, 67, 87, 87, 76, 76, 76, 76, 80, 80, 80, 80, 72, 72, 81, 81, 82, 82, 82, 82, 73, 73, 73, 77, 84, 84, 84, 84, 78, 78, 75, 75, 83, 83, 82, 82, 86, 86, 86, 86, 65, 65, 65, 65, 68, 68, 69, 69, 71, 71, 71, 71]),
    (5, /- FFLLSSSSYY**CCWWLLLLPPPPHHQQRRRRIIMMTTTTNNKKSSSSVVVVAAAADDEEGGGG -/ [70, 70, 76, 76, 83, 83, 83, 83, 89, 89, 42, 42, 67, 67, 87, 87, 76, 76, 76, 76, 80, 80, 80, 80, 72, 72, 81, 81, 82, 82, 82, 82, 73, 73, 77, 77, 84, 84, 84, 84, 78, 78, 75, 75, 83, 83, 83, 83, 86, 86, 86, 86, 65, 65, 65, 65, 68, 68, 69, 69, 71, 71, 71, 71]),
    (6, /- FFLLSSSSYYQQCC*WLLLLPPPPHHQQRRRRIIIMTTTTNNKKSSRRVVVVAAAADDEEGGGG -/ [70, 70, 76, 76, 83, 83, 83, 83, 89, 89, 81, 81, 67, 67, 42, 87, 76, 76, 76, 76, 80, 80, 80, 80, 72, 72, 81, 81, 82, 82, 82, 82, 73, 73, 73, 77, 84, 84, 84, 84, 78, 78, 75, 75, 83, 83, 82, 82, 86, 86, 86, 86, 65, 65, 65, 65, 68, 68, 69, 69, 71, 71, 71, 71]),
    (9, /- FFLLSSSSYY**CCWWLLLLPPPPHHQQRRRRIIIMTTTTNNNKSSSSVVVVAAAADDEEGGGG -/ [70, 70, 76, 76, 83, 83, 83, 83, 89, 89, 42, 42, 67, 67, 87, 87, 76, 76, 76, 76, 80, 80, 80, 80, 72, 72, 81, 81, 82, 82, 82, 82, 73, 73, 73, 77, 84, 84, 84, 84, 78, 78, 78, 75, 83, 83, 83, 83, 86, 86, 86, 86, 65, 65, 65, 65, 68, 68, 69, 69, 71, 71, 71, 71]),
    (10, /- FFLLSSSSYY**CCCWLLLLPPPPHHQQRRRRIIIMTTTTNNKKSSRRVVVVAAAADDEEGGGG -/ [70, 70, 76, 76, 83, 83, 83, 83, 89, 89, 42, 42, 67, 67, 67, 87, 76, 76, 76, 76, 80, 80, 80, 80, 72, 72, 81, 81, 82, 82, 82, 82, 73, 73, 73, 77, 84, 84, 84, 84, 78, 78, 75, 75, 83, 83, 82, 82, 86, 86, 86, 86, 65, 65, 65, 65, 68, 68, 69, 69, 71, 71, 71, 71]),
    (11, /- FFLLSSSSYY**CC*WLLLLPPPPHHQQRRRRIIIMTTTTNNKKSSRRVVVVAAAADDEEGGGG -/ [70, 70, 76, 76, 83, 83, 83, 83, 89, 89, 42, 42, 67, 67, 42, 87, 76, 76, 76, 76, 80, 80, 80, 80, 72, 72, 81, 81, 82, 82, 82, 82, 73, 73, 73, 77, 84, 84, 84, 84, 78, 78, 75, 75, 83, 83, 82, 82, 86, 86, 86, 86, 65, 65, 65, 65, 68, 68, 69, 69, 71, 71, 71, 71]),
    (12, /- FFLLSSSSYY**CC*WLLLSPPPPHHQQRRRRIIIMTTTTNNKKSSRRVVVVAAAADDEEGGGG -/ [70, 70, 76, 76, 83, 83, 83, 83, 89, 89, 42, 42, 67, 67, 42, 87, 76, 76, 76, 83, 80, 80, 80, 80, 72, 72, 81, 81, 82, 82, 82, 82, 73, 73, 73, 77, 84, 84, 84, 84, 78, 78, 75, 75, 83, 83, 82, 82, 86, 86, 86, 86, 65, 65, 65, 65, 68, 68, 69, 69, 71, 71, 71, 71]),
    (13, /- FFLLSSSSYY**CCWWLLLLPPPPHHQQRRRRIIMMTTTTNNKKSSGGVVVVAAAADDEEGGGG -/ [70, 70, 76, 76, 83, 83, 83, 83, 89, 89, 42, 42, 67, 67, 87, 87, 76, 76, 76, 76, 80, 80, 80, 80, 72, 72, 81, 81, 82, 82, 82, 82, 73, 73, 77, 77, 84, 84, 84, 84, 78, 78, 75, 75, 83, 83, 71, 71, 86, 86, 86, 86, 65, 65, 65, 65, 68, 68, 69, 69, 71, 71, 71, 71]),
    (14, /- FFLLSSSSYYY*CCWWLLLLPPPPHHQQRRRRIIIMTTTTNNNKSSSSVVVVAAAADDEEGGGG -/ [70, 70, 76, 76, 83, 83, 83, 83, 89, 89, 89, 42, 67, 67, 87, 87, 76, 76, 76, 76, 80, 80, 80, 80, 72, 72, 81, 81, 82, 82, 82, 82, 73, 73, 73, 77, 84, 84, 84, 84, 78, 78, 78, 75, 83, 83, 83, 83, 86, 86, 86, 86, 65, 65, 65, 65, 68, 68, 69, 69, 71, 71, 71, 71]),
    (15, /- FFLLSSSSYY*QCC*WLLLLPPPPHHQQRRRRIIIMTTTTNNKKSSRRVVVVAAAADDEEGGGG -/ [70, 70, 76, 76, 83, 83, 83, 83, 89, 89, 42, 81, 67, 67, 42, 87, 76, 76, 76, 76, 80, 80, 80, 80, 72, 72, 81, 81, 82, 82, 82, 82, 73, 73, 73, 77, 84, 84, 84, 84, 78, 78, 75, 75, 83, 83, 82, 82, 86, 86, 86, 86, 65, 65, 65, 65, 68, 68, 69, 69, 71, 71, 71, 71])
  ]

/-- which NCBI table each shipped genetic code is (by position in `GENETIC_CODE_NAMES`); the last one, "No stops",
    has no NCBI counterpart -/
def ncbiOf : List Nat := [1, 2, 3, 4, 4, 5, 6, 9, 10, 11, 12, 13, 14, 15]

/-- position of a base in T,C,A,G given its position in A,C,G,T -/
def tcag (d : Nat) : Nat := match d with | 0 => 2 | 1 => 1 | 2 => 3 | _ => 0

/-- index of triplet number `i` (A,C,G,T order) in an NCBI string -/
def ncbiIndex (i : Nat) : Nat := tcag (i / 16) * 16 + tcag (i / 4 % 4) * 4 + tcag (i % 4)

def isStop (t : List Nat) (i : Nat) : Bool := t.getD i 42 == 42

/-- number of stop codons of a table -/
def stops (t : List Nat) : Nat := ((List.range 64).filter (isStop t)).length

theorem codon_tables_shape :
    geneticCodes.length = 15 ∧ geneticCodeNames.length = 15 ∧ numberOfCodons.length = 15 ∧
    geneticCodes.all (fun t => t.length == 64) = true ∧ codonTriplets.length = 66 := by decide

/-- `CODON_TRIPLETS[:64]` is the enumeration AAA, AAC, …, TTT: triplet number `i` has index `i` -/
theorem codon_triplets_order :
    (codonTriplets.take 64).map tripletIndex = (List.range 64).map fun i => some (some i) := by decide

/-- the two extra entries `???`, `---` are not plain triplets -/
theorem codon_triplets_extra : (codonTriplets.drop 64).map tripletIndex = [some none, some none] := by decide

/-- for EVERY shipped genetic code: the encodings `i − stop_count[i]` of the sense triplets, in order, are exactly
    `0, 1, …, state_count − 1` (a bijection sense codon ↔ state, stops excluded), and
    `state_count = 64 − #stops = NUMBER_OF_CODONS` -/
def codeOK (t : List Nat) (n : Nat) : Bool :=
  (((List.range 64).filter fun i => !isStop t i).map fun i => i - stopCount t i) == List.range (codonStateCount t)
  && codonStateCount t == 64 - stops t && codonStateCount t == n

theorem codon_codes_ok : (geneticCodes.zip numberOfCodons).all (fun p => codeOK p.1 p.2) = true := by decide +kernel

/-- every shipped table but "No stops" is the NCBI table of that name, entry by entry -/
theorem codon_tables_ncbi :
    ((geneticCodes.take 14).zip ncbiOf).all (fun p =>
      match ncbiTables.find? (fun q => q.1 == p.2) with
      | some q => (List.range 64).all fun i => p.1.getD i 0 == q.2.getD (ncbiIndex i) 1
      | none => false) = true := by decide +kernel

/-- a letter is plain (state ≤ 3) exactly when it is one of A, C, G, T, U in either case -/
theorem plain_iff : ∀ o, o < 128 → ((nucEncodingCode o).getD 99 ≤ 3 ↔ plainState o < 4) := by decide

end TT.C01

namespace TT.C01
open TTGen.C01

/-- independent description of the state of a sense codon: the number of sense triplets before it -/
def senseRank (t : List Nat) (i : Nat) : Nat := ((List.range i).filter fun j => !isStop t j).length

def oneHot (n e : Nat) : List Nat := (List.range n).map fun j => if j = e then 1 else 0

/-- for every shipped code and every sense triplet: tip vector = indicator of its rank among the sense triplets,
    tip state = that rank -/
theorem codon_partial_ok :
    geneticCodes.all (fun t => (List.range 64).all fun i =>
      isStop t i ||
        (codonPartial t (codonTriplets.getD i []) == some (oneHot (64 - stops t) (senseRank t i)) &&
         codonTipState t (codonTriplets.getD i []) == some (senseRank t i))) = true := by decide +kernel

theorem nucEncodingCode_isSome : ∀ o, o < 128 → (nucEncodingCode o).isSome = true := by decide

theorem codonStateCount_le (t : List Nat) : codonStateCount t ≤ 64 := by
  unfold codonStateCount
  refine Nat.le_trans (List.length_filter_le _ _) ?_
  rw [List.length_take]
  exact Nat.min_le_left _ _

end TT.C01
