import TTModel.C08_Linear
import TTProofs.Lemmas.C08_Spec
import Mathlib.Data.List.GetD
/-!
# C08 — the linearly interpolated population size (spec) and the code's `bucketize` form

`lin x₀ y₀ [(x₁,y₁), …, (x_G,y_G)] t`: through the knots `(x₀,y₀), (x₁,y₁), …`, constant `y_G` after the last knot.
`linN θ grid = lin 0 θ₀ (zip grid θ[1:])` is the documented `N(t)` of `PiecewiseLinearCoalescentGrid`.
-/
namespace TT.C08

/-- piecewise-linear interpolation through knots with increasing abscissae, constant after the last knot -/
noncomputable def lin (x0 y0 : ℝ) : List (ℝ × ℝ) → ℝ → ℝ
  | [], _ => y0
  | (x1, y1) :: rest, t => if t ≤ x1 then y0 + (y1 - y0) * (t - x0) / (x1 - x0) else lin x1 y1 rest t

/-- the demographic function of the piecewise-linear model: knots `(0, θ₀), (g₁, θ₁), …, (g_G, θ_G)` -/
noncomputable def linN (θ grid : List ℝ) : ℝ → ℝ :=
  match θ with
  | [] => fun _ => 0
  | y0 :: ys => lin 0 y0 (grid.zip ys)

/-- knots strictly increasing, starting above `x0` -/
def KnotsSorted (x0 : ℝ) (segs : List (ℝ × ℝ)) : Prop := (x0 :: segs.map Prod.fst).Pairwise (· < ·)

theorem lin_at_start (x0 y0 : ℝ) (segs : List (ℝ × ℝ)) (h : KnotsSorted x0 segs) : lin x0 y0 segs x0 = y0 := by
  cases segs with
  | nil => rfl
  | cons s rest =>
    obtain ⟨x1, y1⟩ := s
    have hlt : x0 < x1 := (List.pairwise_cons.mp h).1 x1 (by simp)
    simp [lin, hlt.le]

/-- no knot strictly inside `(a, b)` -/
def NoKnotInside (knots : List ℝ) (a b : ℝ) : Prop := ∀ g ∈ knots, ¬(a < g ∧ g < b)

/-- on an interval free of knots (at or after the first knot) the function is affine -/
theorem lin_affine : ∀ (segs : List (ℝ × ℝ)) (x0 y0 a b : ℝ), KnotsSorted x0 segs → x0 ≤ a → a ≤ b →
    NoKnotInside (segs.map Prod.fst) a b →
    ∃ p q : ℝ, ∀ t, a ≤ t → t ≤ b → lin x0 y0 segs t = p + q * t
  | [], x0, y0, a, b, _, _, _, _ => ⟨y0, 0, fun t _ _ => by simp [lin]⟩
  | (x1, y1) :: rest, x0, y0, a, b, hk, hxa, hab, hno => by
      have hp := List.pairwise_cons.mp hk
      have h01 : x0 < x1 := hp.1 x1 (by simp)
      have hk' : KnotsSorted x1 rest := hp.2
      by_cases hb : b ≤ x1
      · refine ⟨y0 - (y1 - y0) * x0 / (x1 - x0), (y1 - y0) / (x1 - x0), fun t _ htb => ?_⟩
        simp only [lin, le_trans htb hb, if_true]
        have : x1 - x0 ≠ 0 := (sub_pos.mpr h01).ne'
        field_simp
        ring
      · have hb' : x1 < b := not_le.mp hb
        have hx1a : x1 ≤ a := by
          by_contra h
          exact hno x1 (by simp) ⟨not_le.mp h, hb'⟩
        obtain ⟨p, q, hpq⟩ := lin_affine rest x1 y1 a b hk' hx1a hab
          (fun g hg => hno g (by simp only [List.map_cons, List.mem_cons]; exact Or.inr hg))
        refine ⟨p, q, fun t hat htb => ?_⟩
        rw [← hpq t hat htb]
        by_cases ht : t ≤ x1
        · have hteq : t = x1 := le_antisymm ht (le_trans hx1a hat)
          subst hteq
          simp only [lin, le_refl, if_true]
          rw [lin_at_start _ _ _ hk']
          have : t - x0 ≠ 0 := (sub_pos.mpr h01).ne'
          field_simp
          ring
        · simp only [lin, ht, if_false]

/-- positive ordinates give a positive function from the first knot on -/
theorem lin_pos : ∀ (segs : List (ℝ × ℝ)) (x0 y0 t : ℝ), KnotsSorted x0 segs → 0 < y0 →
    (∀ s ∈ segs, 0 < s.2) → x0 ≤ t → 0 < lin x0 y0 segs t
  | [], _, y0, _, _, hy, _, _ => by simpa [lin] using hy
  | (x1, y1) :: rest, x0, y0, t, hk, hy, hs, hxt => by
      have hp := List.pairwise_cons.mp hk
      have h01 : x0 < x1 := hp.1 x1 (by simp)
      have hy1 : 0 < y1 := hs (x1, y1) (by simp)
      by_cases ht : t ≤ x1
      · simp only [lin, ht, if_true]
        have hd : 0 < x1 - x0 := sub_pos.mpr h01
        have hl0 : 0 ≤ (t - x0) / (x1 - x0) := div_nonneg (sub_nonneg.mpr hxt) hd.le
        have hl1 : (t - x0) / (x1 - x0) ≤ 1 := (div_le_one hd).mpr (by linarith)
        have : y0 + (y1 - y0) * (t - x0) / (x1 - x0)
            = (1 - (t - x0) / (x1 - x0)) * y0 + ((t - x0) / (x1 - x0)) * y1 := by ring
        rw [this]
        rcases eq_or_lt_of_le hl0 with h | h
        · rw [← h]; simpa using hy
        · have h1 : 0 < ((t - x0) / (x1 - x0)) * y1 := mul_pos h hy1
          have h2 : 0 ≤ (1 - (t - x0) / (x1 - x0)) * y0 := mul_nonneg (by linarith) hy.le
          linarith
      · simp only [lin, ht, if_false]
        exact lin_pos rest x1 y1 t hp.2 hy1 (fun s hs' => hs s (List.mem_cons_of_mem _ hs')) (not_le.mp ht).le

/-- value at a knot: the ordinate whose index is the number of knots strictly below -/
theorem lin_at_knot : ∀ (xs ys : List ℝ) (x0 y0 t : ℝ), KnotsSorted x0 (xs.zip ys) → xs.length = ys.length →
    t ∈ x0 :: xs → (y0 :: ys).getD ((x0 :: xs).countP (fun g => decide (g < t))) 0 = lin x0 y0 (xs.zip ys) t
  | [], ys, x0, y0, t, _, _, ht => by
      simp only [List.mem_singleton] at ht; subst ht
      simp [lin]
  | x1 :: xs, [], _, _, _, _, hl, _ => by simp at hl
  | x1 :: xs, y1 :: ys, x0, y0, t, hk, hl, ht => by
      have hk0 : KnotsSorted x0 ((x1, y1) :: xs.zip ys) := hk
      have hp := List.pairwise_cons.mp hk0
      have h01 : x0 < x1 := hp.1 x1 (by simp)
      have hk' : KnotsSorted x1 (xs.zip ys) := hp.2
      have hl' : xs.length = ys.length := by simpa using hl
      rcases List.mem_cons.mp ht with rfl | ht
      · -- t = x0
        have hz : (t :: x1 :: xs).countP (fun g => decide (g < t)) = 0 := by
          rw [List.countP_eq_zero]
          intro g hg
          rcases List.mem_cons.mp hg with rfl | hg
          · simp
          · have : t < g := by
              have hmem : g ∈ ((x1, y1) :: xs.zip ys).map Prod.fst := by
                rw [List.zip_cons_cons, List.map_cons] at *
                rcases List.mem_cons.mp hg with rfl | hg
                · simp
                · refine List.mem_cons_of_mem _ ?_
                  rw [List.map_fst_zip (le_of_eq hl')]; exact hg
              exact hp.1 g hmem
            simpa using this.le
        rw [hz]
        show y0 = lin t y0 ((x1, y1) :: xs.zip ys) t
        rw [lin_at_start _ _ _ hk0]
      · -- t is a later knot: x0 < t
        have hx0t : x0 < t := by
          have hmem : t ∈ ((x1, y1) :: xs.zip ys).map Prod.fst := by
            rw [List.map_cons]
            rcases List.mem_cons.mp ht with rfl | ht
            · simp
            · refine List.mem_cons_of_mem _ ?_
              rw [List.map_fst_zip (le_of_eq hl')]; exact ht
          exact hp.1 t hmem
        have ih := lin_at_knot xs ys x1 y1 t hk' hl' ht
        rw [List.countP_cons]
        simp only [hx0t, decide_true, if_true]
        rw [List.getD_cons_succ, ih]
        show lin x1 y1 (xs.zip ys) t = lin x0 y0 ((x1, y1) :: xs.zip ys) t
        by_cases htx : t ≤ x1
        · -- then t = x1 (t is a knot ≥ x1)
          have hge : x1 ≤ t := by
            rcases List.mem_cons.mp ht with rfl | ht'
            · exact le_refl _
            · have hk1 := List.pairwise_cons.mp hk'
              have : t ∈ (xs.zip ys).map Prod.fst := by rw [List.map_fst_zip (le_of_eq hl')]; exact ht'
              exact (hk1.1 t this).le
          have hteq : t = x1 := le_antisymm htx hge
          subst hteq
          simp only [lin, le_refl, if_true]
          rw [lin_at_start _ _ _ hk']
          have : t - x0 ≠ 0 := (sub_pos.mpr h01).ne'
          field_simp
          ring
        · simp only [lin, htx, if_false]

/-- scaling abscissae and ordinates by `c > 0` scales the function -/
theorem lin_scale (c : ℝ) (hc : 0 < c) : ∀ (segs : List (ℝ × ℝ)) (x0 y0 t : ℝ), KnotsSorted x0 segs →
    lin (c * x0) (c * y0) (segs.map (fun s => (c * s.1, c * s.2))) (c * t) = c * lin x0 y0 segs t
  | [], _, _, _, _ => by simp [lin]
  | (x1, y1) :: rest, x0, y0, t, hk => by
      have hp := List.pairwise_cons.mp hk
      have h01 : x0 < x1 := hp.1 x1 (by simp)
      have h01' : x1 - x0 ≠ 0 := (sub_pos.mpr h01).ne'
      simp only [List.map_cons, lin]
      have hiff : c * t ≤ c * x1 ↔ t ≤ x1 :=
        ⟨fun h => le_of_mul_le_mul_left h hc, fun h => mul_le_mul_of_nonneg_left h hc.le⟩
      by_cases ht : t ≤ x1
      · rw [if_pos (hiff.mpr ht), if_pos ht]
        have hc0 : c ≠ 0 := hc.ne'
        field_simp
      · rw [if_neg (fun h => ht (hiff.mp h)), if_neg ht]
        exact lin_scale c hc rest x1 y1 t hp.2

theorem linN_scale (c : ℝ) (hc : 0 < c) (θ grid : List ℝ) (hθ : θ.length = grid.length + 1)
    (hg : (0 :: grid).Pairwise (· < ·)) (x : ℝ) :
    linN (θ.map (c * ·)) (grid.map (c * ·)) (c * x) = c * linN θ grid x := by
  cases θ with
  | nil => simp at hθ
  | cons y0 ys =>
    have hl : grid.length = ys.length := by simpa using hθ.symm
    have hk : KnotsSorted 0 (grid.zip ys) := by
      unfold KnotsSorted; rw [List.map_fst_zip (le_of_eq hl)]; exact hg
    simp only [List.map_cons, linN]
    have hz : (grid.map (c * ·)).zip (ys.map (c * ·)) = (grid.zip ys).map (fun s => (c * s.1, c * s.2)) := by
      rw [List.zip_map]; rfl
    rw [hz]
    have := lin_scale c hc (grid.zip ys) 0 y0 x hk
    rwa [mul_zero] at this

/-! ### the code's `bucketize` / `gather` form equals `lin` -/

/-- `interp` generalised to an arbitrary first knot `(x0, y0)` -/
noncomputable def interpFrom (x0 : ℝ) (θ grid : List ℝ) (v : ℝ) : ℝ :=
  let i := bucket grid v
  let e := min (i + 1) (θ.length - 1)
  if i + 1 = e then
    θ.getD i 0 + (θ.getD e 0 - θ.getD i 0) * (v - (x0 :: grid).getD i 0) / ((x0 :: grid).getD e 0 - (x0 :: grid).getD i 0)
  else θ.getD e 0

theorem interp_eq_interpFrom (θ grid : List ℝ) (v : ℝ) : interp θ grid v = interpFrom 0 θ grid v := rfl

theorem bucket_cons (x1 : ℝ) (xs : List ℝ) (v : ℝ) :
    bucket (x1 :: xs) v = (if x1 < v then 1 else 0) + bucket xs v := by
  unfold bucket
  rw [List.countP_cons]
  by_cases h : x1 < v
  · simp [h, add_comm]
  · simp [h]

theorem interpFrom_eq_lin : ∀ (xs ys : List ℝ) (x0 y0 v : ℝ), KnotsSorted x0 (xs.zip ys) →
    xs.length = ys.length → interpFrom x0 (y0 :: ys) xs v = lin x0 y0 (xs.zip ys) v
  | [], ys, x0, y0, v, _, hl => by
      have : ys = [] := List.length_eq_zero_iff.mp hl.symm
      subst this
      simp [interpFrom, bucket, lin]
  | x1 :: xs, [], _, _, _, _, hl => by simp at hl
  | x1 :: xs, y1 :: ys, x0, y0, v, hk, hl => by
      have hk0 : KnotsSorted x0 ((x1, y1) :: xs.zip ys) := hk
      have hp := List.pairwise_cons.mp hk0
      have hk' : KnotsSorted x1 (xs.zip ys) := hp.2
      have hl' : xs.length = ys.length := by simpa using hl
      have ih := interpFrom_eq_lin xs ys x1 y1 v hk' hl'
      show interpFrom x0 (y0 :: y1 :: ys) (x1 :: xs) v = lin x0 y0 ((x1, y1) :: xs.zip ys) v
      by_cases hv : v ≤ x1
      · -- bucket 0: every grid point is ≥ x1 ≥ v
        have hb : bucket (x1 :: xs) v = 0 := by
          unfold bucket
          rw [List.countP_eq_zero]
          intro g hg
          rcases List.mem_cons.mp hg with rfl | hg
          · simpa using hv
          · have hk1 := List.pairwise_cons.mp hk'
            have : g ∈ (xs.zip ys).map Prod.fst := by rw [List.map_fst_zip (le_of_eq hl')]; exact hg
            have := hk1.1 g this
            simp only [decide_not, Bool.not_eq_true', decide_eq_false_iff_not, not_not]
            linarith
        simp only [interpFrom, hb, lin, hv, if_true, List.length_cons]
        have he : min (0 + 1) (ys.length + 1 + 1 - 1) = 1 := by omega
        rw [he]
        simp
      · have hlt : x1 < v := not_le.mp hv
        simp only [lin, hv, if_false]
        rw [← ih]
        unfold interpFrom
        rw [bucket_cons, if_pos hlt]
        simp only [List.length_cons]
        have hmin : min (1 + bucket xs v + 1) (ys.length + 1 + 1 - 1) = min (bucket xs v + 1) (ys.length + 1 - 1) + 1 := by
          omega
        rw [hmin]
        have hidx : (1 + bucket xs v + 1 = min (bucket xs v + 1) (ys.length + 1 - 1) + 1)
            ↔ (bucket xs v + 1 = min (bucket xs v + 1) (ys.length + 1 - 1)) := by omega
        by_cases hc : bucket xs v + 1 = min (bucket xs v + 1) (ys.length + 1 - 1)
        · rw [if_pos (hidx.mpr hc), if_pos hc]
          rw [show 1 + bucket xs v = bucket xs v + 1 by omega]
          simp only [List.getD_cons_succ]
        · rw [if_neg (fun h => hc (hidx.mp h)), if_neg hc]
          simp only [List.getD_cons_succ]

/-- the code's interpolation is `linN` for an increasing positive grid and one `θ` per knot -/
theorem interp_eq_linN (θ grid : List ℝ) (v : ℝ) (hθ : θ.length = grid.length + 1)
    (hg : (0 :: grid).Pairwise (· < ·)) : interp θ grid v = linN θ grid v := by
  cases θ with
  | nil => simp at hθ
  | cons y0 ys =>
    have hl : grid.length = ys.length := by simpa using hθ.symm
    rw [interp_eq_interpFrom, linN]
    apply interpFrom_eq_lin grid ys 0 y0 v _ hl
    unfold KnotsSorted
    rw [List.map_fst_zip (le_of_eq hl)]
    exact hg

/-! ### `torch.unique` with counts: the same lineage counter -/

theorem kAt_insertCount (x : ℝ) : ∀ (l : List (ℝ × ℕ)) (y : ℝ),
    kAt ((insertCount x l).map (fun p => (⟨p.1, (p.2 : Int)⟩ : Ev ℝ))) y
      = (if x < y then 1 else 0) + kAt (l.map (fun p => (⟨p.1, (p.2 : Int)⟩ : Ev ℝ))) y
  | [], y => by
      rw [show insertCount x ([] : List (ℝ × ℕ)) = [(x, 1)] from rfl]
      simp only [List.map_cons, List.map_nil, kAt_cons]
      simp [kAt]
  | (u, c) :: rest, y => by
      unfold insertCount
      by_cases h1 : x ≤ u
      · by_cases h2 : u ≤ x
        · have hxu : x = u := le_antisymm h1 h2
          subst hxu
          simp only [h1, if_true, List.map_cons, kAt_cons]
          by_cases hy : x < y <;> simp [hy] <;> ring
        · simp only [h1, h2, if_true, if_false, List.map_cons, kAt_cons]
          by_cases hy : x < y <;> simp [hy]
      · simp only [h1, if_false, List.map_cons, kAt_cons, kAt_insertCount x rest y]
        ring

theorem kAt_uniqueCounts : ∀ (l : List ℝ) (y : ℝ),
    kAt ((uniqueCounts l).map (fun p => (⟨p.1, (p.2 : Int)⟩ : Ev ℝ))) y
      = (l.countP (fun s => decide (s < y)) : ℤ)
  | [], y => by simp [uniqueCounts, kAt]
  | x :: l, y => by
      have ih := kAt_uniqueCounts l y
      unfold uniqueCounts at ih ⊢
      rw [List.foldr_cons, kAt_insertCount, ih, List.countP_cons]
      by_cases h : x < y <;> simp [h] <;> ring

theorem insertCount_pos (x : ℝ) : ∀ (l : List (ℝ × ℕ)), (∀ p ∈ l, 1 ≤ p.2) → ∀ p ∈ insertCount x l, 1 ≤ p.2
  | [], _, p, h => by
      simp only [insertCount, List.mem_singleton] at h; subst h; exact le_refl _
  | (u, c) :: rest, hl, p, h => by
      unfold insertCount at h
      by_cases h1 : x ≤ u
      · by_cases h2 : u ≤ x
        · simp only [h1, h2, if_true] at h
          rcases List.mem_cons.mp h with rfl | h
          · exact Nat.le_add_left 1 c
          · exact hl p (List.mem_cons_of_mem _ h)
        · simp only [h1, h2, if_true, if_false] at h
          rcases List.mem_cons.mp h with rfl | h
          · exact le_refl _
          · exact hl p h
      · simp only [h1, if_false] at h
        rcases List.mem_cons.mp h with rfl | h
        · exact hl _ (List.mem_cons_self)
        · exact insertCount_pos x rest (fun q hq => hl q (List.mem_cons_of_mem _ hq)) p h

theorem insertCount_fst (x : ℝ) : ∀ (l : List (ℝ × ℕ)) (p : ℝ × ℕ), p ∈ insertCount x l →
    p.1 = x ∨ ∃ q ∈ l, q.1 = p.1
  | [], p, h => by
      simp only [insertCount, List.mem_singleton] at h; subst h; exact Or.inl rfl
  | (u, c) :: rest, p, h => by
      unfold insertCount at h
      by_cases h1 : x ≤ u
      · by_cases h2 : u ≤ x
        · simp only [h1, h2, if_true] at h
          rcases List.mem_cons.mp h with rfl | h
          · exact Or.inr ⟨(u, c), List.mem_cons_self, rfl⟩
          · exact Or.inr ⟨p, List.mem_cons_of_mem _ h, rfl⟩
        · simp only [h1, h2, if_true, if_false] at h
          rcases List.mem_cons.mp h with rfl | h
          · exact Or.inl rfl
          · exact Or.inr ⟨p, h, rfl⟩
      · simp only [h1, if_false] at h
        rcases List.mem_cons.mp h with rfl | h
        · exact Or.inr ⟨(u, c), List.mem_cons_self, rfl⟩
        · rcases insertCount_fst x rest p h with h | ⟨q, hq, hqe⟩
          · exact Or.inl h
          · exact Or.inr ⟨q, List.mem_cons_of_mem _ hq, hqe⟩

theorem uniqueCounts_pos : ∀ (l : List ℝ), ∀ p ∈ uniqueCounts l, 1 ≤ p.2
  | [] => by simp [uniqueCounts]
  | x :: l => by
      unfold uniqueCounts
      rw [List.foldr_cons]
      exact insertCount_pos x _ (uniqueCounts_pos l)

theorem uniqueCounts_fst : ∀ (l : List ℝ), ∀ p ∈ uniqueCounts l, p.1 ∈ l
  | [] => by simp [uniqueCounts]
  | x :: l => by
      intro p hp
      unfold uniqueCounts at hp
      rw [List.foldr_cons] at hp
      rcases insertCount_fst x _ p hp with h | ⟨q, hq, hqe⟩
      · rw [h]; exact List.mem_cons_self
      · rw [← hqe]; exact List.mem_cons_of_mem _ (uniqueCounts_fst l q hq)

theorem sum_marks_insertCount (x : ℝ) : ∀ (l : List (ℝ × ℕ)),
    ((insertCount x l).map (fun p => (p.2 : ℤ))).sum = 1 + (l.map (fun p => (p.2 : ℤ))).sum
  | [] => by simp [insertCount]
  | (u, c) :: rest => by
      unfold insertCount
      by_cases h1 : x ≤ u
      · by_cases h2 : u ≤ x
        · simp only [h1, h2, if_true, List.map_cons, List.sum_cons]; push_cast; ring
        · simp only [h1, h2, if_true, if_false, List.map_cons, List.sum_cons]; push_cast; ring
      · simp only [h1, if_false, List.map_cons, List.sum_cons, sum_marks_insertCount x rest]; ring

theorem sum_marks_uniqueCounts : ∀ (l : List ℝ),
    ((uniqueCounts l).map (fun p => (p.2 : ℤ))).sum = l.length
  | [] => by simp [uniqueCounts]
  | x :: l => by
      have ih := sum_marks_uniqueCounts l
      unfold uniqueCounts at ih ⊢
      rw [List.foldr_cons, sum_marks_insertCount, ih]
      simp; ring

end TT.C08
