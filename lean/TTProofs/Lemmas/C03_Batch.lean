import TTModel.C03_Batch
import TTProofs.Lemmas.C03_Rescale
import TTProofs.Lemmas.C03_Grad
/-!
# C03 batch lemmas: the batched safe pass, seen from one sample, is a safe pass whose threshold
decisions come from outside; such a pass still carries `plain = factor · scaled`.
-/
namespace TT.C03

variable {N K S B : Nat}

section field
variable {F : Type} [Field F]

theorem safeStepD_true (scaler : Nat → Fin N → Part F N K S → F) (M : Mats F K S) (ss : SState F N K S)
    (t : Triple) (d : Bool) (h : (ss.flags t.2.1 || ss.flags t.2.2 || d) = true) :
    safeStepD scaler M ss (t, d) =
      { st := (rescStep scaler 0 noTips M ⟨ss.st, ss.scalers⟩ t).st,
        flags := setFlag ss.flags t.1,
        scalers := (rescStep scaler 0 noTips M ⟨ss.st, ss.scalers⟩ t).scalers } := by
  unfold safeStepD
  rw [if_pos h]
  rfl

theorem safeStepD_false (scaler : Nat → Fin N → Part F N K S → F) (M : Mats F K S) (ss : SState F N K S)
    (t : Triple) (d : Bool) (h : ¬ (ss.flags t.2.1 || ss.flags t.2.2 || d) = true) :
    safeStepD scaler M ss (t, d) = ss := by
  unfold safeStepD
  rw [if_neg h]

theorem safeDec_scalers_mem (scaler : Nat → Fin N → Part F N K S → F) (M : Mats F K S) :
    ∀ (tds : List (Triple × Bool)) (ss : SState F N K S) (sc : Vector F N), sc ∈ ss.scalers →
      sc ∈ (tds.foldl (safeStepD scaler M) ss).scalers
  | [], _, _, h => h
  | (t, d) :: tds, ss, sc, h => by
      simp only [List.foldl_cons]
      refine safeDec_scalers_mem scaler M tds _ sc ?_
      by_cases hc : (ss.flags t.2.1 || ss.flags t.2.2 || d) = true
      · rw [safeStepD_true _ _ _ _ _ hc, rescStep_scalers]; simp [h]
      · rw [safeStepD_false _ _ _ _ _ hc]; exact h

/-- main induction for a safe pass with externally supplied threshold decisions -/
theorem safe_main_dec {T : Nat} (scaler : Nat → Fin N → Part F N K S → F)
    (M : Mats F K S) (Pf : Store F N K S) :
    ∀ (tds : List (Triple × Bool)) (ss : SState F N K S) (c : Nat → Fin N → F)
      (live done lf : List Nat),
      Consistent Pf M (tds.map (·.1)) → InvA Pf ss.st c → InvB T c live done ss.scalers →
      (∀ i, ss.flags i = false → ∀ n, c i n = 1) →
      wfAux T (tds.map (·.1)) live done = some lf →
      (∀ sc ∈ (tds.foldl (safeStepD scaler M) ss).scalers, ∀ n : Fin N, sc[n] ≠ 0) →
      ∃ c' : Nat → Fin N → F,
        InvA Pf (tds.foldl (safeStepD scaler M) ss).st c' ∧
        ∀ n, (lf.map fun i => c' i n).prod =
          ((tds.foldl (safeStepD scaler M) ss).scalers.map fun sc => sc[n]).prod
  | [], ss, c, live, done, lf, _, hA, hB, _, hwf, _ => by
      simp only [List.map_nil, wfAux, Option.some.injEq] at hwf
      subst hwf
      exact ⟨c, hA, hB.prod⟩
  | (t, d) :: tds, ss, c, live, done, lf, hcons, hA, hB, hF, hwf, hpos => by
      simp only [List.map_cons] at hcons hwf
      obtain ⟨hT, hnd, hl, hr, hwf'⟩ := wfAux_cons hwf
      have hcons' : Consistent Pf M (tds.map (·.1)) := fun t' ht' => hcons t' (List.mem_cons_of_mem _ ht')
      simp only [List.foldl_cons] at hpos ⊢
      by_cases hc : (ss.flags t.2.1 || ss.flags t.2.2 || d) = true
      · have hstep := safeStepD_true scaler M ss t d hc
        have hsc : ∀ n, stepScaler scaler 0 noTips M ss.st t n ≠ 0 := by
          intro n
          have hm : Vector.ofFn (stepScaler scaler 0 noTips M ss.st t) ∈
              (safeStepD scaler M ss (t, d)).scalers := by
            rw [hstep]; simp [rescStep_scalers]
          have := hpos _ (safeDec_scalers_mem scaler M tds _ _ hm) n
          rwa [ofFn_getFin] at this
        have hA0 := invA_step scaler 0 noTips M Pf ⟨ss.st, ss.scalers⟩ c t hA hsc
        have hA' : InvA Pf (safeStepD scaler M ss (t, d)).st
            (cUpd 0 c t (stepScaler scaler 0 noTips M ss.st t)) := by
          rw [hstep]
          intro i n k s
          rw [← hA0 i n k s]
          unfold peelStep
          simp only [Store.get_set]
          by_cases hi : i = t.1
          · simp only [hi, if_true]
            exact hcons t (List.mem_cons_self) n k s
          · simp only [hi, if_false]
        have hB' := invB_step (Tc := 0) (Nat.zero_le T) c live done ss.scalers t
          (stepScaler scaler 0 noTips M ss.st t) hB hT hnd hl hr
        have hB'' : InvB T (cUpd 0 c t (stepScaler scaler 0 noTips M ss.st t))
            (t.1 :: consume T (consume T live t.2.1) t.2.2) (t.1 :: done)
            (safeStepD scaler M ss (t, d)).scalers := by
          rw [hstep]; simpa [rescStep_scalers] using hB'
        have hF' : ∀ i, (safeStepD scaler M ss (t, d)).flags i = false →
            ∀ n, cUpd 0 c t (stepScaler scaler 0 noTips M ss.st t) i n = 1 := by
          intro i hi n
          rw [hstep] at hi
          simp only [setFlag] at hi
          by_cases hin : i = t.1
          · simp [hin] at hi
          · simp only [hin, if_false] at hi
            simp [cUpd, hin, hF i hi n]
        exact safe_main_dec scaler M Pf tds _ _ _ _ lf hcons' hA' hB'' hF' hwf' hpos
      · have hstep := safeStepD_false scaler M ss t d hc
        rw [hstep] at hpos ⊢
        have hfl : ss.flags t.2.1 = false ∧ ss.flags t.2.2 = false := by
          simp only [Bool.or_eq_true, not_or, Bool.not_eq_true] at hc
          exact ⟨hc.1.1, hc.1.2⟩
        have hB' := invB_skip c live done ss.scalers t hB hT hnd hl hr (hF _ hfl.1) (hF _ hfl.2)
        exact safe_main_dec scaler M Pf tds ss c _ _ lf hcons' hA hB' hF hwf' hpos

/-- algebraic core for a decision-driven safe pass started on a consistent list -/
theorem siteLik_safeDec_mul {T : Nat} (scaler : Nat → Fin N → Part F N K S → F) (M : Mats F K S)
    (freqs : Fin S → F) (props : Fin K → F) (Pf : Store F N K S) (ts : List Triple) (ds : List Bool)
    (hlen : ds.length = ts.length) (hwf : wf T ts = true) (hcons : Consistent Pf M ts)
    (hne : ∀ sc ∈ (peelSafeDec scaler M ⟨Pf, fun _ => false, []⟩ (ts.zip ds)).scalers,
      ∀ n : Fin N, sc[n] ≠ 0) (n : Fin N) :
    siteLik freqs props (Pf.get (rootOf ts)) n =
      ((peelSafeDec scaler M ⟨Pf, fun _ => false, []⟩ (ts.zip ds)).scalers.map fun sc => sc[n]).prod *
        siteLik freqs props ((peelSafeDec scaler M ⟨Pf, fun _ => false, []⟩ (ts.zip ds)).st.get (rootOf ts)) n := by
  have hmap : (ts.zip ds).map (·.1) = ts := by
    rw [List.map_fst_zip]; omega
  obtain ⟨c', hA, hprod⟩ := safe_main_dec (T := T) scaler M Pf (ts.zip ds) ⟨Pf, fun _ => false, []⟩
    (fun _ _ => 1) [] [] [rootOf ts] (by rw [hmap]; exact hcons) (invA_refl Pf) (invB_init T)
    (fun _ _ _ => rfl) (by rw [hmap]; exact wf_unpack hwf) hne
  have hp := hprod n
  simp only [List.map_cons, List.map_nil, List.prod_cons, List.prod_nil, mul_one] at hp
  unfold peelSafeDec
  rw [← hp]
  exact siteLik_scale freqs props _ _ _ n (fun k s => hA (rootOf ts) n k s)

/-- the decision-driven safe loop writes internal slots only -/
theorem safeDec_get_keep {T : Nat} (scaler : Nat → Fin N → Part F N K S → F) (M : Mats F K S) :
    ∀ (tds : List (Triple × Bool)) (ss : SState F N K S) (live done lf : List Nat),
      wfAux T (tds.map (·.1)) live done = some lf → ∀ i, i < T →
      (tds.foldl (safeStepD scaler M) ss).st.get i = ss.st.get i
  | [], _, _, _, _, _, _, _ => rfl
  | (t, d) :: tds, ss, live, done, lf, hwf, i, hi => by
      simp only [List.map_cons] at hwf
      obtain ⟨hT, _, _, _, hwf'⟩ := wfAux_cons hwf
      have hne : i ≠ t.1 := fun e => absurd (e ▸ hT) (Nat.not_le.mpr hi)
      simp only [List.foldl_cons]
      rw [safeDec_get_keep scaler M tds _ _ _ lf hwf' i hi]
      by_cases hc : (ss.flags t.2.1 || ss.flags t.2.2 || d) = true
      · rw [safeStepD_true _ _ _ _ _ hc]; simp [rescStep_st, hne]
      · rw [safeStepD_false _ _ _ _ _ hc]

end field

/-- scaler positivity for a decision-driven safe pass with the code's `max` scalers -/
theorem safeDec_scalers_pos_aux (M : Mats ℝ K S) (Pf : Store ℝ N K S) :
    ∀ (tds : List (Triple × Bool)) (ss : SState ℝ N K S) (c : Nat → Fin N → ℝ),
      Consistent Pf M (tds.map (·.1)) → InvA Pf ss.st c → (∀ i n, 0 < c i n) →
      (∀ t ∈ tds.map (·.1), ∀ n, ∃ k s, 0 < (Pf.get t.1).get n k s) →
      (∀ sc ∈ ss.scalers, ∀ n : Fin N, 0 < sc[n]) →
      ∀ sc ∈ (tds.foldl (safeStepD (fun _ n p => maxKS p n) M) ss).scalers, ∀ n : Fin N, 0 < sc[n]
  | [], _, _, _, _, _, _, hs => hs
  | (t, d) :: tds, ss, c, hcons, hA, hc, hpl, hs => by
      simp only [List.map_cons] at hcons hpl
      have hcons' : Consistent Pf M (tds.map (·.1)) := fun t' ht' => hcons t' (List.mem_cons_of_mem _ ht')
      have hpl' : ∀ t' ∈ tds.map (·.1), ∀ n, ∃ k s, 0 < (Pf.get t'.1).get n k s :=
        fun t' ht' => hpl t' (List.mem_cons_of_mem _ ht')
      simp only [List.foldl_cons]
      by_cases hcnd : (ss.flags t.2.1 || ss.flags t.2.2 || d) = true
      · have hstep := safeStepD_true (fun _ n p => maxKS p n) M ss t d hcnd
        have hsc : ∀ n, 0 < stepScaler (fun _ n p => maxKS p n) 0 noTips M ss.st t n := by
          intro n
          obtain ⟨k, s, hks⟩ := hpl t (List.mem_cons_self) n
          rw [hcons t (List.mem_cons_self) n k s, combine_get] at hks
          have hl := contrib_scale 0 noTips M t.2.1 (Pf.get t.2.1) (ss.st.get t.2.1) (c t.2.1 n) n k s
            (fun h => absurd h (Nat.not_lt_zero _)) (fun _ j => hA _ _ _ _)
          have hr := contrib_scale 0 noTips M t.2.2 (Pf.get t.2.2) (ss.st.get t.2.2) (c t.2.2 n) n k s
            (fun h => absurd h (Nat.not_lt_zero _)) (fun _ j => hA _ _ _ _)
          rw [hl, hr] at hks
          have hraw : 0 < (combine 0 noTips M ss.st t.2.1 t.2.2).get n k s := by
            rw [combine_get]
            have e : c t.2.1 n * contrib 0 noTips M t.2.1 (ss.st.get t.2.1) n k s *
                (c t.2.2 n * contrib 0 noTips M t.2.2 (ss.st.get t.2.2) n k s)
                = (c t.2.1 n * c t.2.2 n) *
                  (contrib 0 noTips M t.2.1 (ss.st.get t.2.1) n k s *
                    contrib 0 noTips M t.2.2 (ss.st.get t.2.2) n k s) := by ring
            rw [e] at hks
            exact (mul_pos_iff_of_pos_left (mul_pos (hc _ n) (hc _ n))).mp hks
          exact lt_of_lt_of_le hraw (Ex.le_maxKS _ n k s)
        have hA0 := invA_step (fun _ n p => maxKS p n) 0 noTips M Pf ⟨ss.st, ss.scalers⟩ c t hA
          (fun n => (hsc n).ne')
        have hA' : InvA Pf (safeStepD (fun _ n p => maxKS p n) M ss (t, d)).st
            (cUpd 0 c t (stepScaler (fun _ n p => maxKS p n) 0 noTips M ss.st t)) := by
          rw [hstep]
          intro i n k s
          rw [← hA0 i n k s]
          unfold peelStep
          simp only [Store.get_set]
          by_cases hi : i = t.1
          · simp only [hi, if_true]
            exact hcons t (List.mem_cons_self) n k s
          · simp only [hi, if_false]
        have hc' : ∀ i n, 0 < cUpd 0 c t (stepScaler (fun _ n p => maxKS p n) 0 noTips M ss.st t) i n := by
          intro i n
          unfold cUpd cEff
          split
          · simp only [Nat.not_lt_zero, if_false]
            exact mul_pos (mul_pos (hc _ n) (hc _ n)) (hsc n)
          · exact hc i n
        have hs' : ∀ sc ∈ (safeStepD (fun _ n p => maxKS p n) M ss (t, d)).scalers,
            ∀ n : Fin N, 0 < sc[n] := by
          intro sc hm n
          rw [hstep] at hm
          simp only [rescStep_scalers] at hm
          rcases List.mem_append.mp hm with h | h
          · exact hs sc h n
          · simp only [List.mem_singleton] at h
            subst h
            rw [ofFn_getFin]; exact hsc n
        exact safeDec_scalers_pos_aux M Pf tds _ _ hcons' hA' hc' hpl' hs'
      · rw [safeStepD_false (fun _ n p => maxKS p n) M ss t d hcnd]
        exact safeDec_scalers_pos_aux M Pf tds ss c hcons' hA hc hpl' hs

/-- every slot the plain loop writes is independent of what the start list held in internal slots -/
theorem peel_indep_all {F : Type} [Field F] {T : Nat} (Tc : Nat) (tipc : Nat → Fin N → Fin K → Fin S → F)
    (M : Mats F K S) :
    ∀ (ts : List Triple) (st st' : Store F N K S) (live done lf : List Nat),
      (∀ i ∈ live, i ∈ done) → wfAux T ts live done = some lf →
      (∀ i, Tc ≤ i → (i < T ∨ i ∈ done) → st.get i = st'.get i) →
      ∀ i, Tc ≤ i → (i < T ∨ i ∈ done ∨ i ∈ ts.map (·.1)) →
        (peel Tc tipc M st ts).get i = (peel Tc tipc M st' ts).get i
  | [], st, st', live, done, lf, _, _, hag => by
      intro i hge hi
      simp only [List.map_nil, List.not_mem_nil, or_false] at hi
      exact hag i hge hi
  | t :: ts, st, st', live, done, lf, hsub, hwf, hag => by
      obtain ⟨hT, hnd, hl, hr, hwf'⟩ := wfAux_cons hwf
      have hsub' : ∀ i ∈ t.1 :: consume T (consume T live t.2.1) t.2.2, i ∈ t.1 :: done := by
        intro i hi
        simp only [List.mem_cons] at hi ⊢
        exact hi.imp id fun h => hsub i (consume_subset _ _ _ i (consume_subset _ _ _ i h))
      have hag' : ∀ i, Tc ≤ i → (i < T ∨ i ∈ t.1 :: done) →
          (peelStep Tc tipc M st t).get i = (peelStep Tc tipc M st' t).get i := by
        intro i hge hi
        unfold peelStep
        simp only [Store.get_set]
        by_cases hit : i = t.1
        · simp only [hit, if_true]
          exact combine_congr_ge Tc tipc M st st' _ _
            (fun h => hag _ h ((childOk_cases hl).imp id fun h => hsub _ h))
            (fun h => hag _ h ((childOk_cases hr).imp id fun h => hsub _ (consume_subset _ _ _ _ h)))
        · simp only [hit, if_false]
          refine hag i hge (hi.imp id fun h => ?_)
          rcases List.mem_cons.mp h with h | h
          · exact absurd h hit
          · exact h
      intro i hge hi
      refine peel_indep_all Tc tipc M ts _ _ _ _ lf hsub' hwf' hag' i hge ?_
      rcases hi with h | h | h
      · exact Or.inl h
      · exact Or.inr (Or.inl (List.mem_cons_of_mem _ h))
      · simp only [List.map_cons, List.mem_cons] at h
        rcases h with h | h
        · exact Or.inr (Or.inl (h ▸ List.mem_cons_self))
        · exact Or.inr (Or.inr h)

/-- slot of any triple's node after the plain pass: the same for all start lists with the same tips -/
theorem peel_slot_indep {F : Type} [Field F] {T : Nat} (Tc : Nat) (tipc : Nat → Fin N → Fin K → Fin S → F)
    (M : Mats F K S) (ts : List Triple) (st st' : Store F N K S) (hwf : wf T ts = true)
    (hag : ∀ i, i < T → st.get i = st'.get i) (hTc : Tc ≤ T) (t : Triple) (ht : t ∈ ts) :
    (peel Tc tipc M st ts).get t.1 = (peel Tc tipc M st' ts).get t.1 := by
  have hge : T ≤ t.1 := by
    -- every node of a well-formed post-order is an internal index
    have : ∀ (ts : List Triple) (live done lf : List Nat), wfAux T ts live done = some lf →
        ∀ t ∈ ts, T ≤ t.1 := by
      intro ts
      induction ts with
      | nil => intro _ _ _ _ t ht; simp at ht
      | cons a ts ih =>
        intro live done lf hwf t ht
        obtain ⟨hT, _, _, _, hwf'⟩ := wfAux_cons hwf
        rcases List.mem_cons.mp ht with rfl | ht
        · exact hT
        · exact ih _ _ _ hwf' t ht
    exact this ts [] [] _ (wf_unpack hwf) t ht
  exact peel_indep_all (T := T) Tc tipc M ts st st' [] [] _ (fun _ h => by simp at h) (wf_unpack hwf)
    (fun i _ hi => hag i (hi.resolve_right (by simp))) t.1 (Nat.le_trans hTc hge)
    (Or.inr (Or.inr (List.mem_map_of_mem ht)))

section proj
variable {α : Type} [Add α] [Mul α] [Zero α] [Div α] [Max α] [LT α] [DecidableLT α]

/-- **projection**: the batched safe pass restricted to sample `b` is a decision-driven safe pass of
  that sample; the decisions (one per triple) are the same for every sample -/
theorem safeB_sample (thr : α) (M : Fin B → Mats α K S) :
    ∀ (ts : List Triple) (bs : BState α N K S B), ∃ ds : List Bool, ds.length = ts.length ∧
      ∀ b, (ts.foldl (safeStepB thr M) bs).sample b =
        peelSafeDec (fun _ n p => maxKS p n) (M b) (bs.sample b) (ts.zip ds)
  | [], bs => ⟨[], rfl, fun _ => rfl⟩
  | t :: ts, bs => by
      obtain ⟨ds, hlen, h⟩ := safeB_sample thr M ts (safeStepB thr M bs t)
      refine ⟨belowThrB thr bs.st t.1 :: ds, by simp [hlen], fun b => ?_⟩
      simp only [List.foldl_cons, List.zip_cons_cons, peelSafeDec]
      rw [h b]
      have hstep : (safeStepB thr M bs t).sample b =
          safeStepD (fun _ n p => maxKS p n) (M b) (bs.sample b) (t, belowThrB thr bs.st t.1) := by
        unfold safeStepB safeStepD BState.sample
        by_cases hc : (bs.flags t.2.1 || bs.flags t.2.2 || belowThrB thr bs.st t.1) = true
        · simp only [hc, if_true]; rfl
        · simp only [hc]; rfl
      rw [hstep]
      rfl

end proj

end TT.C03
