import TTModel.C15_Block
import TTProofs.Lemmas.Sums
import TTProofs.Lemmas.C15_Real
import Mathlib.LinearAlgebra.Matrix.Block
import Mathlib.LinearAlgebra.Matrix.Determinant.Basic
import Mathlib.Analysis.SpecialFunctions.Log.Basic
import Mathlib.Data.Matrix.Mul
import Mathlib.Tactic.Ring
import Mathlib.Tactic.Linarith
/-! Gaussian bookkeeping of the GMRF block update -/
namespace TT.C15
open Matrix

variable {n : ℕ}

/-- log-density of `N(μ, P⁻¹)` at `x`, `P` the precision matrix -/
noncomputable def gaussLog (x μ : Fin n → ℝ) (P : Matrix (Fin n) (Fin n) ℝ) : ℝ :=
  -((n : ℝ) / 2) * Real.log (2 * Real.pi) + 1 / 2 * Real.log P.det
    - 1 / 2 * ((x - μ) ⬝ᵥ (P *ᵥ (x - μ)))

/-- `Σ log U_ii = ½ log det(UᵀU)` for an upper triangular `U` with positive diagonal -/
theorem logDiagSum_eq (thr : ℝ) (hthr : 0 ≤ thr) (U : Matrix (Fin n) (Fin n) ℝ)
    (htri : U.BlockTriangular id) (hd : ∀ i, thr < U i i) :
    logDiagSum thr (fun i j => U i j) = 1 / 2 * Real.log (Uᵀ * U).det := by
  have hpos : ∀ i, 0 < U i i := fun i => lt_of_le_of_lt hthr (hd i)
  have hdet : U.det = ∏ i, U i i := det_of_isUpperTriangular htri
  rw [det_mul, det_transpose, hdet, ← sq, Real.log_pow, Real.log_prod]
  · simp only [logDiagSum, sumFin_eq_sum, hd, if_true, trans_log_real]
    push_cast; ring
  · intro i _; exact (hpos i).ne'

/-- `z·z = e·(UᵀU)e` when `z = U e` -/
theorem quad_of_chol (U : Matrix (Fin n) (Fin n) ℝ) (e : Fin n → ℝ) :
    (U *ᵥ e) ⬝ᵥ (U *ᵥ e) = e ⬝ᵥ ((Uᵀ * U) *ᵥ e) := by
  rw [← mulVec_mulVec, dotProduct_mulVec, ← mulVec_transpose, dotProduct_comm]

end TT.C15
