import TTModel.C17_Codec
import TTModel.C17_Resume
import Std.Data.String.ToInt
/-! Helper lemmas for C17 (codec round trip, association lists, state tables, run loop). -/
namespace TT.C17

@[simp] theorem Key.toStr_str (s : String) : (Key.str s).toStr = s := rfl
@[simp] theorem Key.toStr_int (n : Int) : (Key.int n).toStr = n.repr := rfl

theorem parse_name (dt : DType) : DType.parse dt.name = some dt := by
  cases dt <;> decide

/-! ## decode ∘ encode = canon (mutual structural induction over the value universe) -/

mutual
theorem decode_encode (dflt : DType) : ∀ v, decode dflt (encode v) = canon dflt v
  | .none => rfl
  | .bool _ => rfl
  | .int _ => rfl
  | .float _ => rfl
  | .str _ => rfl
  | .list xs => by simp [encode, decode, canon, decodeVals_encodeVals dflt xs]
  | .tuple xs => by simp [encode, decode, canon, decodeVals_encodeVals dflt xs]
  | .dict kvs => by simp [encode, decode, canon, decodeKVs_encodeKVs dflt kvs]
  | .tensor dt nn data => by
      cases nn <;>
      simp [encode, decode, decodeKVs, canon, decode_encode dflt data] <;>
      cases canon dflt data <;> cases dt <;>
      simp [objectHook, KVs.upsert, KVs.lookup, KVs.erase, Key.toStr, isTensorTag,
        KVs.keys, tensorKwargs, DType.isFloat, DType.name, DType.parse]
  | .param id dt nn data => by
      simp [encode, decode, decodeKVs, canon, decode_encode dflt data]
      cases canon dflt data <;> simp [objectHook, KVs.upsert, KVs.lookup, Key.toStr, isTensorTag]
theorem decodeVals_encodeVals (dflt : DType) : ∀ xs, decodeVals dflt (encodeVals xs) = canonVals dflt xs
  | .nil => rfl
  | .cons v r => by
      simp [encodeVals, decodeVals, canonVals, decode_encode dflt v, decodeVals_encodeVals dflt r]
theorem decodeKVs_encodeKVs (dflt : DType) :
    ∀ kvs acc, decodeKVs dflt (encodeKVs kvs) acc = canonKVs dflt kvs acc
  | .nil, acc => rfl
  | .cons k v r, acc => by
      simp [encodeKVs, decodeKVs, canonKVs, decode_encode dflt v]
      cases canon dflt v <;> simp [decodeKVs_encodeKVs dflt r]
end

/-! ## association lists -/

/-- apply `f` to every value, writing every key as a string (what JSON does to a dictionary whose
keys do not collide) -/
def KVs.mapM (f : Val → Option Val) : KVs → Option KVs
  | .nil => some .nil
  | .cons k v r => (f v).bind fun v' => (KVs.mapM f r).map (.cons (.str k.toStr) v')

/-- keys, as strings, pairwise distinct and none of them in `seen` -/
def KVs.distinctFrom : KVs → List String → Bool
  | .nil, _ => true
  | .cons k _ r, seen => !seen.contains k.toStr && KVs.distinctFrom r (k.toStr :: seen)

theorem KVs.append_nil : ∀ a : KVs, a.append .nil = a
  | .nil => rfl
  | .cons k v r => by simp [KVs.append, KVs.append_nil r]

theorem KVs.append_assoc : ∀ a b c : KVs, (a.append b).append c = a.append (b.append c)
  | .nil, _, _ => rfl
  | .cons k v r, b, c => by simp [KVs.append, KVs.append_assoc r b c]

theorem KVs.keys_append : ∀ a b : KVs, (a.append b).keys = a.keys ++ b.keys
  | .nil, _ => rfl
  | .cons k v r, b => by simp [KVs.append, KVs.keys, KVs.keys_append r b]

theorem KVs.upsert_fresh (k : String) (v : Val) : ∀ a : KVs, k ∉ a.keys →
    a.upsert k v = a.append (.cons (.str k) v .nil)
  | .nil, _ => rfl
  | .cons k' v' r, h => by
      simp only [KVs.keys, List.mem_cons, not_or] at h
      have h1 : ¬ k'.toStr = k := fun e => h.1 e.symm
      simp [KVs.upsert, h1, KVs.append, KVs.upsert_fresh k v r h.2]

theorem KVs.lookup_append (k : String) : ∀ a b : KVs,
    (a.append b).lookup k = (a.lookup k).or (b.lookup k)
  | .nil, b => by simp [KVs.append, KVs.lookup]
  | .cons k' v r, b => by
      by_cases h : k'.toStr = k <;> simp [KVs.append, KVs.lookup, h, KVs.lookup_append k r b]

theorem KVs.lookup_none_of_not_mem (k : String) : ∀ a : KVs, k ∉ a.keys → a.lookup k = none
  | .nil, _ => rfl
  | .cons k' v r, h => by
      simp only [KVs.keys, List.mem_cons, not_or] at h
      have h1 : ¬ k'.toStr = k := fun e => h.1 e.symm
      simp [KVs.lookup, h1, KVs.lookup_none_of_not_mem k r h.2]

/-- with non-colliding keys, `canonKVs` canonicalises each value and appends: nothing merges -/
theorem canonKVs_distinct (dflt : DType) : ∀ (kvs acc : KVs) (seen : List String),
    kvs.distinctFrom seen = true → (∀ s ∈ acc.keys, s ∈ seen) →
    canonKVs dflt kvs acc = (kvs.mapM (canon dflt)).map (acc.append ·)
  | .nil, acc, seen, _, _ => by simp [canonKVs, KVs.mapM, KVs.append_nil]
  | .cons k v r, acc, seen, hd, hs => by
      simp only [KVs.distinctFrom, Bool.and_eq_true, Bool.not_eq_true', List.contains_eq_mem,
        decide_eq_false_iff_not] at hd
      have hfresh : k.toStr ∉ acc.keys := fun hm => hd.1 (hs _ hm)
      simp only [canonKVs, KVs.mapM]
      cases hv : canon dflt v with
      | none => simp
      | some v' =>
          simp only [Option.bind_some]
          rw [KVs.upsert_fresh _ _ _ hfresh]
          rw [canonKVs_distinct dflt r (acc.append (.cons (.str k.toStr) v' .nil)) (k.toStr :: seen) hd.2]
          · cases KVs.mapM (canon dflt) r <;> simp [KVs.append_assoc, KVs.append]
          · intro s hm
            rw [KVs.keys_append] at hm
            simp only [KVs.keys, List.mem_append, List.mem_cons, List.not_mem_nil, or_false] at hm
            rcases hm with hm | hm
            · exact List.mem_cons_of_mem _ (hs _ hm)
            · exact hm ▸ List.mem_cons_self

theorem KVs.nil_append (a : KVs) : KVs.nil.append a = a := rfl

theorem KVs.mapM_keys (f : Val → Option Val) : ∀ (kvs d : KVs), kvs.mapM f = some d → d.keys = kvs.keys
  | .nil, d, h => by simp [KVs.mapM] at h; subst h; rfl
  | .cons k v r, d, h => by
      simp only [KVs.mapM] at h
      cases hv : f v with
      | none => simp [hv] at h
      | some v' =>
          cases hr : KVs.mapM f r with
          | none => simp [hv, hr] at h
          | some r' =>
              simp [hv, hr] at h
              subst h
              simp [KVs.keys, KVs.mapM_keys f r r' hr]

theorem KVs.mapM_lookup (f : Val → Option Val) : ∀ (kvs d : KVs) (k : String), kvs.mapM f = some d →
    d.lookup k = (kvs.lookup k).bind f
  | .nil, d, k, h => by simp [KVs.mapM] at h; subst h; rfl
  | .cons k' v r, d, k, h => by
      simp only [KVs.mapM] at h
      cases hv : f v with
      | none => simp [hv] at h
      | some v' =>
          cases hr : KVs.mapM f r with
          | none => simp [hv, hr] at h
          | some r' =>
              simp [hv, hr] at h
              subst h
              by_cases hk : k'.toStr = k
              · simp [KVs.lookup, hk, hv]
              · simp [KVs.lookup, hk, KVs.mapM_lookup f r r' k hr]

/-! ## Plain values come back unchanged -/

mutual
theorem canon_plain (dflt : DType) : ∀ v, Plain v = true → canon dflt v = some v
  | .none, _ => rfl
  | .bool _, _ => rfl
  | .int _, _ => rfl
  | .float _, _ => rfl
  | .str _, _ => rfl
  | .list xs, h => by
      simp only [Plain] at h
      simp [canon, canonVals_plain dflt xs h]
  | .tuple _, h => by simp [Plain] at h
  | .dict kvs, h => by
      simp only [Plain, Bool.and_eq_true, Bool.not_eq_true'] at h
      have hd := plainKVs_distinct kvs [] h.1
      have hm := mapM_plain dflt kvs [] h.1
      simp only [canon]
      rw [canonKVs_distinct dflt kvs .nil [] hd (by simp [KVs.keys]), hm]
      simp [KVs.nil_append, objectHook, h.2]
  | .tensor dt nn data, h => by
      simp only [Plain, Bool.and_eq_true, Bool.or_eq_true, Bool.not_eq_true'] at h
      have h1 : (nn && !dt.isFloat) = false := by
        rcases h.1 with h1 | h1 <;> simp [h1]
      simp [canon, h1, canon_plain dflt data h.2]
  | .param _ _ _ _, h => by simp [Plain] at h
theorem canonVals_plain (dflt : DType) : ∀ xs, PlainVals xs = true → canonVals dflt xs = some xs
  | .nil, _ => rfl
  | .cons v r, h => by
      simp only [PlainVals, Bool.and_eq_true] at h
      simp [canonVals, canon_plain dflt v h.1, canonVals_plain dflt r h.2]
theorem mapM_plain (dflt : DType) : ∀ kvs seen, PlainKVs kvs seen = true →
    kvs.mapM (canon dflt) = some kvs
  | .nil, _, _ => rfl
  | .cons (.str s) v r, seen, h => by
      simp only [PlainKVs, Bool.and_eq_true] at h
      simp [KVs.mapM, canon_plain dflt v h.1.2, mapM_plain dflt r (s :: seen) h.2, Key.toStr]
  | .cons (.int _) _ _, _, h => by simp [PlainKVs] at h
theorem plainKVs_distinct : ∀ kvs seen, PlainKVs kvs seen = true → kvs.distinctFrom seen = true
  | .nil, _, _ => rfl
  | .cons (.str s) v r, seen, h => by
      simp only [PlainKVs, Bool.and_eq_true] at h
      simp only [KVs.distinctFrom, Key.toStr, Bool.and_eq_true]
      exact ⟨h.1.1, plainKVs_distinct r (s :: seen) h.2⟩
  | .cons (.int _) _ _, _, h => by simp [PlainKVs] at h
end

/-! ## integer keys through JSON and back -/

/-- all keys are integers -/
def KVs.allInt : KVs → Bool
  | .nil => true
  | .cons (.int _) _ r => KVs.allInt r
  | .cons (.str _) _ _ => false

/-- the keys as JSON writes them, values untouched -/
def KVs.strKeys : KVs → KVs
  | .nil => .nil
  | .cons k v r => .cons (.str k.toStr) v (KVs.strKeys r)

theorem KVs.intKeys_strKeys : ∀ d : KVs, d.allInt = true → d.strKeys.intKeys = d
  | .nil, _ => rfl
  | .cons (.int n) v r, h => by
      simp only [KVs.allInt] at h
      simp [KVs.strKeys, KVs.intKeys, Key.toStr, Int.toInt?_repr, KVs.intKeys_strKeys r h]
  | .cons (.str _) _ _, h => by simp [KVs.allInt] at h

theorem KVs.lookupKey_int_strKeys (i : Int) : ∀ d : KVs, d.strKeys.lookupKey (.int i) = none
  | .nil => rfl
  | .cons k v r => by simp [KVs.strKeys, KVs.lookupKey, KVs.lookupKey_int_strKeys i r]

theorem KVs.mapM_strKeys (f : Val → Option Val) : ∀ (kvs d : KVs), kvs.mapM f = some d →
    ∃ d0 : KVs, d = d0.strKeys ∧ d0.allInt = kvs.allInt ∧
      (∀ k, d0.lookupKey k = none ↔ kvs.lookupKey k = none) ∧
      (∀ k v, kvs.lookupKey k = some v → ∃ v', f v = some v' ∧ d0.lookupKey k = some v')
  | .nil, d, h => by
      simp [KVs.mapM] at h; subst h
      exact ⟨.nil, rfl, rfl, by simp [KVs.lookupKey], by simp [KVs.lookupKey]⟩
  | .cons k v r, d, h => by
      simp only [KVs.mapM] at h
      cases hv : f v with
      | none => simp [hv] at h
      | some v' =>
          cases hr : KVs.mapM f r with
          | none => simp [hv, hr] at h
          | some r' =>
              simp [hv, hr] at h
              subst h
              obtain ⟨d0, hd0, hall, hnone, hsome⟩ := KVs.mapM_strKeys f r r' hr
              refine ⟨.cons k v' d0, by simp [KVs.strKeys, hd0], ?_, ?_, ?_⟩
              · cases k <;> simp [KVs.allInt, hall]
              · intro k2
                by_cases hk : k = k2 <;> simp [KVs.lookupKey, hk, hnone]
              · intro k2 v2 hl
                by_cases hk : k = k2
                · simp [KVs.lookupKey, hk] at hl ⊢
                  subst hl; exact hv
                · simp [KVs.lookupKey, hk] at hl ⊢
                  exact hsome k2 v2 hl

/-! ## state tables -/

theorem lookup_kvsOf (st : Attrs) (k : String) (p : KeyE → Bool) :
    ∀ (l : List KeyE) (w : KeyE), findKey k l = some w → p w = true →
      (kvsOf st (l.filter p)).lookup k = some (st w.attr) := by
  intro l
  induction l with
  | nil => intro w h; simp [findKey] at h
  | cons e r ih =>
      intro w h hp
      by_cases he : e.key = k
      · simp [findKey, he] at h
        subst h
        simp [List.filter, hp, kvsOf, KVs.lookup, Key.toStr, he]
      · simp [findKey, he] at h
        by_cases hpe : p e = true
        · simp [List.filter, hpe, kvsOf, KVs.lookup, Key.toStr, he, ih w h hp]
        · simp [List.filter, hpe, ih w h hp]

/-- loading entries whose keys are all present, into pairwise distinct attributes: every entry's
attribute receives the value under its key, every other attribute is untouched -/
theorem loadEntries_spec (d : KVs) : ∀ (l : List KeyE) (st0 : Attrs),
    (∀ e ∈ l, ∃ v, d.lookup e.key = some v) → distinctStr (l.map (·.attr)) = true →
    ∃ st', loadEntries d l st0 = some st' ∧
      (∀ e ∈ l, some (st' e.attr) = d.lookup e.key) ∧
      (∀ a, (∀ e ∈ l, e.attr ≠ a) → st' a = st0 a) := by
  intro l
  induction l with
  | nil => intro st0 _ _; exact ⟨st0, rfl, by simp, by simp⟩
  | cons e r ih =>
      intro st0 hall hdist
      obtain ⟨v, hv⟩ := hall e List.mem_cons_self
      simp only [List.map, distinctStr, Bool.and_eq_true, Bool.not_eq_true', List.contains_eq_mem,
        decide_eq_false_iff_not] at hdist
      obtain ⟨st', hl, hin, hout⟩ := ih (fun a => if a = e.attr then v else st0 a)
        (fun e' he' => hall e' (List.mem_cons_of_mem _ he')) hdist.2
      refine ⟨st', by simp [loadEntries, hv, hl], ?_, ?_⟩
      · intro e' he'
        rcases List.mem_cons.mp he' with h | h
        · subst h
          have : ∀ e'' ∈ r, e''.attr ≠ e'.attr := by
            intro e'' hm heq
            exact hdist.1 (List.mem_map.mpr ⟨e'', hm, heq⟩)
          rw [hout _ this, hv]; simp
        · exact hin e' h
      · intro a ha
        have h1 : e.attr ≠ a := ha e List.mem_cons_self
        rw [hout a (fun e' he' => ha e' (List.mem_cons_of_mem _ he'))]
        simp [Ne.symm h1]

/-! ## run loop -/

theorem runFrom_append {S : Type} (step : Nat → S → S) : ∀ (k n e : Nat) (s : S),
    runFrom step e (k + n) s = runFrom step e k s ++ runFrom step (e + k) n (stateAfter step e k s) := by
  intro k
  induction k with
  | zero => intro n e s; simp [runFrom, stateAfter]
  | succ k ih =>
      intro n e s
      have : k + 1 + n = (k + n) + 1 := by omega
      rw [this]
      simp only [runFrom, stateAfter, List.cons_append]
      rw [ih n (e + 1) (step e s)]
      have h2 : e + 1 + k = e + (k + 1) := by omega
      rw [h2]

theorem length_runFrom {S : Type} (step : Nat → S → S) : ∀ (n e : Nat) (s : S),
    (runFrom step e n s).length = n := by
  intro n
  induction n with
  | zero => intro e s; rfl
  | succ n ih => intro e s; simp [runFrom, ih]

end TT.C17
