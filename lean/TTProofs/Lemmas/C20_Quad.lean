import TTModel.C20_GMRF
import Mathlib.Algebra.BigOperators.Group.List.Basic
import Mathlib.Algebra.BigOperators.Ring.Finset
import Mathlib.Algebra.BigOperators.Intervals
import Mathlib.Data.List.GetD
import Mathlib.Tactic.Ring
import Mathlib.Tactic.Linarith
/-!
# C20 — the tridiagonal matrix published by `precision_matrix` and the sum of squared differences

Everything here is over an arbitrary commutative ring.
-/
namespace TT.C20
open Finset

variable {R : Type} [CommRing R]

/-- entry of the tridiagonal matrix built from the precisions `a k` of the first differences
(`precEntry` with `a k = off.getD k 0`) -/
def triEntry (a : ℕ → R) (i j : ℕ) : R :=
  if i = j then a i + (if 1 ≤ i then a (i - 1) else 0)
  else if j = i + 1 then -(a i)
  else if i = j + 1 then -(a j)
  else 0

theorem triEntry_far_right (a : ℕ → R) {i j : ℕ} (h : i + 1 < j) : triEntry a i j = 0 := by
  unfold triEntry
  rw [if_neg (by omega), if_neg (by omega), if_neg (by omega)]

theorem triEntry_far_left (a : ℕ → R) {i j : ℕ} (h : j + 1 < i) : triEntry a i j = 0 := by
  unfold triEntry
  rw [if_neg (by omega), if_neg (by omega), if_neg (by omega)]

/-- the quadratic form over the leading `(n+1) × (n+1)` block: sum of weighted squared first differences
plus the dangling half edge `a n · x n²` -/
theorem tri_quadratic (a x : ℕ → R) : ∀ n : ℕ,
    ∑ i ∈ range (n + 1), ∑ j ∈ range (n + 1), x i * triEntry a i j * x j
      = ∑ k ∈ range n, a k * (x k - x (k + 1)) ^ 2 + a n * x n ^ 2
  | 0 => by simp [triEntry]; ring
  | n + 1 => by
      have ih := tri_quadratic a x n
      -- split off the last row and the last column
      have hsplit : ∑ i ∈ range (n + 2), ∑ j ∈ range (n + 2), x i * triEntry a i j * x j
          = ∑ i ∈ range (n + 1), ∑ j ∈ range (n + 1), x i * triEntry a i j * x j
            + ∑ i ∈ range (n + 1), x i * triEntry a i (n + 1) * x (n + 1)
            + ∑ j ∈ range (n + 1), x (n + 1) * triEntry a (n + 1) j * x j
            + x (n + 1) * triEntry a (n + 1) (n + 1) * x (n + 1) := by
        rw [sum_range_succ (fun i => ∑ j ∈ range (n + 2), x i * triEntry a i j * x j) (n + 1)]
        rw [sum_range_succ (fun j => x (n + 1) * triEntry a (n + 1) j * x j) (n + 1)]
        have : ∀ i, ∑ j ∈ range (n + 2), x i * triEntry a i j * x j
            = ∑ j ∈ range (n + 1), x i * triEntry a i j * x j + x i * triEntry a i (n + 1) * x (n + 1) :=
          fun i => sum_range_succ _ _
        simp only [this, sum_add_distrib]
        ring
      have hcol : ∑ i ∈ range (n + 1), x i * triEntry a i (n + 1) * x (n + 1)
          = -(a n) * x n * x (n + 1) := by
        rw [sum_range_succ]
        have hz : ∑ i ∈ range n, x i * triEntry a i (n + 1) * x (n + 1) = 0 := by
          apply sum_eq_zero
          intro i hi
          rw [triEntry_far_right a (by have := mem_range.mp hi; omega)]
          ring
        rw [hz, zero_add]
        unfold triEntry
        rw [if_neg (by omega), if_pos rfl]
        ring
      have hrow : ∑ j ∈ range (n + 1), x (n + 1) * triEntry a (n + 1) j * x j
          = -(a n) * x n * x (n + 1) := by
        rw [sum_range_succ]
        have hz : ∑ j ∈ range n, x (n + 1) * triEntry a (n + 1) j * x j = 0 := by
          apply sum_eq_zero
          intro j hj
          rw [triEntry_far_left a (by have := mem_range.mp hj; omega)]
          ring
        rw [hz, zero_add]
        unfold triEntry
        rw [if_neg (by omega), if_neg (by omega), if_pos rfl]
        ring
      have hcorner : triEntry a (n + 1) (n + 1) = a (n + 1) + a n := by
        unfold triEntry
        rw [if_pos rfl, if_pos (by omega)]
        simp
      rw [show n + 1 + 1 = n + 2 from rfl, hsplit, ih, hcol, hrow, hcorner, sum_range_succ]
      ring

/-! ### from the list model to the `Finset` statement -/

theorem list_sum_range (f : ℕ → R) : ∀ n, ((List.range n).map f).sum = ∑ i ∈ range n, f i
  | 0 => by simp
  | n + 1 => by
      rw [List.range_succ, List.map_append, List.sum_append, list_sum_range f n, sum_range_succ]
      simp

theorem list_eq_map_getD (x : List R) : x = (List.range x.length).map (fun i => x.getD i 0) := by
  apply List.ext_getElem
  · simp
  · intro i h1 h2
    simp [List.getElem?_eq_getElem h1]

theorem precEntry_eq (off : List R) (i j : ℕ) :
    precEntry off i j = triEntry (fun k => off.getD k 0) i j := rfl

theorem quadForm_eq_sum (off x : List R) (hx : x.length = off.length + 1) :
    quadForm (precisionMatrix off) x
      = ∑ i ∈ range (off.length + 1), ∑ j ∈ range (off.length + 1),
          x.getD i 0 * triEntry (fun k => off.getD k 0) i j * x.getD j 0 := by
  unfold quadForm precisionMatrix
  have hxe := list_eq_map_getD x
  rw [hx] at hxe
  conv_lhs => rw [hxe]
  simp only [List.zipWith_map_left, List.zipWith_map_right, List.zipWith_self, list_sum_range]
  rfl

theorem diffSq_sum (off x : List R) : x.length = off.length + 1 →
    (List.zipWith (fun a d => a * d) off (diffSq x)).sum
      = ∑ k ∈ range off.length, off.getD k 0 * (x.getD k 0 - x.getD (k + 1) 0) ^ 2 := by
  induction off generalizing x with
  | nil => intro _; simp
  | cons a off ih =>
    intro hx
    match x, hx with
    | x0 :: x1 :: rest, hx =>
      have hlen : (x1 :: rest).length = off.length + 1 := by simpa using hx
      rw [List.length_cons, sum_range_succ', diffSq, List.zipWith_cons_cons, List.sum_cons, ih _ hlen]
      simp only [List.getD_cons_succ, List.getD_cons_zero]
      ring

/-- **list form**: `xᵀ Q x = Σ_k off_k (x_k − x_{k+1})²` for the matrix published from `off` -/
theorem quadForm_precisionMatrix (off x : List R) (hx : x.length = off.length + 1) :
    quadForm (precisionMatrix off) x = (List.zipWith (fun a d => a * d) off (diffSq x)).sum := by
  rw [quadForm_eq_sum off x hx, tri_quadratic, diffSq_sum off x hx]
  have : off.getD off.length 0 = (0 : R) := List.getD_eq_default _ _ (le_refl _)
  rw [this]; ring

end TT.C20
