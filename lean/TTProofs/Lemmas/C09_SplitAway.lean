import TTProofs.Lemmas.C09_SplitIdx
/-! C09: per-epoch contributions away from the cut are unchanged by a split. -/
open TT TT.C09
namespace TT.C09

theorem nCross_congr (t t' : Nat → ℝ) (a b : Nat) (xs ys : List ℝ) (h : t' a = t b) :
    nCross t' a xs ys = nCross t b xs ys := by
  unfold nCross; rw [h]

theorem nAt_congr (t t' : Nat → ℝ) (a b : Nat) (ys : List ℝ) (h : t' (a + 1) = t (b + 1)) :
    nAt t' a ys = nAt t b ys := by
  unfold nAt; rw [h]

namespace SplitAt
variable {r r' : Rates ℝ} {t t' : Nat → ℝ} {m i : Nat} {s : ℝ}

/-- epochs before the cut contribute what they did -/
theorem epochTerm_lo (h : SplitAt r r' t t' m i s) {xs ys : List ℝ} (hev : Events t m xs ys) (k : Nat) (hk : k < i) :
    epochTerm r' t' (m + 1) xs ys k = epochTerm r t m xs ys k := by
  have hi := h.hi
  unfold epochTerm
  rw [nCross_congr t t' k k xs ys (h.t_lo k (by omega)), nCross_congr t t' (k + 1) (k + 1) xs ys (h.t_lo (k + 1) (by omega)),
    nAt_congr t t' k k ys (h.t_lo (k + 1) (by omega)), h.A_lo k (by omega), h.B_lo k hk, h.t_lo k (by omega),
    h.t_lo (k + 1) (by omega), h.lam_lo k (by omega), h.psi_lo k (by omega), h.rho_lo k hk]
  have fx : (xs.filter fun x => idxX t' (m + 1) x = k) = xs.filter fun x => idxX t m x = k :=
    filter_congr_mem xs _ _ fun x hx => h.fx_lo x (hev.1 x hx).1 (hev.1 x hx).2 k hk
  have fy : (ys.filter fun y => idxY t' (m + 1) y = k ∧ isRhoTip r' t' (m + 1) y = false)
      = ys.filter fun y => idxY t m y = k ∧ isRhoTip r t m y = false :=
    filter_congr_mem ys _ _ fun y hy => by
      rw [h.fy_lo y (hev.2 y hy).1 (hev.2 y hy).2 k hk, h.rho_same y (hev.2 y hy).1 (hev.2 y hy).2]
  rw [fx, fy]
  have c1 : k + 1 < m + 1 := by omega
  have c2 : k + 1 < m := by omega
  simp only [c1, c2, ↓reduceIte]

/-- epochs after the cut contribute what they did, one index later -/
theorem epochTerm_hi (h : SplitAt r r' t t' m i s) {xs ys : List ℝ} (hev : Events t m xs ys) (k : Nat) (hk : i < k)
    (hkm : k < m) : epochTerm r' t' (m + 1) xs ys (k + 1) = epochTerm r t m xs ys k := by
  unfold epochTerm
  rw [nCross_congr t t' (k + 1) k xs ys (h.t_hi k (by omega)),
    nCross_congr t t' (k + 1 + 1) (k + 1) xs ys (h.t_hi (k + 1) (by omega)),
    nAt_congr t t' (k + 1) k ys (h.t_hi (k + 1) (by omega)), h.A_hi k (by omega), h.B_hi k (by omega),
    h.t_hi k (by omega), h.t_hi (k + 1) (by omega), h.lam_hi k (by omega), h.psi_hi k (by omega), h.rho_hi k (by omega)]
  have fx : (xs.filter fun x => idxX t' (m + 1) x = k + 1) = xs.filter fun x => idxX t m x = k :=
    filter_congr_mem xs _ _ fun x hx => h.fx_hi x (hev.1 x hx).1 (hev.1 x hx).2 k hk hkm
  have fy : (ys.filter fun y => idxY t' (m + 1) y = k + 1 ∧ isRhoTip r' t' (m + 1) y = false)
      = ys.filter fun y => idxY t m y = k ∧ isRhoTip r t m y = false :=
    filter_congr_mem ys _ _ fun y hy => by
      rw [h.fy_hi y (hev.2 y hy).1 (hev.2 y hy).2 k hk hkm, h.rho_same y (hev.2 y hy).1 (hev.2 y hy).2]
  rw [fx, fy]
  have c0 : ¬ k + 1 = 0 := by omega
  have c0' : ¬ k = 0 := by omega
  have c : (k + 1 + 1 < m + 1) ↔ (k + 1 < m) := by omega
  simp only [c0, c0', ↓reduceIte, c]

end SplitAt
end TT.C09
