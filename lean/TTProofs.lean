import TTProofs.Props.C18
