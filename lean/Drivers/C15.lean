import TTModel.Proto
import TTModel.Scalar
import TTModel.C15_Expr
import TTModel.C15_MCMC
import TTModel.C16_Leapfrog
import TTModel.C15_Block
import TTModel.C20_GMRF
import TTGen.C15_Tuning
/-!
C15 driver (Float; floats as 16-hex-digit bit patterns).

  tune <kind> <scale> <acc> <target> <count>      -> new scale   (generated getter/rm/setter)
  get  <kind> <scale>                              -> adaptable parameter
  set  <kind> <value>                              -> scale
  dirlp <n> conc.. x..                             -> Dirichlet(conc).log_prob(x)
  prec <scaler> <u1> <u2>                          -> precision multiplier of the block update, uniforms consumed
  step <machine> <tape> <target table>             -> one `TT.C15.mcmcStep`

`step` payload, all space separated:
  P size_1..size_P  values(flattened)
  logJoint epoch acceptTotal
  nops, then per operator:
     kind pidxLen pidx.. target disabled windowLen scale adaptCount accept reject wlen w..
     and for kind hmc:  steps diag|dense n IM.. G(n*n).. b.. lo hi
                        (joint gradient -(G q + b); the stub target is nan where q_0 < lo or q_0 > hi)
                        nad, then per adaptor:  adaptive target start stop(-1 = inf) useRate calls accepted
                                              | dual mu gamma kappa t0 delta start stop calls counter x xbar sbar
                                              | mass
     and for kind block: d suff(d).. counts(d).. mode_forward(d).. mode_backward(d)..
                        (own parameters = [field (d), precision (1)]; the modes are the mode finder's outputs)
  nr rands..  ni ints..  nd (len v..)*nd  nn (len v..)*nn
  tol K, then K entries: values(flattened state) fin|bad value  (target: nearest recorded state within tol)
reply:
  ok opIdx | proposed(flat) | hr (fin x | inf) | lp (none | bad | fin x) | accProb accepted u(none|x)
     | stateAfter(flat) | logJointAfter | logged (bad | fin x) | scaleAfter adaptCount accept reject wlen w..
     | consumed nr ni nd nn | epoch acceptTotal logSample tuneSample | adaptor states (adaptive calls accepted ; dual calls counter x xbar sbar ; mass)
  none                                                 (tape dry / operator index out of range)
-/
open TT TT.C15 TT.Proto TTGen.C15_Tuning

abbrev P (β : Type) := StateT (List String) Option β

def word : P String := fun ws => match ws with | [] => none | w :: r => some (w, r)
def nat : P Nat := do let w ← word; match w.toNat? with | some k => pure k | none => failure
def flt : P Float := do let w ← word; match parseFloatBits w with | some x => pure x | none => failure
def many {β} (n : Nat) (p : P β) : P (List β) := do
  let mut xs : Array β := #[]
  for _ in [0:n] do xs := xs.push (← p)
  pure xs.toList
def done : P Unit := fun ws => match ws with | [] => some ((), []) | _ => none

def parseKind : String → Option Kind
  | "scaler" => some .scaler | "window" => some .window | "dirichlet" => some .dirichlet
  | "hmc" => some .hmc | "block" => some .block | _ => none
def kind : P Kind := do let w ← word; match parseKind w with | some k => pure k | none => failure

/-! lgamma for the Dirichlet log-density (Lanczos g = 7, reflection below 1/2) -/
def lanczos : List Float :=
  [0.99999999999980993, 676.5203681218851, -1259.1392167224028, 771.32342877765313,
   -176.61502916214059, 12.507343278686905, -0.13857109526572012, 9.9843695780195716e-6,
   1.5056327351493116e-7]

partial def lgammaF (x : Float) : Float :=
  let pi := 3.141592653589793
  if x < 0.5 then
    Float.log (pi / Float.abs (Float.sin (pi * x))) - lgammaF (1.0 - x)
  else
    let x := x - 1.0
    let t := x + 7.5
    let a := (lanczos.drop 1).zipIdx.foldl (fun acc (c, i) => acc + c / (x + (Float.ofNat i) + 1.0))
      (lanczos.headD 0.0)
    0.5 * Float.log (2.0 * pi) + (x + 0.5) * Float.log t - t + Float.log a

/-- `torch.distributions.Dirichlet(conc).log_prob(x)` -/
def dirLogProbF (conc x : List Float) : Float :=
  let s1 := (conc.zip x).foldl (fun acc (c, v) => acc + (if c - 1.0 == 0.0 then 0.0 else (c - 1.0) * Float.log v)) 0.0
  s1 + lgammaF (conc.foldl (· + ·) 0.0) - conc.foldl (fun acc c => acc + lgammaF c) 0.0

structure HmcCfg where
  steps : Nat
  dense : Bool
  n : Nat
  im : Array Float
  G : Array Float
  b : Array Float
  lo : Float
  hi : Float

structure BlockCfg where
  d : Nat
  w : Array Float
  c : Array Float
  mf : Array Float
  mb : Array Float

/-- `gmrf.precision_matrix()` of the plain GMRF (C20's published matrix) as an array matrix -/
def gmrfQ (tau : Float) (d : Nat) : Mat Float :=
  ((TT.C20.precisionMatrix (TT.C20.offDiag tau none d)).map List.toArray).toArray

/-- the block proposal on own = [field, [precision]] -/
def blockRun (c : BlockCfg) (op : Op Float) (own : List (List Float)) (tape : Tape Float) :
    List (List Float) × HR Float × Tape Float :=
  match own, tape.normals with
  | [gamma, [tau]], z :: ns =>
    let pm := precisionMultiplier op.scale tape.rands
    let tau' := pm.1 * tau
    let r := blockStep 0.5 1e-7 (gmrfQ tau c.d) (gmrfQ tau' c.d) c.w c.c gamma.toArray c.mf c.mb z.toArray
    ([r.1.toList, [tau']], r.2, { tape with rands := tape.rands.drop pm.2, normals := ns })
  | _, _ => (own, .inf, tape)

def vecOf (a : Array Float) (n : Nat) : TT.C16.Vec Float n := fun i => a.getD i.val 0.0

def hmcRun (c : HmcCfg) (eps : Float) (q : List Float) (normals : List (List Float)) :
    List Float × HR Float × Nat :=
  let n := c.n
  if q.length ≠ n then (q, .inf, 0) else
  match normals with
  | [] => (q, .inf, 0)
  | _ =>
    let im : TT.C16.IMass Float n :=
      if c.dense then .dense fun i j => c.im.getD (i.val * n + j.val) 0.0
      else .diag fun i => c.im.getD i.val 0.0
    let g : TT.C16.Vec Float n → TT.C16.Vec Float n := fun x i =>
      -((sumFin fun j : Fin n => c.G.getD (i.val * n + j.val) 0.0 * x j) + c.b.getD i.val 0.0)
    let ms := (normals.take 10).map fun m => vecOf m.toArray n
    let bad : TT.C16.Vec Float n → Bool := fun x =>
      -- `torch.isnan(U)` / `torch.isnan(dU).any()`: the stub's nan band, or a position that overflowed
      let gx := g x
      let u := sumFin fun i : Fin n => x i * gx i
      let band := match (List.finRange n).head? with
        | some i0 => x i0 < c.lo || x i0 > c.hi
        | none => false
      band || u.isNaN || (List.finRange n).any fun i => (x i).isNaN || (gx i).isNaN
    let qv := vecOf q.toArray n
    -- draws consumed: the failed trials and the first one that does not raise
    let failed := (ms.takeWhile fun m => TT.C16.trialRaises bad g (eps / 2.0) eps im c.steps qv m).length
    match TT.C16.hmcStep bad g (eps / 2.0) eps 0.5 im c.steps qv 10 ms with
    | .ok q' hr => ((List.finRange n).map q', .fin hr, failed + 1)
    | .inf q' => ((List.finRange n).map q', .inf, failed)

def optNat : P (Option Nat) := do
  let w ← word
  if w == "-1" then pure none else match w.toNat? with | some k => pure (some k) | none => failure

def parseAdaptor : P (Adaptor Float) := do
  let w ← word
  match w with
  | "adaptive" => do
      let t ← flt; let st ← nat; let sp ← optNat; let ur ← nat; let c ← nat; let a ← nat
      pure (.adaptive t st sp (ur != 0) c a)
  | "dual" => do
      let mu ← flt; let g ← flt; let k ← flt; let t0 ← flt; let d ← flt
      let st ← nat; let sp ← optNat; let c ← nat; let cn ← nat
      let x ← flt; let xb ← flt; let sb ← flt
      pure (.dual mu g k t0 d st sp c cn x xb sb)
  | "mass" => pure .massMatrix
  | _ => failure

def showAdaptor : Adaptor Float → String
  | .adaptive _ _ _ _ c a => s!"adaptive {c} {a}"
  | .dual _ _ _ _ _ _ _ c cn x xb sb => s!"dual {c} {cn} {floatBits x} {floatBits xb} {floatBits sb}"
  | .massMatrix => "mass"

def parseOp (i : Nat) : P (Op Float × Option HmcCfg × Option BlockCfg) := do
  let k ← kind
  let np ← nat
  let pidx ← many np nat
  let target ← flt
  let dis ← nat
  let wl ← nat
  let scale ← flt
  let ac ← nat
  let acc ← nat
  let rej ← nat
  let wn ← nat
  let w ← many wn nat
  let op : Op Float :=
    { id := i, kind := k, pidx := pidx, target := target, disabled := dis != 0,
      windowLen := wl, scale := scale, adaptCount := ac, accept := acc, reject := rej, window := w }
  if k == .hmc then
    let steps ← nat
    let kd ← word
    let n ← nat
    let dense := kd == "dense"
    let im ← many (if dense then n * n else n) flt
    let G ← many (n * n) flt
    let b ← many n flt
    let lo ← flt
    let hi ← flt
    let nad ← nat
    let ads ← many nad parseAdaptor
    pure ({ op with adaptors := ads }, some ⟨steps, dense, n, im.toArray, G.toArray, b.toArray, lo, hi⟩, none)
  else if k == .block then
    let d ← nat
    let w ← many d flt
    let c ← many d flt
    let mf ← many d flt
    let mb ← many d flt
    pure (op, none, some ⟨d, w.toArray, c.toArray, mf.toArray, mb.toArray⟩)
  else pure (op, none, none)

def unflat (sizes : List Nat) (v : List Float) : Params Float := splitBy sizes v

def parseLens : P (List Float) := do let n ← nat; many n flt

def showF (x : Float) : String := floatBits x
def showFlat (st : Params Float) : String := " ".intercalate (st.flatten.map showF)
def showHR : HR Float → String | .fin x => s!"fin {showF x}" | .inf => "inf"
def showLP : LogP Float → String | .fin x => s!"fin {showF x}" | .bad => "bad"

def dist (a b : List Float) : Float :=
  (a.zip b).foldl (fun acc (x, y) => let d := Float.abs (x - y); if d > acc then d else acc) 0.0

instance : Inhabited (Op Float) :=
  ⟨{ id := 0, kind := .window, pidx := [], target := 0.0, disabled := true, windowLen := 0,
     scale := 0.0, adaptCount := 0, accept := 0, reject := 0, window := [] }⟩

def runStep : P String := do
  let np ← nat
  let sizes ← many np nat
  let vals ← many (sizes.foldl (· + ·) 0) flt
  let state := unflat sizes vals
  let lj ← flt
  let epoch ← nat
  let accT ← nat
  let nops ← nat
  let mut ops : Array (Op Float) := #[]
  let mut cfgs : Array (Option HmcCfg) := #[]
  let mut bcfgs : Array (Option BlockCfg) := #[]
  for i in [0:nops] do
    let (o, c, bc) ← parseOp i
    ops := ops.push o
    cfgs := cfgs.push c
    bcfgs := bcfgs.push bc
  let nr ← nat
  let rands ← many nr flt
  let ni ← nat
  let ints ← many ni nat
  let nd ← nat
  let dirs ← many nd parseLens
  let nn ← nat
  let normals ← many nn parseLens
  let tabTol ← flt
  let k ← nat
  let mut table : Array (List Float × LogP Float) := #[]
  for _ in [0:k] do
    let key ← many vals.length flt
    let tag ← word
    let v ← flt
    table := table.push (key, if tag == "fin" then .fin v else .bad)
  done
  let nan : Float := 0.0 / 0.0
  let target : Params Float → LogP Float := fun st =>
    let f := st.flatten
    let best := table.foldl (fun (acc : Option (Float × LogP Float)) e =>
      let d := dist e.1 f
      match acc with
      | none => some (d, e.2)
      | some (bd, bv) => if d < bd then some (d, e.2) else some (bd, bv)) none
    match best with
    | some (d, v) =>
      let sc := f.foldl (fun m x => if Float.abs x > m then Float.abs x else m) 1.0
      if d ≤ tabTol * sc then v else .fin nan     -- no recorded evaluation near this state
    | none => .fin nan
  let env : Env Float :=
    { target := target, dirLogProb := dirLogProbF,
      hmcProp := fun op q normals =>
        match cfgs.getD op.id none with
        | some c => hmcRun c op.scale q normals
        | none => (q, .inf, 0),
      blockProp := fun op own tape =>
        match bcfgs.getD op.id none with
        | some c => blockRun c op own tape
        | none => (own, .inf, tape),
      get := genGet, set := genSet, rm := genRm, asNew := genAsNew, daStep := genDaStep,
      daSet := genDaSet }
  let m : Machine Float :=
    { state := state, logJoint := lj, ops := ops.toList, epoch := epoch, acceptTotal := accT }
  let tape : Tape Float := ⟨rands, ints, dirs, normals⟩
  match mcmcStep env 0.5 m tape with
  | none => pure "none"
  | some (m', tape', r) =>
    let op' := m'.ops.getD r.opIdx (ops.getD 0 default)
    let lp := match r.lpProposed with | none => "none" | some v => showLP v
    let u := match r.uUsed with | none => "none" | some v => showF v
    let w := " ".intercalate (op'.window.map toString)
    pure (s!"ok {r.opIdx} | {showFlat r.proposed} | {showHR r.hr} | {lp} | {showF r.accProb} " ++
      s!"{if r.accepted then 1 else 0} {u} | {showFlat r.stateAfter} | {showF r.logJointAfter} | " ++
      s!"{showLP r.logged} | {showF r.scaleAfter} {op'.adaptCount} {op'.accept} {op'.reject} " ++
      s!"{op'.window.length} {w} | {rands.length - tape'.rands.length} " ++
      s!"{ints.length - tape'.ints.length} {dirs.length - tape'.dirs.length} " ++
      s!"{normals.length - tape'.normals.length} | {m'.epoch} {m'.acceptTotal} {r.logSample} {r.tuneSample} | " ++
      " ; ".intercalate (op'.adaptors.map showAdaptor))

def handle (line : String) : String :=
  let r : Option String :=
    match splitWords line with
    | ["tune", k, s, a, t, c] => do
        let k ← parseKind k
        let s ← parseFloatBits s
        let a ← parseFloatBits a
        let t ← parseFloatBits t
        let c ← c.toNat?
        pure (showF (genSet k (genRm (genGet k s) a t (Float.ofNat c))))
    | ["get", k, s] => do pure (showF (genGet (← parseKind k) (← parseFloatBits s)))
    | ["set", k, v] => do pure (showF (genSet (← parseKind k) (← parseFloatBits v)))
    | "dirlp" :: n :: rest => do
        let n ← n.toNat?
        let xs ← rest.mapM parseFloatBits
        if xs.length ≠ 2 * n then none else pure (showF (dirLogProbF (xs.take n) (xs.drop n)))
    | ["prec", sc, u1, u2] => do
        let r := precisionMultiplier (← parseFloatBits sc) [← parseFloatBits u1, ← parseFloatBits u2]
        pure s!"{showF r.1} {r.2}"
    | "step" :: rest => runStep.run' rest
    | _ => none
  r.getD "bad-op"

def main : IO Unit := mainLoop handle
