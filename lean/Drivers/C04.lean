import TTModel.Proto
import TTModel.C04_Subst
import TTGen.C04Tables
/-! C04 driver: the substitution-model definitions of `TTModel/C04_Subst.lean` executed at `Rat`
(mode `r`, values `p/q`) and `Float` (mode `f`, 16-hex-digit bit patterns).

  `q <mode> jc69 | hky κ π×4 | gtr r×6 π×4 | gjc n | gsym n m mapping×m k rates×k π×n
            | gnonsym n m mapping×m k rates×k π×n | emp n rates×(n(n-1)/2) π×n | lg | wag
            | mg94 code alpha beta kappa π×n`         → `n <n·n entries of q(), row-major> <norm>`
  `freq <mode> lg|wag`                                 → the generated frequency table
  `masks code`                                         → `n <transitions> <synonymous> <non_synonymous>` (0/1 strings)
  `jcpt t` / `gjcpt n t`                               → closed-form P(t) (Float)
  `symm n π×n Q×n²`                                    → sqrt_pi @ (Q/norm) @ sqrt_pi_inv (Float)
  `recon n t π×n e×n V×n² Vinv×n²`                     → reconstruction (Float)
  `taylor n t π×n Q×n²`                                → independent oracle exp(t·Q/norm): scaling and squaring
                                                          with a Taylor series on flat FloatArrays (Float)
-/
open TT TT.Proto TT.C04

instance : NatCast Float := ⟨Float.ofNat⟩

structure IOS (α : Type) where
  parse : String → Option α
  shw : α → String

def ratIO : IOS Rat := ⟨parseRat, showRat⟩
def floatIO : IOS Float := ⟨parseFloatBits, floatBits⟩

def fnOf {α : Type} [Zero α] (xs : Array α) : Nat → α := fun k => xs.getD k 0
def finFn {α : Type} [Zero α] (xs : Array α) (n : Nat) : Fin n → α := fun i => xs.getD i.val 0
def matOf {α : Type} [Zero α] (xs : Array α) (n : Nat) : Mat n α := fun i j => xs.getD (i.val * n + j.val) 0

/-- tabulate once (a value, so it is shared) / read back: `untab (tab f) = f` entrywise -/
def tab {n : Nat} (f : Mat n Float) : Array (Array Float) := Array.ofFn fun i => Array.ofFn fun j => f i j
def untab {n : Nat} (a : Array (Array Float)) : Mat n Float := fun i j => (a.getD i.val #[]).getD j.val 0.0
def showTab (a : Array (Array Float)) : String :=
  " ".intercalate (a.toList.flatMap fun r => r.toList.map floatBits)

def showMat {α : Type} (io : IOS α) {n : Nat} (M : Mat n α) : List String :=
  (List.finRange n).flatMap fun i => (List.finRange n).map fun j => io.shw (M i j)

/-- take `k` words and parse them -/
def takeVals {α : Type} (io : IOS α) (k : Nat) (ws : List String) : Option (Array α × List String) :=
  if ws.length < k then none else
  match (ws.take k).mapM io.parse with
  | some xs => some (xs.toArray, ws.drop k)
  | none => none

def takeNats (k : Nat) (ws : List String) : Option (Array Nat × List String) :=
  if ws.length < k then none else
  match (ws.take k).mapM String.toNat? with
  | some xs => some (xs.toArray, ws.drop k)
  | none => none

section generic
variable {α : Type} [Add α] [Sub α] [Mul α] [Div α] [Neg α] [Zero α] [One α] [NatCast α]

def replyQ (io : IOS α) {n : Nat} (Q : Mat n α) (π : Fin n → α) : String :=
  " ".intercalate ([toString n] ++ showMat io Q ++ [io.shw (norm Q π)])

def tableVals (fromQ : Int × Nat → α) (fromBits : UInt64 → α) (isRat : Bool)
    (q : Array (Int × Nat)) (b : Array UInt64) : Array α :=
  if isRat then q.map fromQ else b.map fromBits

def handleQ (io : IOS α) (fromQ : Int × Nat → α) (fromBits : UInt64 → α) (isRat : Bool)
    (ws : List String) : Option String :=
  match ws with
  | ["jc69"] => some (replyQ io (jc69Q (α := α)) jc69Freq)
  | "hky" :: rest => do
    let (v, rest) ← takeVals io 5 rest
    if rest ≠ [] then none
    let π : Fin 4 → α := fun i => v.getD (i.val + 1) 0
    pure (replyQ io (hkyQ (v.getD 0 0) π) π)
  | "gtr" :: rest => do
    let (v, rest) ← takeVals io 10 rest
    if rest ≠ [] then none
    let r : Fin 6 → α := fun i => v.getD i.val 0
    let π : Fin 4 → α := fun i => v.getD (i.val + 6) 0
    pure (replyQ io (gtrQ r π) π)
  | ["gjc", n] => do
    let n ← n.toNat?
    pure (replyQ io (generalJC69Q (α := α) n) (generalJC69Freq n))
  | kind :: n :: m :: rest =>
    if kind = "gsym" ∨ kind = "gnonsym" then do
      let n ← n.toNat?
      let m ← m.toNat?
      let (mapping, rest) ← takeNats m rest
      match rest with
      | k :: rest => do
        let k ← k.toNat?
        let (rates, rest) ← takeVals io k rest
        let (pi, rest) ← takeVals io n rest
        if rest ≠ [] then none
        -- an index outside the rate vector raises IndexError in torch: refuse rather than default
        if mapping.any (· ≥ k) then none
        let π := finFn pi n
        let mp : Nat → Nat := fun i => mapping.getD i 0
        if kind = "gsym" then
          if m ≠ n * (n - 1) / 2 then none
          pure (replyQ io (generalSymQ mp (fnOf rates) π) π)
        else
          if m ≠ n * (n - 1) then none
          pure (replyQ io (generalNonSymQ (m / 2) mp (fnOf rates) π) π)
      | [] => none
    else if kind = "emp" then do
      let n ← n.toNat?
      let (rates, rest) ← takeVals io (n * (n - 1) / 2) (m :: rest)
      let (pi, rest) ← takeVals io n rest
      if rest ≠ [] then none
      let π := finFn pi n
      pure (replyQ io (empiricalQ (fnOf rates) π) π)
    else if kind = "mg94" then do
      let code ← n.toNat?
      let table ← TTGen.C04Tables.geneticCodeTables[code]?
      let masks := mg94Masks table TTGen.C04Tables.codonTriplets
      let nn := (codingIndices table).length
      let (abk, rest) ← takeVals io 3 (m :: rest)
      let (pi, rest) ← takeVals io nn rest
      if rest ≠ [] then none
      let π := finFn pi nn
      let mask : Nat → Bool × Bool × Bool := fun k => masks.getD k (false, false, false)
      pure (replyQ io (mg94Q mask (abk.getD 0 0) (abk.getD 1 0) (abk.getD 2 0) π) π)
    else none
  | [name] =>
    if name = "lg" then
      let π := finFn (tableVals fromQ fromBits isRat TTGen.C04Tables.lgFreqQ TTGen.C04Tables.lgFreqBits) TTGen.C04Tables.lgFreqQ.size
      some (replyQ io (empiricalQ (fnOf (tableVals fromQ fromBits isRat TTGen.C04Tables.lgRatesQ TTGen.C04Tables.lgRatesBits)) π) π)
    else if name = "wag" then
      let π := finFn (tableVals fromQ fromBits isRat TTGen.C04Tables.wagFreqQ TTGen.C04Tables.wagFreqBits) TTGen.C04Tables.wagFreqQ.size
      some (replyQ io (empiricalQ (fnOf (tableVals fromQ fromBits isRat TTGen.C04Tables.wagRatesQ TTGen.C04Tables.wagRatesBits)) π) π)
    else none
  | _ => none

def handleFreq (io : IOS α) (fromQ : Int × Nat → α) (fromBits : UInt64 → α) (isRat : Bool)
    (name : String) : Option String :=
  if name = "lg" then
    some (" ".intercalate ((tableVals fromQ fromBits isRat TTGen.C04Tables.lgFreqQ TTGen.C04Tables.lgFreqBits).toList.map io.shw))
  else if name = "wag" then
    some (" ".intercalate ((tableVals fromQ fromBits isRat TTGen.C04Tables.wagFreqQ TTGen.C04Tables.wagFreqBits).toList.map io.shw))
  else none

end generic

/-! independent oracle: exp(A) by scaling and squaring with a Taylor series, flat `FloatArray`s -/
namespace Expm
def get (a : FloatArray) (i : Nat) : Float := a.get! i
def matmul (n : Nat) (a b : FloatArray) : FloatArray := Id.run do
  let mut c := FloatArray.emptyWithCapacity (n * n)
  for i in [0:n] do
    for j in [0:n] do
      let mut s : Float := 0.0
      for k in [0:n] do
        s := s + get a (i * n + k) * get b (k * n + j)
      c := c.push s
  return c
def scale (a : FloatArray) (x : Float) : FloatArray := Id.run do
  let mut c := FloatArray.emptyWithCapacity a.size
  for i in [0:a.size] do c := c.push (get a i * x)
  return c
def add (a b : FloatArray) : FloatArray := Id.run do
  let mut c := FloatArray.emptyWithCapacity a.size
  for i in [0:a.size] do c := c.push (get a i + get b i)
  return c
def eye (n : Nat) : FloatArray := Id.run do
  let mut c := FloatArray.emptyWithCapacity (n * n)
  for i in [0:n] do
    for j in [0:n] do c := c.push (if i = j then 1.0 else 0.0)
  return c
def infNorm (n : Nat) (a : FloatArray) : Float := Id.run do
  let mut m : Float := 0.0
  for i in [0:n] do
    let mut s : Float := 0.0
    for j in [0:n] do s := s + (get a (i * n + j)).abs
    if s > m then m := s
  return m
def expm (n : Nat) (a : FloatArray) : FloatArray := Id.run do
  let nrm := infNorm n a
  let mut s : Nat := 0
  let mut x := nrm
  -- scale until the norm is at most 1/4
  while x > 0.25 && s < 200 do
    x := x / 2.0
    s := s + 1
  let b := scale a (Float.ofScientific 1 false 0 / (Float.ofNat 2) ^ (Float.ofNat s))
  let mut term := eye n
  let mut sum := eye n
  for k in [1:19] do
    term := scale (matmul n term b) (1.0 / Float.ofNat k)
    sum := add sum term
  let mut p := sum
  for _ in [0:s] do
    p := matmul n p p
  return p
end Expm

def handleF (ws : List String) : Option String :=
  match ws with
  | ["jcpt", t] => do
    let t ← parseFloatBits t
    pure (" ".intercalate (showMat floatIO (jc69P t)))
  | ["gjcpt", n, t] => do
    let n ← n.toNat?
    let t ← parseFloatBits t
    pure (" ".intercalate (showMat floatIO (generalJC69P n t)))
  | "symm" :: n :: rest => do
    let n ← n.toNat?
    let (pi, rest) ← takeVals floatIO n rest
    let (q, rest) ← takeVals floatIO (n * n) rest
    if rest ≠ [] then none
    let π := finFn pi n
    let Qn := tab (normalised (matOf q n) π)
    pure (showTab (tab (symmetrised (untab (n := n) Qn) π)))
  | "recon" :: n :: t :: rest => do
    let n ← n.toNat?
    let t ← parseFloatBits t
    let (pi, rest) ← takeVals floatIO n rest
    let (e, rest) ← takeVals floatIO n rest
    let (v, rest) ← takeVals floatIO (n * n) rest
    let (vi, rest) ← takeVals floatIO (n * n) rest
    if rest ≠ [] then none
    -- `recon = mmul (reconA …) (reconB …)` by definition; the two factors are tabulated once
    let a := tab (reconA (finFn pi n) (matOf v n) (finFn e n) t)
    let b := tab (reconB (finFn pi n) (matOf vi n))
    pure (showTab (tab (mmul (untab (n := n) a) (untab b))))
  | "taylor" :: n :: t :: rest => do
    let n ← n.toNat?
    let t ← parseFloatBits t
    let (pi, rest) ← takeVals floatIO n rest
    let (q, rest) ← takeVals floatIO (n * n) rest
    if rest ≠ [] then none
    let π := finFn pi n
    let nrm := norm (matOf q n) π
    let a : FloatArray := Id.run do
      let mut c := FloatArray.emptyWithCapacity (n * n)
      for x in q do c := c.push (x / nrm * t)
      return c
    let p := Expm.expm n a
    pure (" ".intercalate ((List.range (n * n)).map fun i => floatBits (p.get! i)))
  | _ => none

def showMaskBits (xs : List Bool) : String := String.ofList (xs.map fun b => if b then '1' else '0')

def handle (line : String) : String :=
  let ws := splitWords line
  let r : Option String :=
    match ws with
    | "q" :: "r" :: rest => handleQ ratIO (fun p => mkRat p.1 p.2) (fun _ => 0) true rest
    | "q" :: "f" :: rest => handleQ floatIO (fun _ => 0.0) Float.ofBits false rest
    | ["freq", "r", name] => handleFreq ratIO (fun p => mkRat p.1 p.2) (fun _ => 0) true name
    | ["freq", "f", name] => handleFreq floatIO (fun _ => 0.0) Float.ofBits false name
    | ["masks", code] => do
      let code ← code.toNat?
      let table ← TTGen.C04Tables.geneticCodeTables[code]?
      let masks := (mg94Masks table TTGen.C04Tables.codonTriplets).toList
      pure s!"{(codingIndices table).length} {showMaskBits (masks.map (·.1))} {showMaskBits (masks.map (·.2.1))} {showMaskBits (masks.map (·.2.2))}"
    | _ => handleF ws
  r.getD "bad-op"

def main : IO Unit := mainLoop handle
