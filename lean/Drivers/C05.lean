import TTModel.Proto
import TTModel.C05_SiteModel
/-! C05 driver: the site models of `TTModel/C05_SiteModel.lean` executed at `Float`.
Requests (floats as 16-hex-digit bit patterns, `-` = parameter absent):
  `const <mu|->`, `inv <p> <mu|->`, `weibull <K> <shape> <inv|-> <mu|->`, `quantile <K>`
Reply: `<n> <probs…> <rates…> <meanRate> <probSum>` -/
open TT TT.Proto TT.C05

instance : NatCast Float := ⟨Float.ofNat⟩

def optFloat (s : String) : Option (Option Float) :=
  if s = "-" then some none else (parseFloatBits s).map some

def showSM (s : SM Float) : String :=
  let ps := (List.finRange s.n).map fun i => floatBits (s.probs i)
  let rs := (List.finRange s.n).map fun i => floatBits (s.rates i)
  " ".intercalate ([toString s.n] ++ ps ++ rs ++ [floatBits s.meanRate, floatBits s.probSum])

def handle (line : String) : String :=
  match splitWords line with
  | ["const", mu] =>
    match optFloat mu with
    | some mu => showSM (constant mu)
    | none => "bad-op"
  | ["inv", p, mu] =>
    match parseFloatBits p, optFloat mu with
    | some p, some mu => showSM (invariant p mu)
    | _, _ => "bad-op"
  | ["weibull", k, shape, inv, mu] =>
    match k.toNat?, parseFloatBits shape, optFloat inv, optFloat mu with
    | some k, some shape, some inv, some mu => showSM (weibull k shape inv mu)
    | _, _, _, _ => "bad-op"
  | ["quantile", k] =>
    match k.toNat? with
    | some k => " ".intercalate ((List.finRange k).map fun i => floatBits (quantile (α := Float) k i))
    | none => "bad-op"
  | _ => "bad-op"

def main : IO Unit := mainLoop handle
