import TTModel.C01_Handle
/-! C02 driver: the C01 request handler (C02 reuses the C01 model; see `TTModel/C01_Handle.lean`). -/
def main : IO Unit := TT.Proto.mainLoop TT.C01.Drv.handle
