import TTModel.C02_Handle
/-! C02 driver: C01's requests plus `rootings`, `reroot`, `likn` (see `TTModel/C02_Handle.lean`). -/
def main : IO Unit := TT.Proto.mainLoop TT.C02.Drv.handle
