import TTModel.Proto
import TTModel.FS
import TTModel.FSTag
import TTGen.C18_SavePlan
open TT.FS TT.FSTag TT.Proto

def contentChar : Content → Char
  | .absent => 'A' | .trunc => 'T' | .complete => 'C'
def parseContent : Char → Option Content
  | 'A' => some .absent | 'T' => some .trunc | 'C' => some .complete | _ => none
def showSt (s : St) : String := String.ofList [contentChar s.name, contentChar s.new, contentChar s.old]
def parseSt (w : String) : Option St :=
  match w.toList with
  | [a, b, c] => do pure ⟨← parseContent a, ← parseContent b, ← parseContent c⟩
  | _ => none
def showPath : Path → String | .name => "name" | .new => "new" | .old => "old"
def parsePath : String → Option Path
  | "name" => some .name | "new" => some .new | "old" => some .old | _ => none
def showOp : Op → String
  | .openTrunc p => s!"O:{showPath p}"
  | .writeChunk p => s!"W:{showPath p}"
  | .finishWrite p => s!"F:{showPath p}"
  | .rename a b => s!"R:{showPath a}>{showPath b}"
  | .remove p => s!"X:{showPath p}"
def parseOp (w : String) : Option Op :=
  match w.splitOn ":" with
  | ["O", p] => (parsePath p).map .openTrunc
  | ["W", p] => (parsePath p).map .writeChunk
  | ["F", p] => (parsePath p).map .finishWrite
  | ["X", p] => (parsePath p).map .remove
  | ["R", ab] => match ab.splitOn ">" with
    | [a, b] => do pure (.rename (← parsePath a) (← parsePath b))
    | _ => none
  | _ => none
def parseBool : String → Option Bool | "1" => some true | "0" => some false | _ => none

/-- run explicit operations, reporting where one raised -/
def runOps (s : St) : List Op → Nat → String
  | [], _ => showSt s
  | op :: ops, i => match step s op with
    | none => s!"raise@{i} {showSt s}"
    | some s' => runOps s' ops (i + 1)

def showTC : TContent Nat → String
  | .absent => "A" | .trunc => "T" | .complete g => toString g
def parseTC (w : String) : Option (TContent Nat) :=
  match w with
  | "A" => some .absent
  | "T" => some .trunc
  | _ => w.toNat?.map .complete
def showTSt (s : TSt Nat) : String := s!"{showTC s.name},{showTC s.new},{showTC s.old}"
def showBest (s : TSt Nat) : String := match best s with | some g => toString g | none => "-"

def handle (line : String) : String :=
  match splitWords line with
  | ["prog", sf, ov, st] =>
    match parseBool sf, parseBool ov, parseSt st with
    | some sf, some ov, some s =>
      let f : Flags := ⟨sf, ov⟩
      let p := TTGen.C18_SavePlan.prog
      let ops := effectiveOps f s p
      let states := (List.range (p.depth + 1)).map fun k => showSt (runProg f s p k)
      s!"ops {";".intercalate (ops.map showOp)} states {",".intercalate states} depth {p.depth}"
    | _, _, _ => "bad-op"
  | "run" :: st :: ops =>
    match parseSt st, ops.mapM parseOp with
    | some s, some ops => runOps s ops 0
    | _, _ => "bad-op"
  -- tagged model: `trun g n w o ops…` explicit operations with generation g being written;
  -- `tprog g n w o` the generated program interrupted after k = 0..depth operations
  | "trun" :: g :: n :: w :: o :: ops =>
    match g.toNat?, parseTC n, parseTC w, parseTC o, ops.mapM parseOp with
    | some g, some n, some w, some o, some ops =>
      let s' := trun g ⟨n, w, o⟩ ops
      s!"{showTSt s'} best {showBest s'}"
    | _, _, _, _, _ => "bad-op"
  | ["tprog", g, n, w, o] =>
    match g.toNat?, parseTC n, parseTC w, parseTC o with
    | some g, some n, some w, some o =>
      let p := TTGen.C18_SavePlan.prog
      let states := (List.range (p.depth + 1)).map fun k =>
        let s' := trunProg ⟨true, false⟩ g ⟨n, w, o⟩ p k
        s!"{showTSt s'}/{showBest s'}"
      " ".intercalate states
    | _, _, _, _ => "bad-op"
  | ["inv", st] => match parseSt st with
    | some s => if decide (CkInv s) then "1" else "0"
    | none => "bad-op"
  | ["safe", st] => match parseSt st with
    | some s => if decide (Safe s) then "1" else "0"
    | none => "bad-op"
  | _ => "bad-op"

def main : IO Unit := mainLoop handle
