import TTModel.Proto
import TTModel.Scalar
import TTModel.C16_Leapfrog
/-!
C16 driver.  Requests (space separated; scalars are `p/q` in mode `rat`, 16-hex-digit IEEE bit
patterns in mode `flt`):

  lin <rat|flt> <diag|dense> n steps eps IM.. q.. p.. G(n*n, row major).. b..
      gradient of the joint g(q) = -(G q + b)  (G any matrix, not assumed symmetric)
      -> `q'.. ; p'.. ; K0 K1 hastings ; maxabs`  (maxabs: largest |entry| of any q, p, dU
         passed through — exactness budget of the correspondence; `-` in mode flt)
  tab flt <diag|dense> n steps eps IM.. q.. p.. k (q_i.. g_i..)*k
      gradient given as a table of (position, gradient) pairs recorded from the implementation;
      g(q) = gradient of the nearest recorded position
      -> `q'.. ; p'.. ; K0 K1 hastings`
  hmc rat <diag|dense> n steps eps IM.. q.. G.. b.. thr trials k (p..)*k
      `HMCOperator._step` with `bad q := q_0 > thr` (the stub target answers nan there)
      -> `ok q'.. ; hastings`  |  `inf q..`
-/
open TT TT.C16 TT.Proto

class Sc (α : Type) where
  parse : String → Option α
  render : α → String
  abs : α → α
  le : α → α → Bool

instance : Sc Rat := ⟨parseRat, showRat, fun x => if x < 0 then -x else x, fun a b => decide (a ≤ b)⟩
instance : Sc Float := ⟨parseFloatBits, floatBits, Float.abs, fun a b => a ≤ b⟩

instance : OfNat Rat 2 := ⟨(2 : Int)⟩

abbrev P (β : Type) := StateT (List String) Option β

def word : P String := fun ws => match ws with | [] => none | w :: r => some (w, r)
def nat : P Nat := do let w ← word; match w.toNat? with | some k => pure k | none => failure
def sc (α) [Sc α] : P α := do let w ← word; match Sc.parse w with | some x => pure x | none => failure
def vec (α) [Sc α] (n : Nat) : P (Vec α n) := do
  let mut xs : Array α := #[]
  for _ in [0:n] do xs := xs.push (← sc α)
  match xs[0]? with
  | none => failure  -- n = 0 is never requested
  | some d => pure fun i => xs.getD i.val d
def mat (α) [Sc α] (n : Nat) : P (Fin n → Fin n → α) := do
  let mut rows : Array (Vec α n) := #[]
  for _ in [0:n] do rows := rows.push (← vec α n)
  match rows[0]? with
  | none => failure
  | some d => pure fun i => rows.getD i.val d
def imass (α) [Sc α] (kind : String) (n : Nat) : P (IMass α n) :=
  match kind with
  | "diag" => do pure (.diag (← vec α n))
  | "dense" => do pure (.dense (← mat α n))
  | _ => failure
def done : P Unit := fun ws => match ws with | [] => some ((), []) | _ => none

def showVec {α} [Sc α] {n} (v : Vec α n) : String :=
  " ".intercalate ((List.finRange n).map fun i => Sc.render (v i))

section
variable {α : Type} [Add α] [Sub α] [Mul α] [Neg α] [Zero α] [Div α] [OfNat α 2] [Sc α] [Inhabited α]

def linGrad {n} (G : Fin n → Fin n → α) (b : Vec α n) : Vec α n → Vec α n :=
  fun q i => -((sumFin fun j => G i j * q j) + b i)

def vmax {n} (v : Vec α n) (m : α) : α :=
  (List.finRange n).foldl (fun m i => let a := Sc.abs (v i); if Sc.le m a then a else m) m

def runLin (one : α) (kind : String) : P String := do
  let n ← nat
  if n = 0 then failure
  let steps ← nat
  let eps ← sc α
  let im ← imass α kind n
  let q ← vec α n
  let p ← vec α n
  let G ← mat α n
  let b ← vec α n
  done
  let g := linGrad G b
  let half := one / 2
  let z := leapfrog g eps im steps q p
  let k0 := kinetic half im p
  let k1 := kinetic half im z.2
  let dU0 := ofArr (toArr (negGrad g q))
  let p1 : Vec α n := ofArr (toArr fun i => p i - (eps / 2) * dU0 i)
  let tr := loopTrace g eps im steps ⟨q, p1, dU0⟩
  let m0 := vmax dU0 (vmax p1 (vmax p (vmax q (Sc.abs eps))))
  let m1 := tr.foldl (fun m s => vmax s.dU (vmax s.p (vmax s.q m))) m0
  let m2 := vmax z.2 m1
  pure s!"{showVec z.1} ; {showVec z.2} ; {Sc.render k0} {Sc.render k1} {Sc.render (k0 - k1)} ; {Sc.render m2}"

end

/-- nearest recorded position (squared distance), Float only -/
def tabGrad {n} (tab : Array (Vec Float n × Vec Float n)) (dflt : Vec Float n) :
    Vec Float n → Vec Float n := fun q =>
  let d2 (a : Vec Float n) : Float := sumFin fun i => (a i - q i) * (a i - q i)
  let best := tab.foldl (fun (acc : Option (Float × Vec Float n)) e =>
    let d := d2 e.1
    match acc with
    | none => some (d, e.2)
    | some (bd, bg) => if d < bd then some (d, e.2) else some (bd, bg)) none
  match best with | some (_, gq) => gq | none => dflt

def runTab (kind : String) : P String := do
  let n ← nat
  if n = 0 then failure
  let steps ← nat
  let eps ← sc Float
  let im ← imass Float kind n
  let q ← vec Float n
  let p ← vec Float n
  let k ← nat
  let mut tab : Array (Vec Float n × Vec Float n) := #[]
  for _ in [0:k] do
    let qi ← vec Float n
    let gi ← vec Float n
    tab := tab.push (qi, gi)
  done
  let g := tabGrad tab (fun _ => 0.0)
  let z := leapfrog g eps im steps q p
  let k0 := kinetic (0.5 : Float) im p
  let k1 := kinetic (0.5 : Float) im z.2
  pure s!"{showVec z.1} ; {showVec z.2} ; {floatBits k0} {floatBits k1} {floatBits (k0 - k1)}"

def runHmc (kind : String) : P String := do
  let n ← nat
  if h : n = 0 then failure else
  let steps ← nat
  let eps ← sc Rat
  let im ← imass Rat kind n
  let q ← vec Rat n
  let G ← mat Rat n
  let b ← vec Rat n
  let thr ← sc Rat
  let trials ← nat
  let k ← nat
  let mut ps : Array (Vec Rat n) := #[]
  for _ in [0:k] do ps := ps.push (← vec Rat n)
  done
  let bad : Vec Rat n → Bool := fun q => decide (thr < q ⟨0, Nat.pos_of_ne_zero h⟩)
  match hmcStep bad (linGrad G b) (eps / 2) eps ((1 : Rat) / 2) im steps q trials ps.toList with
  | .ok q' hr => pure s!"ok {showVec q'} ; {showRat hr}"
  | .inf q' => pure s!"inf {showVec q'}"

def handle (line : String) : String :=
  let r : Option String :=
    match splitWords line with
    | "lin" :: "rat" :: kind :: rest => (runLin (α := Rat) 1 kind).run' rest
    | "lin" :: "flt" :: kind :: rest => (runLin (α := Float) 1.0 kind).run' rest
    | "tab" :: "flt" :: kind :: rest => (runTab kind).run' rest
    | "hmc" :: "rat" :: kind :: rest => (runHmc kind).run' rest
    | _ => none
  r.getD "bad-op"

def main : IO Unit := mainLoop handle
