import TTModel.Proto
import TTModel.C11_Cache
import TTModel.C11_Reads
import TTModel.C11_Table
import TTGen.C11_Wiring
/-!
C11 driver.  Stateless: one request carries a whole machine (extracted by the harness from real
torchtree objects), its initial flags / leaf stamps and an operation history; the reply gives,
after every operation, whether it raised, every dirty flag, every cell whose getter would return
something different from a fresh rebuild, and the leaf stamps.

  run <node>* | <cell>* | <cell>=<stamp>* | <node>:<flag>* | <op>*
    node  = Class,setter,listeners,inputs      setter: n | l<cell> | v<parent>:<pcell> | c<flag>:<ch>+<ch> | t<x>
                                               listeners: j+j+j or -      inputs: u:a+u:e or -
    cell  = owner,tmpl,reads                   reads: d:1+d:0 or -   (1 = the read clears the flag)
    op    = A<node>;<asg> | I<node>;<asg> | E<cell> | D<cells>;<x>;<asg> | P<cells>;<cell>;<node>;<after cells>;<asg> | R<nodes>;<asg>
            asg = cell=stamp+cell=stamp or -
  classok <Class>      -> 0/1   (classOK of the generated row against the hand-written reads)
  spec <Class>         -> the generated row, for the harness to show
-/
open TT.C11 TT.Proto

def splitPlus (s : String) : List String := if s = "-" || s = "" then [] else s.splitOn "+"

def parseNatList (s : String) : Option (List Nat) := (splitPlus s).mapM String.toNat?

def parsePairs (sep : String) (s : String) : Option (List (Nat × Nat)) :=
  (splitPlus s).mapM fun w => match w.splitOn sep with
    | [a, b] => do pure (← a.toNat?, ← b.toNat?)
    | _ => none

def classIndex (n : String) : Option Nat :=
  let i := (TTGen.C11_Wiring.classes.map (·.name)).idxOf n
  if i < TTGen.C11_Wiring.classes.length then some i else none

def parseSetter (s : String) : Option Setter :=
  if s = "n" then some .none else
  match s.toList with
  | 'l' :: r => (String.ofList r).toNat?.map .leaf
  | 't' :: r => (String.ofList r).toNat?.map .trans
  | 'v' :: r => match (String.ofList r).splitOn ":" with
    | [a, b] => do pure (.view (← a.toNat?) (← b.toNat?))
    | _ => none
  | 'c' :: r => match (String.ofList r).splitOn ":" with
    | [f, ch] => do pure (.cat (← parseNatList ch) (← f.toNat?))
    | _ => none
  | _ => none

def parseNode (w : String) : Option NodeI :=
  match w.splitOn "," with
  | [cls, st, ls, ins] => do
    let ci ← classIndex cls
    let st ← parseSetter st
    let ls ← parseNatList ls
    let ins ← (splitPlus ins).mapM fun x => match x.splitOn ":" with
      | [u, "a"] => do pure ((← u.toNat?), Origin.attr)
      | [u, "e"] => do pure ((← u.toNat?), Origin.explicit)
      | _ => none
    pure { cls := ci, listeners := ls, inputs := ins, setter := st }
  | _ => none

/-- a cell instantiates its class template: guard, sensitivities, mode come from the template -/
def parseCell (nodes : List NodeI) (w : String) : Option CellI :=
  match w.splitOn "," with
  | [o, t, rs] => do
    let o ← o.toNat?
    let t ← t.toNat?
    let rs ← parsePairs ":" rs
    let nd := nodes.getD o default
    let (spec, rd) := theTable.getD nd.cls default
    let tm ← rd.cells[t]?
    pure { owner := o, tmpl := t, leaf := rd.leaf, guard := cellGuardIdx spec tm, always := tm.always,
           kinds := tm.kinds, reads := rs.map fun p => (p.1, p.2 != 0) }
  | _ => none

def mkVal (asg : List (Nat × Nat)) : Nat → Nat :=
  fun c => ((asg.find? fun p => p.1 == c).map (·.2)).getD 0

def parseOp (w : String) : Option (Op Nat) :=
  match w.toList with
  | 'E' :: r => (String.ofList r).toNat?.map .eval
  | 'A' :: r => match (String.ofList r).splitOn ";" with
    | [j, a] => do pure (.assign (← j.toNat?) (mkVal (← parsePairs "=" a)))
    | _ => none
  | 'I' :: r => match (String.ofList r).splitOn ";" with
    | [j, a] => do pure (.inplace (← j.toNat?) (mkVal (← parsePairs "=" a)))
    | _ => none
  | 'D' :: r => match (String.ofList r).splitOn ";" with
    | [cs, x, a] => do pure (.draw (← parseNatList cs) (← x.toNat?) (mkVal (← parsePairs "=" a)))
    | _ => none
  | 'P' :: r => match (String.ofList r).splitOn ";" with
    | [cs, cc, j, af, a] => do
      pure (.propose (← parseNatList cs) (← cc.toNat?) (← j.toNat?) (← parseNatList af) (mkVal (← parsePairs "=" a)))
    | _ => none
  | 'R' :: r => match (String.ofList r).splitOn ";" with
    | [ps, a] => do pure (.reject (← parseNatList ps) (mkVal (← parsePairs "=" a)))
    | _ => none
  | _ => none

/-- the uninterpreted value function, instantiated as a hash of (cell, input values) -/
def hashF (c : Nat) (vs : List Nat) : Nat :=
  vs.foldl (fun acc v => (acc * 1000003 + v + 1) % 2305843009213693951) (c + 7)

def splitSections (ws : List String) : List (List String) :=
  let rec go : List String → List String → List (List String) → List (List String)
    | [], cur, acc => (cur.reverse :: acc).reverse
    | w :: r, cur, acc => if w = "|" then go r [] (cur.reverse :: acc) else go r (w :: cur) acc
  go ws [] []

def showState (m : Machine) (raised : Bool) (s : State Nat) : String :=
  let flags := (List.range m.nN).flatMap fun j =>
    ((List.range (m.specOf j).flags.length).filter fun f => s.flag j f).map fun f => s!"{j}:{f}"
  let stale := (List.range m.nC).filter fun c =>
    (evalF m hashF m.nC c true s).1 != freshF m hashF s.leaf m.nC c
  let leaves := ((List.range m.nC).filter fun c => (m.cellAt c).leaf).map fun c => s!"{c}={s.leaf c}"
  s!"r{if raised then 1 else 0};F{"+".intercalate flags};S{"+".intercalate (stale.map toString)};L{"+".intercalate leaves}"

/-- materialise the function-valued state into arrays (keeps closures from piling up) -/
def normalise (m : Machine) (s : State Nat) : State Nat :=
  let lf := (Array.ofFn (n := m.nC) fun i => s.leaf i.1)
  let ch := (Array.ofFn (n := m.nC) fun i => s.cache i.1)
  let fl := (Array.ofFn (n := m.nN) fun j => Array.ofFn (n := (m.specOf j.1).flags.length) fun f => s.flag j.1 f.1)
  { leaf := fun c => lf.getD c 0, cache := fun c => ch.getD c none,
    flag := fun j f => (fl.getD j #[]).getD f false }

/-- one reply step per request token; a token may be a comma-joined group of operations (`E1,E2,E3`: the
harness's "evaluate everything"), reported once at its end -/
def runSteps (m : Machine) : List (List (Op Nat)) → State Nat → List String → List String
  | [], _, acc => acc.reverse
  | grp :: ops, s, acc =>
    let r := run m hashF grp s
    let s' := normalise m r.st
    runSteps m ops s' (showState m r.raised s' :: acc)

def handle (line : String) : String :=
  match splitWords line with
  | ["classok", n] => if classOK (TTGen.C11_Wiring.find n) (Reads.find n) then "1" else "0"
  | ["spec", n] => toString (repr (TTGen.C11_Wiring.find n))
  | ["allclasses"] => " ".intercalate (TTGen.C11_Wiring.classes.map (·.name))
  | "run" :: rest =>
    match splitSections rest with
    | [ns, cs, ls, fs, os] =>
      match ns.mapM parseNode with
      | none => "bad-op nodes"
      | some nodes =>
      match cs.mapM (parseCell nodes), ls.mapM (fun w => (parsePairs "=" w)), fs.mapM (fun w => parsePairs ":" w),
            os.mapM (fun w => (w.splitOn ",").mapM parseOp) with
      | some cells, some lvs, some fls, some ops =>
        let m : Machine := { table := theTable, nodes := nodes, cells := cells }
        let lv := mkVal lvs.flatten
        let dirty := fls.flatten
        let s0 : State Nat := normalise m (initState m hashF lv (fun j f => dirty.contains (j, f)))
        let b (x : Bool) := if x then "1" else "0"
        let head := s!"ok wf={b (wfB m)} ww={b (wellWiredB m)} conf={b (conformsB m)} cls={b (classesOKB m)}"
        " | ".intercalate (head :: showState m false s0 :: runSteps m ops s0 [])
      | _, _, _, _ => "bad-op payload"
    | _ => "bad-op sections"
  | _ => "bad-op"

def main : IO Unit := mainLoop handle
