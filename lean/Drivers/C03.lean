import TTModel.Proto
import TTModel.Scalar
import TTModel.C03_Rescale
/-!
C03 driver. Runs the model of `TTModel/C03_Rescale.lean` at `Rat` (exact; the extended-range
reference of the property) and at `Float`.

Requests (one line, space separated):

* `run <R|F> <plain|resc|safe|tsplain|tsresc> <x|l> N K S ntrip nb ntips thr  triples… mats… freqs… props… weights… tips…`
  - all numbers except the integers are 16-hex-digit IEEE bit patterns; under `R` each is converted
    to the rational it denotes exactly, so model and implementation get identical inputs;
  - `mats` in order `[branch][category][row][col]`, tips `[tip][site][state]` (partials) or
    `[tip][site]` integer states (`ts…` variants); `thr` only matters for `safe`
    (= plain pass, then the safe pass on what it left, as `calculate_with_tip_partials` does);
  - reply `ok total <v> logs <N v> [nodes <ntrip*N*K*S v> nsc <m> scalers <m*N v> resc <m ints>]`
    (`nodes` = final slot of every triple's node, in triple order, `[site][category][state]`)
    (`x` = with the bracketed part). `v` is `p/q` under `R`, hex bits under `F`.
    `logs[n]` = per-site `log(site value) + Σ log scalers`; `total` = the model's
    `logLikPlain/logLikScaled`. Under `R`, `log` is taken by exact decomposition
    `log(p/q) = (⌊log2 p⌋ - ⌊log2 q⌋)·ln2 + log(mant p) - log(mant q)` (64-bit mantissas).
  - `nonpos` when a logarithm of a non-positive number would be needed; `empty-post` /
    `empty-scalers` where the code raises (`post_indexing[-1]`, `torch.cat([])`).
* `wf T ntrip triples…` → `1`/`0`
* `flags <ts:0|1> <r0:0|1> b1 b2 …` → `<branches> <final flag>`
* `lograt p/q` → hex bits of the decomposition logarithm (for cross-checking it)
-/
open TT TT.Proto TT.C03

/-- exact rational denoted by an IEEE double bit pattern (none for inf/nan) -/
def ratOfBits (b : UInt64) : Option Rat :=
  let n : Nat := b.toNat
  let sign : Nat := n >>> 63
  let e : Nat := (n >>> 52) % 2048
  let m : Nat := n % (2 ^ 52)
  let full : Nat := m + 2 ^ 52
  if e = 2047 then none else
  let v : Rat :=
    if e = 0 then mkRat (Int.ofNat m) (2 ^ 1074)
    else if e ≥ 1075 then ((Int.ofNat (full * 2 ^ (e - 1075)) : Int) : Rat)
    else mkRat (Int.ofNat full) (2 ^ (1075 - e))
  some (if sign = 1 then -v else v)

/-- `n = mant · 2^ex` with `mant ∈ [1,2)` as a Float (top 63 bits kept) -/
def natMant (n : Nat) : Float × Nat :=
  let b := n.log2
  let top : Nat := if b > 62 then n >>> (b - 62) else n <<< (62 - b)
  (top.toFloat / (2 ^ 62 : Nat).toFloat, b)

/-- logarithm of a positive rational through an exact decomposition -/
def logRat (r : Rat) : Float :=
  let (mp, bp) := natMant r.num.toNat
  let (mq, bq) := natMant r.den
  let k : Int := (bp : Int) - (bq : Int)
  Float.ofInt k * Float.log 2.0 + (Float.log mp - Float.log mq)

instance : Trans Rat where
  exp _ := 0
  log r := if r > 0 then (ratOfBits (logRat r).toBits).getD 0 else 0
  sqrt _ := 0
  pow _ _ := 0

structure Cfg (α : Type) where
  ofBits : UInt64 → Option α
  showV : α → String
  pos : α → Bool

def cfgR : Cfg Rat := ⟨ratOfBits, showRat, fun r => decide (r > 0)⟩
def cfgF : Cfg Float := ⟨fun b => some (Float.ofBits b), floatBits, fun x => decide (x > 0)⟩

def takeN (n : Nat) (ws : List String) : Option (List String × List String) :=
  if ws.length < n then none else some (ws.take n, ws.drop n)

def parseNats (ws : List String) : Option (List Nat) := ws.mapM String.toNat?

def parseVals {α} (c : Cfg α) (ws : List String) : Option (Array α) :=
  (ws.mapM fun w => do let n ← parseHex w; c.ofBits n.toUInt64).map List.toArray

def triplesOf : List Nat → List Triple
  | a :: b :: c :: rest => (a, b, c) :: triplesOf rest
  | _ => []

section run
variable {α : Type} [Add α] [Mul α] [Zero α] [One α] [Div α] [Max α] [LT α] [DecidableLT α] [Trans α]

def idx {n : Nat} (i : Fin n) : Nat := i.val

def showPart {N K S : Nat} (c : Cfg α) (p : Part α N K S) : String :=
  " ".intercalate ((List.finRange N).flatMap fun n => (List.finRange K).flatMap fun k =>
    (List.finRange S).map fun s => c.showV (p.get n k s))

def runModel (c : Cfg α) (variant : String) (ex : Bool) (N K S : Nat) (ts : List Triple)
    (ntips : Nat) (thr : α) (mats freqs props weights : Array α) (tipsV : Array α)
    (tipsS : Array Nat) : String :=
  let M : Mats α K S := fun b k i j => mats.getD (((b * K + k.val) * S + i.val) * S + j.val) 0
  let fr : Fin S → α := fun s => freqs.getD s.val 0
  let pr : Fin K → α := fun k => props.getD k.val 0
  let w : Fin N → α := fun n => weights.getD n.val 0
  let st0 : Store α N K S := tipStore fun i n s => if i < ntips then tipsV.getD ((i * N + n.val) * S + s.val) 0 else 0
  let states : Nat → Fin N → Nat := fun i n => tipsS.getD (i * N + n.val) S
  let z : Nat → Fin N → Fin K → Fin S → α := noTips
  let root := rootOf ts
  -- (final store, scalers, rescaled nodes)
  let res : Option (Store α N K S × List (Vector α N) × List Nat) :=
    match variant with
    | "plain" => some (peel 0 z M st0 ts, [], [])
    | "tsplain" => some (peel (ts.length + 1) (tipVec M states) M st0 ts, [], [])
    | "resc" => let rs := peelRescaled 0 z M st0 ts; some (rs.st, rs.scalers, ts.map (·.1))
    | "tsresc" =>
      let rs := peelRescaled (ts.length + 1) (tipVec M states) M st0 ts
      some (rs.st, rs.scalers, ts.map (·.1))
    | "safe" =>
      let st1 := peel 0 z M st0 ts
      let ss := peelSafe thr M st1 ts
      some (ss.st, ss.scalers, (ts.map (·.1)).filter ss.flags)
    | _ => none
  match res with
  | none => "bad-op"
  | some (st, scalers, rescN) =>
    -- the code raises here: `post_indexing[-1]` on an empty list; `torch.cat([])` when no scaler was appended
    if ts.isEmpty then "empty-post" else
    if scalers.isEmpty && !(variant == "plain" || variant == "tsplain") then "empty-scalers" else
    let rootP := st.get root
    let sites := List.finRange N
    let okPos := sites.all fun n => c.pos (siteLik fr pr rootP n) && scalers.all fun sc => c.pos sc[n]
    if !okPos then "nonpos" else
    let logs := sites.map fun n => Trans.log (siteLik fr pr rootP n) + logScalers scalers n
    let total := if scalers.isEmpty && (variant == "plain" || variant == "tsplain")
      then logLikPlain fr pr w rootP else logLikScaled fr pr w rootP scalers
    let base := s!"ok total {c.showV total} logs {" ".intercalate (logs.map c.showV)}"
    if ex then
      let scs := " ".intercalate (scalers.flatMap fun sc => sites.map fun n => c.showV sc[n])
      let nodes := " ".intercalate (ts.map fun t => showPart c (st.get t.1))
      s!"{base} nodes {nodes} nsc {scalers.length} scalers {scs} resc {" ".intercalate (rescN.map toString)}"
    else base

end run

def handleRun {α : Type} [Add α] [Mul α] [Zero α] [One α] [Div α] [Max α] [LT α] [DecidableLT α]
    [Trans α] (c : Cfg α) (variant out : String) (rest : List String) : Option String := do
  let (hd, rest) ← takeN 6 rest
  let [N, K, S, ntrip, nb, ntips] ← parseNats hd | none
  let (thrW, rest) ← takeN 1 rest
  let thr ← (← parseVals c thrW)[0]?
  let (tw, rest) ← takeN (3 * ntrip) rest
  let ts := triplesOf (← parseNats tw)
  let (mw, rest) ← takeN (nb * K * S * S) rest
  let mats ← parseVals c mw
  let (fw, rest) ← takeN S rest
  let freqs ← parseVals c fw
  let (pw, rest) ← takeN K rest
  let props ← parseVals c pw
  let (ww, rest) ← takeN N rest
  let weights ← parseVals c ww
  let isTS := variant == "tsplain" || variant == "tsresc"
  let ex ← match out with | "x" => some true | "l" => some false | _ => none
  if isTS then
    let (sw, rest) ← takeN (ntips * N) rest
    if !rest.isEmpty then none
    let sts ← parseNats sw
    pure (runModel c variant ex N K S ts ntips thr mats freqs props weights #[] sts.toArray)
  else
    let (vw, rest) ← takeN (ntips * N * S) rest
    if !rest.isEmpty then none
    let tv ← parseVals c vw
    pure (runModel c variant ex N K S ts ntips thr mats freqs props weights tv #[])

def showBranch : Branch → String
  | .plain => "plain" | .plainThenSafe => "plain+safe" | .plainThenResc => "plain+resc"
  | .rescaled => "rescaled"

def parseBool : String → Option Bool | "1" => some true | "0" => some false | _ => none

def handle (line : String) : String :=
  match splitWords line with
  | "run" :: sc :: variant :: out :: rest =>
    match sc with
    | "R" => (handleRun cfgR variant out rest).getD "bad-op"
    | "F" => (handleRun cfgF variant out rest).getD "bad-op"
    | _ => "bad-op"
  | "wf" :: t :: n :: rest =>
    match t.toNat?, n.toNat?, parseNats rest with
    | some T, some n, some xs =>
      if xs.length ≠ 3 * n then "bad-op" else if wf T (triplesOf xs) then "1" else "0"
    | _, _, _ => "bad-op"
  | "flags" :: tsw :: r0 :: bs =>
    match parseBool tsw, parseBool r0, bs.mapM parseBool with
    | some tsb, some r, some bs =>
      let (brs, rf) := flagRun tsb r bs
      s!"{",".intercalate (brs.map showBranch)} {if rf then 1 else 0}"
    | _, _, _ => "bad-op"
  | ["lograt", w] =>
    match parseRat w with
    | some r => if r > 0 then floatBits (logRat r) else "nonpos"
    | none => "bad-op"
  | _ => "bad-op"

def main : IO Unit := mainLoop handle
