import TTModel.Proto
import TTModel.C06_Heights
import TTGen.C06_Devices
/-!
C06 driver. Requests (sections separated by `|`, numbers `p/q` in mode `R`, 16-hex bit patterns
in mode `F`; trees as `((0,1),(2,3))` with taxon positions at the leaves):

  trav <n> <tree>                          -> pre … | post … | srt … | fwd … | det …
  bounds <m> <n> <tree> | s…               -> 2n-1 values
  rfwd   <m> <n> <tree> | s… | x…          -> n-1 internal heights (ratio transform forward)
  rinv   <m> <n> <tree> | s… | y…          -> n-1 parameters (ratio transform inverse)
  rdet   <m> <n> <tree> | s… | y…          -> the n-2 terms whose logs are summed [F: "| sum"]
  bl     <m> <n> <tree> | s… | h…          -> 2n-2 branch lengths from internal heights h
  dfwd   <m> <n> <tree> <k> | s… | x…      -> n-1 heights (difference transform; k=0: max)
  dinv   <m> <n> <tree> <k> | s… | y…      -> n-1 increments
  leaf   <m> | dates…                      -> leaf heights
  dev <class> <method> <ratio|difference>  -> kind after the call | none
  init <class> <argument>                  -> kind installed by the constructor
-/
open TT TT.Proto TT.C06

/-! tree parser -/
partial def parseTreeAux : List Char → Option (BTree × List Char)
  | '(' :: rest => do
      let (l, r1) ← parseTreeAux rest
      match r1 with
      | ',' :: r2 => do
          let (r, r3) ← parseTreeAux r2
          match r3 with
          | ')' :: r4 => pure (.node l r, r4)
          | _ => none
      | _ => none
  | cs =>
      let ds := cs.takeWhile Char.isDigit
      if ds.isEmpty then none else
      pure (.leaf (String.ofList ds).toNat!, cs.dropWhile Char.isDigit)

def parseTree (s : String) : Option BTree :=
  match parseTreeAux s.toList with
  | some (t, []) => some t
  | _ => none

structure Codec (α : Type) where
  parse : String → Option α
  show_ : α → String

def ratC : Codec Rat := ⟨parseRat, showRat⟩
def floatC : Codec Float := ⟨parseFloatBits, floatBits⟩

def sections (ws : List String) : List (List String) :=
  ws.splitBy (fun a b => a ≠ "|" && b ≠ "|") |>.filter (· ≠ ["|"])

def vecOf {α} [Zero α] (l : List α) : Nat → α := fun i => l.getD i 0

def showPairs (l : List (Nat × Nat)) : String :=
  ";".intercalate (l.map fun a => s!"{a.1},{a.2}")
def showTriples (l : List (Nat × Nat × Nat)) : String :=
  ";".intercalate (l.map fun a => s!"{a.1},{a.2.1},{a.2.2}")

section generic
variable {α : Type} [Add α] [Sub α] [Mul α] [Div α] [Zero α] [LT α] [DecidableLT α]

def out (c : Codec α) (f : Nat → α) (len : Nat) : String :=
  " ".intercalate ((List.range len).map fun i => c.show_ (f i))

def numeric (c : Codec α) (smooth : Option (α → α → α → α)) (logsum : Option (List α → String))
    (op : String) (n : Nat) (t : BTree) (k : Option α) (secs : List (List String)) : String :=
  let nums : List (Option (List α)) := secs.map fun s => s.mapM c.parse
  match nums.mapM id with
  | none => "bad-op"
  | some vs =>
    let s := vecOf (vs.getD 0 [])
    let v := vecOf (vs.getD 1 [])
    let lens := vs.map List.length
    let post := postorder n t
    -- `_bounds` is computed once and stored, as in the implementation
    let b := vecOf ((List.range (2 * n - 1)).map (bounds n s post))
    let okS := lens.getD 0 0 == n
    let okV := lens.getD 1 0 == n - 1
    let mx : Option (α → α → α) := match k, smooth with
      | none, _ => some max2
      | some kv, some sm => some (sm kv)
      | some _, none => none
    match op with
    | "bounds" => if okS && lens.length == 1 then out c b (2 * n - 1) else "bad-op"
    | "rfwd" => if okS && okV then out c (ratioFwd n b (forwardIndices n t) v) (n - 1) else "bad-op"
    | "rinv" => if okS && okV then out c (ratioInv n b (indicesSorted n t) v) (n - 1) else "bad-op"
    | "rdet" =>
      if okS && okV then
        let terms := ratioDetTerms n b (detIndices n t) v
        " ".intercalate (terms.map c.show_) ++ (match logsum with | some f => " | " ++ f terms | none => "")
      else "bad-op"
    | "bl" =>
      if okS && okV then " ".intercalate ((branchLengths (indicesSorted n t) (nodeHeights n s v)).map c.show_)
      else "bad-op"
    | "dfwd" => match mx with
      | some m => if okS && okV then out c (diffFwd n m s post v) (n - 1) else "bad-op"
      | none => "bad-op"
    | "dinv" => match mx with
      | some m => if okS && okV then out c (diffInv n m s post v) (n - 1) else "bad-op"
      | none => "bad-op"
    | _ => "bad-op"

def leafOp (c : Codec α) (ws : List String) : String :=
  match ws.mapM c.parse with
  | some ds => " ".intercalate ((leafHeights ds).map c.show_)
  | none => "bad-op"
end generic

def floatLogSum (l : List Float) : String := floatBits ((l.map Float.log).foldl (· + ·) 0.0)

def parseKind : String → Option Kind
  | "ratio" => some .ratio | "difference" => some .difference | _ => none
def showKind : Kind → String | .ratio => "ratio" | .difference => "difference"

def wellShaped (n : Nat) (t : BTree) : Bool :=
  t.tips.length == n && (t.tips.mergeSort (· ≤ ·)) == List.range n

def handle (line : String) : String :=
  match splitWords line with
  | ["trav", n, tr] =>
    match n.toNat?, parseTree tr with
    | some n, some t =>
      if !wellShaped n t then "bad-op" else
      s!"pre {showPairs (preorder n t)} | post {showTriples (postorder n t)} | srt {showPairs (indicesSorted n t)} | fwd {showPairs (forwardIndices n t)} | det {",".intercalate ((detIndices n t).map toString)}"
    | _, _ => "bad-op"
  | "leaf" :: m :: "|" :: ws =>
    if m == "R" then leafOp ratC ws else if m == "F" then leafOp floatC ws else "bad-op"
  | ["dev", cls, meth, kind] =>
    match parseKind kind, TTGen.C06Devices.table.find? (fun e => e.1 == cls && e.2.1 == meth) with
    | some k, some e => match e.2.2.apply k with
      | some k' => showKind k'
      | none => "none"
    | _, _ => "bad-op"
  | ["init", cls, arg] =>
    match TTGen.C06Devices.inits.find? (fun e => e.1 == cls && e.2.1 == arg) with
    | some e => showKind e.2.2
    | none => "bad-op"
  | op :: m :: n :: tr :: rest =>
    match n.toNat?, parseTree tr with
    | some n, some t =>
      if !wellShaped n t || n < 2 then "bad-op" else
      let (kstr, rest) := match rest with
        | "|" :: _ => (none, rest)
        | k :: r => (some k, r)
        | [] => (none, [])
      let secs := sections rest
      if m == "R" then
        match kstr with
        | none => numeric ratC none none op n t none secs
        | some "0" => numeric ratC none none op n t none secs
        | some _ => "bad-op"
      else if m == "F" then
        let sm : Float → Float → Float → Float := fun k a b => smoothMax k a b
        match kstr with
        | none => numeric floatC (some sm) (some floatLogSum) op n t none secs
        | some "0" => numeric floatC (some sm) (some floatLogSum) op n t none secs
        | some ks => match parseFloatBits ks with
          | some k => numeric floatC (some sm) (some floatLogSum) op n t (some k) secs
          | none => "bad-op"
      else "bad-op"
    | _, _ => "bad-op"
  | _ => "bad-op"

def main : IO Unit := mainLoop handle
