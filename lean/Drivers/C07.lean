import TTModel.Proto
import TTModel.C06_Heights
import TTModel.C07_Transforms
import TTModel.C07_Torch
/-!
C07 driver. Numbers: `p/q` in mode `R`, 16-hex bit patterns in mode `F`.

  vec <m> <transform> <what> | v…        transform ∈ cumsum cumsumexp softplus cumsumsoftplus log
                                          what ∈ fwd inv ld (ld takes x; element-wise transforms return a vector)
                                                 invold ldold (cumsumsoftplus: the unrepaired formulas)
  lograte <m> <n> <tree> fwd | x…        2n-2 values
  lograte <m> <n> <tree> ld | x…         scalar (repaired);  ldold | y… (unrepaired: -sum y)
  tril <m> fwd <d> | v…                  d*d entries, row-major
  tril <m> inv <d> | Y…                  d(d+1)/2 entries
  ratiold F <n> <tree> | s… | y…         log|det J| reported by the ratio transform
  torch F <spec> <what> | v…            element-wise torch transform applied to every entry; spec ∈ exp sigmoid
                                          softplus affine:<loc>:<scale> power:<e> or <spec>^-1 (the `.inv` wrapper);
                                          what ∈ fwd inv ld (ld: v are the x's, y = fwd x)
  torchc F <spec;spec;…> <what> | v…     ComposeTransform of element-wise parts; what ∈ fwd ld
  stick F fwd | x…  (n -> n+1)   stick F inv | y…  (n+1 -> n)   stick F ld | x…  (scalar)
  tp F <x0> <op>…                        op = s<hex> (wrapped parameter set + notification) | c (call)
                                          -> the values returned by the calls (ExpTransform: f = exp, ld x y = x)
-/
open TT TT.Proto TT.C06 TT.C07

structure Codec (α : Type) where
  parse : String → Option α
  show_ : α → String
def ratC : Codec Rat := ⟨parseRat, showRat⟩
def floatC : Codec Float := ⟨parseFloatBits, floatBits⟩

def vecOf {α} [Zero α] (l : List α) : Nat → α := fun i => l.getD i 0
def outV {α} (c : Codec α) (f : Nat → α) (len : Nat) : String :=
  " ".intercalate ((List.range len).map fun i => c.show_ (f i))

partial def parseTreeAux : List Char → Option (BTree × List Char)
  | '(' :: rest => do
      let (l, r1) ← parseTreeAux rest
      match r1 with
      | ',' :: r2 => do
          let (r, r3) ← parseTreeAux r2
          match r3 with
          | ')' :: r4 => pure (.node l r, r4)
          | _ => none
      | _ => none
  | cs =>
      let ds := cs.takeWhile Char.isDigit
      if ds.isEmpty then none else
      pure (.leaf (String.ofList ds).toNat!, cs.dropWhile Char.isDigit)
def parseTree (s : String) : Option BTree :=
  match parseTreeAux s.toList with
  | some (t, []) => some t
  | _ => none
def wellShaped (n : Nat) (t : BTree) : Bool :=
  t.tips.length == n && (t.tips.mergeSort (· ≤ ·)) == List.range n

/-- transforms that only add and subtract: run at `Rat` or `Float` -/
def vecArith {α} [Add α] [Sub α] [Mul α] [Div α] [Neg α] [Zero α] [One α]
    (c : Codec α) (tr what : String) (v : List α) : String :=
  let n := v.length
  let x := vecOf v
  match tr, what with
  | "cumsum", "fwd" => outV c (cumsumFwd x) n
  | "cumsum", "inv" => outV c (cumsumInv x) n
  | "cumsum", "ld" => c.show_ (cumsumLd n x x)
  | _, _ => "bad-op"

def vecFloat (tr what : String) (v : List Float) : String :=
  let c := floatC
  let n := v.length
  let x := vecOf v
  match tr, what with
  | "cumsumexp", "fwd" => outV c (cumsumexpFwd x) n
  | "cumsumexp", "inv" => outV c (cumsumexpInv x) n
  | "cumsumexp", "ld" => c.show_ (cumsumexpLd n x x)
  | "softplus", "fwd" => outV c (softplusFwd x) n
  | "softplus", "inv" => outV c (softplusInv x) n
  | "softplus", "ld" => outV c (softplusLd x x) n
  | "cumsumsoftplus", "fwd" => outV c (cumsumsoftplusFwd x) n
  | "cumsumsoftplus", "inv" => outV c (cumsumsoftplusInv x) n
  | "cumsumsoftplus", "ld" => c.show_ (cumsumsoftplusLd n x x)
  | "cumsumsoftplus", "invold" => outV c (cumsumsoftplusInvOld x) n
  | "cumsumsoftplus", "ldold" => c.show_ (cumsumsoftplusLdOld n x x)
  | "log", "fwd" => outV c (logFwd x) n
  | "log", "inv" => outV c (logInv x) n
  | "log", "ld" => outV c (logLd x (logFwd x)) n
  | _, _ => vecArith c tr what v

def tpRun (x0 : Float) (ops : List String) : Option (List String) := do
  let mut tp : TP Float := TP.init Float.exp x0
  let mut outs : List String := []
  for op in ops do
    if op == "c" then
      let (r, tp') := TP.call Float.exp (fun x _ => x) tp
      tp := tp'
      outs := outs ++ [floatBits r]
    else if op == "t" then
      let tp' := TP.refresh Float.exp tp
      tp := tp'
      outs := outs ++ [floatBits tp'.cached]
    else if op.startsWith "s" then
      let v ← parseFloatBits (op.drop 1).toString
      tp := TP.setX tp v
    else none
  pure outs

/-! torch transforms -/
open TT.C07.Torch in
def tinyF : Float := Float.ofBits 0x0010000000000000
open TT.C07.Torch in
def hiF : Float := Float.ofBits 0x3FEFFFFFFFFFFFFE  -- 1 - finfo.eps

/-- (forward, inverse, log-det) of an element-wise torch transform given by its spec -/
def torchSpec (spec : String) : Option ((Float → Float) × (Float → Float) × (Float → Float → Float)) :=
  open TT.C07.Torch in
  let (base, inverted) := if spec.endsWith "^-1" then ((spec.dropEnd 3).toString, true) else (spec, false)
  let t : Option ((Float → Float) × (Float → Float) × (Float → Float → Float)) :=
    match base.splitOn ":" with
    | ["exp"] => some (expFwd, expInv, expLd)
    | ["sigmoid"] => some (sigmoidFwd tinyF hiF, sigmoidInv tinyF hiF, sigmoidLd)
    | ["softplus"] => some (softplusFwdT, softplusInvT, softplusLdT)
    | ["affine", l, sc] => do
        let l ← parseFloatBits l; let sc ← parseFloatBits sc
        pure (affineFwd l sc, affineInv l sc, affineLd sc)
    | ["power", e] => do
        let e ← parseFloatBits e
        pure (powerFwd e, powerInv e, powerLd e)
    | _ => none
  t.map fun (f, g, ld) => if inverted then (g, f, invLd ld) else (f, g, ld)

def torchOp (spec what : String) (v : List Float) : String :=
  match torchSpec spec with
  | none => "bad-op"
  | some (f, g, ld) =>
    match what with
    | "fwd" => " ".intercalate (v.map fun x => floatBits (f x))
    | "inv" => " ".intercalate (v.map fun y => floatBits (g y))
    | "ld" => " ".intercalate (v.map fun x => floatBits (ld x (f x)))
    | _ => "bad-op"

def torchCompose (specs what : String) (v : List Float) : String :=
  open TT.C07.Torch in
  match (specs.splitOn ";").mapM torchSpec with
  | none => "bad-op"
  | some ts =>
    let parts : List (Part Float) := ts.map fun (f, _, ld) => ⟨f, ld⟩
    match what with
    | "fwd" => " ".intercalate (v.map fun x => floatBits (composeFwd parts x))
    | "ld" => " ".intercalate (v.map fun x => floatBits (composeLd parts x))
    | _ => "bad-op"

def stickOp (what : String) (v : List Float) : String :=
  open TT.C07.Torch in
  let x := vecOf v
  match what with
  | "fwd" => outV floatC (sbFwd tinyF hiF v.length x) (v.length + 1)
  | "inv" => if v.length = 0 then "bad-op" else outV floatC (sbInv tinyF (v.length - 1) x) (v.length - 1)
  | "ld" => floatBits (sbLd v.length x (sbFwd tinyF hiF v.length x))
  | _ => "bad-op"

def handle (line : String) : String :=
  match splitWords line with
  | "vec" :: m :: tr :: what :: "|" :: ws =>
    if m == "R" then match ws.mapM parseRat with
      | some v => vecArith ratC tr what v
      | none => "bad-op"
    else if m == "F" then match ws.mapM parseFloatBits with
      | some v => vecFloat tr what v
      | none => "bad-op"
    else "bad-op"
  | "lograte" :: "F" :: n :: tr :: what :: "|" :: ws =>
    match n.toNat?, parseTree tr, ws.mapM parseFloatBits with
    | some n, some t, some v =>
      if !wellShaped n t || n < 2 || v.length != 2 * n - 2 then "bad-op" else
      let m := 2 * n - 2
      match what with
      | "fwd" => outV floatC (lograteFwd m (preorder n t) (vecOf v)) m
      | "ld" => floatBits (lograteLd m (vecOf v) (vecOf v))
      | "ldold" => floatBits (lograteLdOld m (vecOf v) (vecOf v))
      | _ => "bad-op"
    | _, _, _ => "bad-op"
  | "tril" :: "F" :: "fwd" :: d :: "|" :: ws =>
    match d.toNat?, ws.mapM parseFloatBits with
    | some d, some v =>
      if v.length != d * (d + 1) / 2 then "bad-op" else
      " ".intercalate ((List.range d).flatMap fun r => (List.range d).map fun c => floatBits (trilFwd (vecOf v) r c))
    | _, _ => "bad-op"
  | "tril" :: "F" :: "inv" :: d :: "|" :: ws =>
    match d.toNat?, ws.mapM parseFloatBits with
    | some d, some v =>
      if v.length != d * d then "bad-op" else
      outV floatC (trilInv (fun r c => (vecOf v) (r * d + c))) (d * (d + 1) / 2)
    | _, _ => "bad-op"
  | "ratiold" :: "F" :: n :: tr :: "|" :: rest =>
    match n.toNat?, parseTree tr with
    | some n, some t =>
      if !wellShaped n t || n < 2 then "bad-op" else
      let (s, y) := (rest.takeWhile (· ≠ "|"), (rest.dropWhile (· ≠ "|")).drop 1)
      match s.mapM parseFloatBits, y.mapM parseFloatBits with
      | some s, some y =>
        if s.length != n || y.length != n - 1 then "bad-op" else
        let b := vecOf ((List.range (2 * n - 1)).map (bounds n (vecOf s) (postorder n t)))
        floatBits (ratioLd (ratioDetTerms n b (detIndices n t) (vecOf y)))
      | _, _ => "bad-op"
    | _, _ => "bad-op"
  | "torch" :: "F" :: spec :: what :: "|" :: ws =>
    match ws.mapM parseFloatBits with
    | some v => torchOp spec what v
    | none => "bad-op"
  | "torchc" :: "F" :: specs :: what :: "|" :: ws =>
    match ws.mapM parseFloatBits with
    | some v => torchCompose specs what v
    | none => "bad-op"
  | "stick" :: "F" :: what :: "|" :: ws =>
    match ws.mapM parseFloatBits with
    | some v => stickOp what v
    | none => "bad-op"
  | "tp" :: "F" :: x0 :: ops =>
    match parseFloatBits x0 with
    | some x0 => match tpRun x0 ops with
      | some outs => " ".intercalate outs
      | none => "bad-op"
    | none => "bad-op"
  | _ => "bad-op"

def main : IO Unit := mainLoop handle
