import TTModel.Proto
/-! C07 driver — stub (not built yet): answers `bad-op` to everything. -/
def main : IO Unit := TT.Proto.mainLoop fun _ => "bad-op"
