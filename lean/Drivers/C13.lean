import TTModel.Proto
import TTModel.C13_Json
import TTModel.C13_Loader
import TTModel.C13_Codec
import TTGen.C13_LoaderCfg
/-! C13 driver: remove_comments / expand_plates / loader, on wire-encoded JSON (see C13_Codec). -/
open TT.Proto TT.C13 TT.C13.Json

def showSlot : Slot → String
  | .one k => s!"one:{k}"
  | .many k => s!"many:{k}"
  | .optOne k => s!"optOne:{k}"
  | .optMany k => s!"optMany:{k}"
  | .each k => s!"each:{k}"
  | .need k => s!"need:{k}"
  | .oneUnless k o => s!"oneUnless:{k}:{o}"
  | .firstOf alts => "firstOf:" ++ ",".intercalate (alts.map fun (k, b) => k ++ (if b then "+" else "-"))
  | .sub k b m => s!"sub:{k}:{b}:" ++ (match m with | .dist => "dist" | .transform => "transform")

def showClasses (t : ClassTable) : String :=
  " ".intercalate (t.classes.map fun (n, c) =>
      s!"{n}={c.name}" ++ (match c.selfRegAfter with | some k => s!"@{k}" | none => "") ++
      "[" ++ ";".intercalate (c.slots.map showSlot) ++ "]")
    ++ " | " ++ " ".intercalate (t.sigs.map fun (n, a) => s!"{n}=" ++ ",".intercalate a)

partial def showErr : Err → String
  | .notFound r => s!"notFound:{hexOfString r}"
  | .duplicate i => s!"duplicate:{hexOfString i}"
  | .missingId => "missingId"
  | .noType i => s!"noType:{hexOfString i}"
  | .badClass i => s!"badClass:{hexOfString i}"
  | .notValid => "notValid"
  | .missingKey c i k => s!"missingKey:{hexOfString c}:{hexOfString i}:{hexOfString k}"
  | .wrapped c i e => s!"wrapped:{hexOfString c}:{hexOfString i} " ++ showErr e
  | .keyError k => s!"keyError:{hexOfString k}"
  | .crash => "crash"
  | .fuel => "fuel"

def showAddrs (as : List Addr) : String := ".".intercalate (as.map toString)

def showSt (st : St) : String :=
  "reg " ++ ",".intercalate (st.reg.map fun (k, a) => s!"{hexOfString k}:{a}") ++
  " heap " ++ ",".intercalate (st.heap.map fun o =>
    s!"{hexOfString o.cls}:{hexOfString o.id}:" ++
      ";".intercalate (o.kids.map fun (k, as) => s!"{hexOfString k}={showAddrs as}"))

def parseCfg : String → Option Cfg
  | "src" => some TTGen.C13.cfg
  | "fixed" => some Cfg.fixed
  | "unfixed" => some Cfg.unfixed
  | _ => none

def showPlateErr : PlateErr → String
  | .notInList => "notInList" | .crash => "crash" | .fuel => "fuel"

def handle (line : String) : String :=
  match splitWords line with
  | ["classes"] => showClasses classTable
  | ["cfg"] => s!"{TTGen.C13.cfg.checkBefore} {TTGen.C13.cfg.checkAfter} {TTGen.C13.cfg.afterIsIdentity} {TTGen.C13.recognised}"
  | "rc" :: toks => match decodeAll toks with
    | some j => encodeStr (removeComments j)
    | none => "bad-op"
  | "clean" :: toks => match decodeAll toks with
    | some j => if clean j then "1" else "0"
    | none => "bad-op"
  | "plates" :: toks => match decodeAll toks with
    | some j => match expandPlatesFuel (4 * size j + 1000) (size j + 10) j with
      | .ok j' => "ok " ++ encodeStr j'
      | .error e => "err " ++ showPlateErr e
    | none => "bad-op"
  /- `load <cfg> <json list>`: the loop of main() on data already cleaned/expanded -/
  | "load" :: c :: toks => match parseCfg c, decodeAll toks with
    | some cfg, some (.arr xs) =>
      let fuel := depthList xs + 2
      match loadAll cfg classTable fuel xs ⟨[], []⟩ with
      | .ok (rs, st) => "ok results " ++ ",".intercalate (rs.map fun r => "r" ++ showAddrs r) ++ " " ++ showSt st
      | .error e => "err " ++ showErr e
    | _, _ => "bad-op"
  /- `main <cfg> <json>`: remove_comments, expand_plates, then the loop -/
  | "main" :: c :: toks => match parseCfg c, decodeAll toks with
    | some cfg, some j =>
      match preprocess (4 * size j + 1000) (size j + 10) j with
      | .error e => "plate-err " ++ showPlateErr e
      | .ok (.arr xs) =>
        let fuel := depthList xs + 2
        (match loadAll cfg classTable fuel xs ⟨[], []⟩ with
         | .ok (rs, st) => "ok results " ++ ",".intercalate (rs.map fun r => "r" ++ showAddrs r) ++ " " ++ showSt st
         | .error e => "err " ++ showErr e)
      | .ok _ => "bad-op"
    | _, _ => "bad-op"
  | _ => "bad-op"

def main : IO Unit := mainLoop handle
