import TTModel.Proto
import TTModel.C08_Coalescent
import TTModel.C08_Linear
import TTModel.C08_Soft
/-!
C08 driver.  Request: `<op> <F|Q> <numbers> | <numbers> | <numbers>`  (groups separated by `|`).
`F`: numbers are 16-hex-digit IEEE bit patterns, the model runs at `Float`;
`Q`: numbers are `p/q`, the model runs at `Rat` (ops without `log`/`exp` only).

  events  X | heights | grid      -> `marks … lin … ridx … gidx …` (sorted mask, lineage counts, skyride and
                                      skygrid theta indices) — discrete, exact
  terms   X | heights | grid      -> the per-interval products `lchoose2 * durations`
  const   F theta | heights                   constI  X theta | heights          (interval part only)
  skyride F thetas | heights                  skyrideI X thetas | heights
  skygrid F thetas | heights | grid           skygridI X thetas | heights | grid
  exp     F theta g | heights
  soft    F tau | thetas | heights | grid     (SoftPiecewiseConstantCoalescentGrid with a temperature)
  linear  F thetas | heights | grid          (PiecewiseLinearCoalescentGrid; `linearpops`: sizes per sorted event)
-/
open TT TT.Proto TT.C08

def splitGroups (ws : List String) : List (List String) :=
  let rec go (ws : List String) (cur : List String) (acc : List (List String)) : List (List String) :=
    match ws with
    | [] => (cur.reverse :: acc).reverse
    | w :: rest => if w = "|" then go rest [] (cur.reverse :: acc) else go rest (w :: cur) acc
  go ws [] []

def showInts (l : List Int) : String := ",".intercalate (l.map toString)
def showNats (l : List Nat) : String := ",".intercalate (l.map toString)

def evReply {α : Type} [LE α] [DecidableLE α] (heights grid : List α) : String :=
  let ev := sortEvents (mkEvents heights grid)
  s!"marks {showInts (marks ev)} lin {showInts (lineages ev)} ridx {showNats (skyrideIdx ev)} gidx {showNats (skygridIdx ev)}"

def termsOf {α : Type} [LE α] [DecidableLE α] [Sub α] [Mul α] [Div α] [IntCast α] [OfNat α 2]
    (heights grid : List α) : List α :=
  let ev := sortEvents (mkEvents heights grid)
  List.zipWith (fun k d => (choose2 k : α) * d) (lineages ev) (diffs (times ev))

def oddLen {α} (h : List α) : Bool := h.length % 2 == 1

def handleF (op : String) (g : List (List Float)) : Option String :=
  match op, g with
  | "events", [[], h, grid] => if oddLen h then some (evReply h grid) else none
  | "terms", [[], h, grid] =>
      if oddLen h then some (" ".intercalate ((termsOf h grid).map floatBits)) else none
  | "const", [[θ], h] => if oddLen h then some (floatBits (constantLogProb θ h)) else none
  | "constI", [[θ], h] => if oddLen h then some (floatBits (constantIntegral θ h)) else none
  | "skyride", [θ, h] => if oddLen h then some (floatBits (skyrideLogProb θ h)) else none
  | "skyrideI", [θ, h] => if oddLen h then some (floatBits (skyrideIntegral θ h)) else none
  | "skygrid", [θ, h, grid] => if oddLen h then some (floatBits (skygridLogProb θ grid h)) else none
  | "skygridI", [θ, h, grid] => if oddLen h then some (floatBits (skygridIntegral θ grid h)) else none
  | "exp", [[θ, gr], h] => if oddLen h then some (floatBits (exponentialLogProb θ gr h)) else none
  | "linear", [θ, h, grid] =>
      if oddLen h && θ.length == grid.length + 1 then some (floatBits (linearLogProb θ grid h)) else none
  | "soft", [[τ], θ, h, grid] =>
      if oddLen h && θ.length == grid.length + 1 then some (floatBits (softLogProb τ θ grid h)) else none
  | "softstat", [[τ], h, grid] => if oddLen h then some (floatBits (softStat τ grid h)) else none
  | "softweights", [[τ, t], grid] => some (" ".intercalate ((pieceWeights τ grid t).map floatBits))
  | "linearpops", [θ, h, grid] =>
      if oddLen h && θ.length == grid.length + 1 then
        some (" ".intercalate ((popSizes θ grid (linearSorted h grid)).map floatBits))
      else none
  | _, _ => none

def handleQ (op : String) (g : List (List Rat)) : Option String :=
  match op, g with
  | "events", [[], h, grid] => if oddLen h then some (evReply h grid) else none
  | "terms", [[], h, grid] =>
      if oddLen h then some (" ".intercalate ((termsOf h grid).map showRat)) else none
  | "constI", [[θ], h] => if oddLen h then some (showRat (constantIntegral θ h)) else none
  | "skyrideI", [θ, h] => if oddLen h then some (showRat (skyrideIntegral θ h)) else none
  | "skygridI", [θ, h, grid] => if oddLen h then some (showRat (skygridIntegral θ grid h)) else none
  | _, _ => none

def handle (line : String) : String :=
  match splitWords line with
  | op :: "F" :: rest =>
    match (splitGroups rest).mapM (fun g => g.mapM parseFloatBits) with
    | some g => (handleF op g).getD "bad-op"
    | none => "bad-op"
  | op :: "Q" :: rest =>
    match (splitGroups rest).mapM (fun g => g.mapM parseRat) with
    | some g => (handleQ op g).getD "bad-op"
    | none => "bad-op"
  | _ => "bad-op"

def main : IO Unit := mainLoop handle
