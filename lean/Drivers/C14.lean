import TTModel.Proto
import TTModel.C14_Objectives
import TTModel.C14_Protocol
import TTGen.C11_Wiring
/-!
C14 driver: the objective estimators at `Float`.  Floats as 16-hex-digit bit patterns.
  elbo  <w>*                  elbom <S> <K> <w>*(row-major)
  vr1 <a> <w>*                vr <a> <S> <K> <w>*        vrsum <a> <S> <K> <w>*
  cubo <n> <w>*
  klpq <w>*                   klpq2 <S> <K> <w>*         klpq2b <S> <K> <w>*
  entropy <S> <logp>*S <h>*
  score <N> <logp>*N <logq>*N        klimp <N> <logp>*N <logq>*N   (flattened samples)
  proto <0|1 guarded> <r|n>*  -> draw index answering each request
  guarded <Class>             -> 1 if the generated row has a flag guard in __call__
-/
open TT TT.C14 TT.Proto

def floats (ws : List String) : Option (List Float) := ws.mapM parseFloatBits

def rows (S K : Nat) (l : List Float) : Option (List (List Float)) :=
  if l.length ≠ S * K then none else
  some ((List.range S).map fun s => (l.drop (s * K)).take K)

def out (x : Float) : String := floatBits x

def handle (line : String) : String :=
  match splitWords line with
  | "elbo" :: ws => match floats ws with | some w => out (elbo w) | none => "bad-op"
  | "elbom" :: s :: k :: ws =>
    match s.toNat?, k.toNat?, floats ws with
    | some S, some K, some l => match rows S K l with | some w => out (elboMulti w) | none => "bad-op"
    | _, _, _ => "bad-op"
  | "vr1" :: a :: ws => match parseFloatBits a, floats ws with
    | some a, some w => out (vr1 a w) | _, _ => "bad-op"
  | "vr" :: a :: s :: k :: ws =>
    match parseFloatBits a, s.toNat?, k.toNat?, floats ws with
    | some a, some S, some K, some l => match rows S K l with | some w => out (vr a w) | none => "bad-op"
    | _, _, _, _ => "bad-op"
  | "vrsum" :: a :: s :: k :: ws =>
    match parseFloatBits a, s.toNat?, k.toNat?, floats ws with
    | some a, some S, some K, some l => match rows S K l with | some w => out (vrSum a w) | none => "bad-op"
    | _, _, _, _ => "bad-op"
  | "cubo" :: n :: ws => match parseFloatBits n, floats ws with
    | some n, some w => out (cubo n w) | _, _ => "bad-op"
  | "klpq" :: ws => match floats ws with | some w => out (klpq w) | none => "bad-op"
  | "klpq2" :: s :: k :: ws =>
    match s.toNat?, k.toNat?, floats ws with
    | some S, some K, some l => match rows S K l with | some w => out (klpq2 w) | none => "bad-op"
    | _, _, _ => "bad-op"
  | "klpq2b" :: s :: k :: ws =>
    match s.toNat?, k.toNat?, floats ws with
    | some S, some K, some l => match rows S K l with | some w => out (klpq2Broadcast w) | none => "bad-op"
    | _, _, _ => "bad-op"
  | "score" :: n :: ws =>
    match n.toNat?, floats ws with
    | some N, some l => if l.length ≠ 2 * N then "bad-op" else out (elboScore (l.take N) (l.drop N))
    | _, _ => "bad-op"
  | "klimp" :: n :: ws =>
    match n.toNat?, floats ws with
    | some N, some l => if l.length ≠ 2 * N then "bad-op" else out (klpqImportance (l.take N) (l.drop N))
    | _, _ => "bad-op"
  | "entropy" :: s :: ws =>
    match s.toNat?, floats ws with
    | some S, some l => if l.length < S then "bad-op" else out (elboEntropy (l.take S) (l.drop S))
    | _, _ => "bad-op"
  | "proto" :: g :: evs =>
    let ev? := evs.mapM fun e => if e = "r" then some Ev.request else if e = "n" then some Ev.notify else none
    match g, ev? with
    | "0", some es => " ".intercalate ((runObj false initObj es).map toString)
    | "1", some es => " ".intercalate ((runObj true initObj es).map toString)
    | _, _ => "bad-op"
  | ["guarded", n] =>
    let c := TTGen.C11_Wiring.find n
    if c.name != n then "bad-op" else if c.guards.any (fun g => g.impl == "__call__") then "1" else "0"
  | _ => "bad-op"

def main : IO Unit := mainLoop handle
