import TTModel.Proto
import TTModel.C10_Shapes
/-! C10 driver: shapes are comma separated (`-` = the empty shape), lists of shapes `;` separated
(`none` = the empty list).

* `longest <shapes>`                       → shape
* `container <param shapes> <model shapes>` → shape
* `dist <x> <batch> <eventLen>`            → shape
* `plan <L> <C> <J>`                       → `<plan> <piece shape>` | `<plan> error:<kind>`
* `classify <L> <C> <J> <nSample>`         → `<verdict> cut=<n>`
* `joint <J|auto> <L1>/<C1> <L2>/<C2> …`   → `shape <s> sup <c>.<flat>+…;…` (one group per output entry,
                                              row-major; entries of component c are numbered row-major) | `error:<kind>`
-/
open TT.Proto TT.C10

def parseShape (w : String) : Option Shape :=
  if w = "-" then some [] else (w.splitOn ",").mapM String.toNat?

def showShape (s : Shape) : String :=
  if s.isEmpty then "-" else ",".intercalate (s.map toString)

def parseShapes (w : String) : Option (List Shape) :=
  if w = "none" then some [] else (w.splitOn ";").mapM parseShape

def showPlan : Plan → String
  | .unsqueezeLast => "unsqueezeLast" | .unsqueeze0 => "unsqueeze0" | .flattenSum n => s!"flattenSum{n}"
  | .sumLast => "sumLast" | .expand => "expand" | .squeeze0 => "squeeze0" | .keep => "keep"

def showErr : Err → String
  | .catEmpty => "catEmpty" | .catZeroDim => "catZeroDim" | .catNdim => "catNdim" | .catSize => "catSize"
  | .expandSize => "expandSize"

def showVerdict : Verdict → String
  | .perSample => "perSample" | .addToAll => "addToAll" | .mixes => "mixes" | .keepsEvent => "keepsEvent"
  | .other => "other"

/-- free commutative-monoid-like scalars: which (component, entry) pairs were added -/
structure Sup where
  l : List (Nat × Nat)
instance : Add Sup := ⟨fun a b => ⟨a.l ++ b.l⟩⟩
instance : Zero Sup := ⟨⟨[]⟩⟩

def flatIndex : Shape → List Nat → Nat
  | d :: ds, i :: is => i * (ds.foldl (· * ·) 1) + flatIndex ds is
  | _, _ => 0

def sentinel (c : Nat) (shape : Shape) : Tensor Sup :=
  ⟨shape, fun i => ⟨[(c, flatIndex shape i)]⟩⟩

def insertSorted (x : Nat × Nat) : List (Nat × Nat) → List (Nat × Nat)
  | [] => [x]
  | y :: ys => if x.1 < y.1 ∨ (x.1 = y.1 ∧ x.2 ≤ y.2) then x :: y :: ys else y :: insertSorted x ys

def sortPairs (l : List (Nat × Nat)) : List (Nat × Nat) := l.foldr insertSorted []

def showSup (s : Sup) : String :=
  "+".intercalate ((sortPairs s.l).map fun p => s!"{p.1}.{p.2}")

def parseComp (w : String) : Option (Shape × Shape) :=
  match w.splitOn "/" with
  | [l, c] => do pure (← parseShape l, ← parseShape c)
  | _ => none

def handle (line : String) : String :=
  match splitWords line with
  | ["longest", ss] => match parseShapes ss with
    | some l => showShape (longest l)
    | none => "bad-op"
  | ["container", ps, ms] => match parseShapes ps, parseShapes ms with
    | some p, some m => showShape (containerSampleShape p m)
    | _, _ => "bad-op"
  | ["dist", x, b, e] => match parseShape x, parseShape b, e.toNat? with
    | some x, some b, some e => showShape (distSampleShape x b e)
    | _, _, _ => "bad-op"
  | ["plan", l, c, j] => match parseShape l, parseShape c, parseShape j with
    | some l, some c, some j =>
      let p := choosePlan l c j
      match applyPlan p j (sentinel 0 l) with
      | .ok t => s!"{showPlan p} {showShape t.shape}"
      | .error e => s!"{showPlan p} error:{showErr e}"
    | _, _, _ => "bad-op"
  | ["classify", l, c, j, n] => match parseShape l, parseShape c, parseShape j, n.toNat? with
    | some l, some c, some j, some n => s!"{showVerdict (classify l c j n)} cut={cut l c}"
    | _, _, _, _ => "bad-op"
  | "joint" :: j :: comps =>
    match comps.mapM parseComp with
    | none => "bad-op"
    | some cs =>
      let comps : List (Component Sup) := (List.range cs.length).zip cs |>.map fun (i, lc) => ⟨sentinel i lc.1, lc.2⟩
      let r := if j = "auto" then some (joint comps) else (parseShape j).map fun j => jointWith j comps
      match r with
      | none => "bad-op"
      | some (.error e) => s!"error:{showErr e}"
      | some (.ok t) =>
        s!"shape {showShape t.shape} sup {";".intercalate ((indices t.shape).map fun s => showSup (t.get s))}"
  | _ => "bad-op"

def main : IO Unit := mainLoop handle
