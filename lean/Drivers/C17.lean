import TTModel.Proto
import TTModel.C17_Codec
import TTModel.C17_Resume
import TTModel.C17_Reinject
import TTGen.C17_StateKeys
/-!
C17 driver.  Values cross the pipe as a prefix token stream (space separated):
  N | T | F | I <int> | D <16 hex> | S <codepoints joined by '.' or '-'> |
  L <n> v… | U <n> v… | M <n> (KI <int> | KS <str>) v … | X <dtype> <0|1> v | P <str> <dtype> <0|1> v
JSON trees use the same tokens (arrays `L`, objects `M` with `KS` keys).
Ops:
  codec <dflt> <val>       -> `ok <val>` = decode (encode v), or `raise`
  canon <dflt> <val>       -> same through `canon`
  encode <val>             -> the JSON tree
  decode <dflt> <json>     -> `ok <val>` | `raise`
  intkeys <val>            -> dictionary with integer keys given back (top level)
  attached <val> <int>     -> 1/0: a parameter with that index finds state in this dictionary
  keys <class> <cond>*     -> `W k,… R k,…` keys written / read when exactly those conditions hold
  classok <class>          -> 1/0
  loop <name> <iters> <k>  -> saved counter and the labels the restarted run visits
  tables                   -> names of generated classes and loops
  reinject <dflt> <spec json> || <saved entry json>  -> `ok <val>` | `raise`: Parameter.from_json(update_parameters(spec))
-/
open TT.C17 TT.Proto

def encStr (s : String) : String :=
  if s.isEmpty then "-" else ".".intercalate (s.toList.map fun c => toString c.toNat)

def decStr (w : String) : Option String :=
  if w = "-" then some "" else
  (w.splitOn ".").foldl (fun acc p => do
    let a ← acc
    let n ← p.toNat?
    pure (a.push (Char.ofNat n))) (some "")

def showDT : DType → String
  | .float16 => "float16" | .float32 => "float32" | .float64 => "float64"
  | .int32 => "int32" | .int64 => "int64" | .bool => "bool"

def parseDT (s : String) : Option DType := DType.parse s

def hex16 (n : Nat) : String := toHex16 n.toUInt64

def valsLen : Vals → Nat
  | .nil => 0
  | .cons _ r => valsLen r + 1
def kvsLen : KVs → Nat
  | .nil => 0
  | .cons _ _ r => kvsLen r + 1
def jsonsLen : Jsons → Nat
  | .nil => 0
  | .cons _ r => jsonsLen r + 1
def jkvsLen : JKVs → Nat
  | .nil => 0
  | .cons _ _ r => jkvsLen r + 1

mutual
partial def showVal : Val → List String
  | .none => ["N"]
  | .bool true => ["T"]
  | .bool false => ["F"]
  | .int n => ["I", toString n]
  | .float x => ["D", hex16 x]
  | .str s => ["S", encStr s]
  | .list xs => ["L", toString (valsLen xs)] ++ showVals xs
  | .tuple xs => ["U", toString (valsLen xs)] ++ showVals xs
  | .dict kvs => ["M", toString (kvsLen kvs)] ++ showKVs kvs
  | .tensor dt nn d => ["X", showDT dt, if nn then "1" else "0"] ++ showVal d
  | .param id dt nn d => ["P", encStr id, showDT dt, if nn then "1" else "0"] ++ showVal d
partial def showVals : Vals → List String
  | .nil => []
  | .cons v r => showVal v ++ showVals r
partial def showKVs : KVs → List String
  | .nil => []
  | .cons (.int n) v r => ["KI", toString n] ++ showVal v ++ showKVs r
  | .cons (.str s) v r => ["KS", encStr s] ++ showVal v ++ showKVs r
end

mutual
partial def showJson : Json → List String
  | .null => ["N"]
  | .bool true => ["T"]
  | .bool false => ["F"]
  | .int n => ["I", toString n]
  | .float x => ["D", hex16 x]
  | .str s => ["S", encStr s]
  | .arr xs => ["L", toString (jsonsLen xs)] ++ showJsons xs
  | .obj kvs => ["M", toString (jkvsLen kvs)] ++ showJKVs kvs
partial def showJsons : Jsons → List String
  | .nil => []
  | .cons v r => showJson v ++ showJsons r
partial def showJKVs : JKVs → List String
  | .nil => []
  | .cons k v r => ["KS", encStr k] ++ showJson v ++ showJKVs r
end

def parseBit : String → Option Bool
  | "1" => some true | "0" => some false | _ => none

mutual
partial def parseVal : List String → Option (Val × List String)
  | "N" :: r => some (.none, r)
  | "T" :: r => some (.bool true, r)
  | "F" :: r => some (.bool false, r)
  | "I" :: n :: r => n.toInt?.map fun n => (.int n, r)
  | "D" :: h :: r => (parseHex h).map fun n => (.float n, r)
  | "S" :: s :: r => (decStr s).map fun s => (.str s, r)
  | "L" :: n :: r => do
      let n ← n.toNat?
      let (xs, r) ← parseVals n r
      pure (.list xs, r)
  | "U" :: n :: r => do
      let n ← n.toNat?
      let (xs, r) ← parseVals n r
      pure (.tuple xs, r)
  | "M" :: n :: r => do
      let n ← n.toNat?
      let (kvs, r) ← parseKVs n r
      pure (.dict kvs, r)
  | "X" :: dt :: nn :: r => do
      let dt ← parseDT dt
      let nn ← parseBit nn
      let (d, r) ← parseVal r
      pure (.tensor dt nn d, r)
  | "P" :: id :: dt :: nn :: r => do
      let id ← decStr id
      let dt ← parseDT dt
      let nn ← parseBit nn
      let (d, r) ← parseVal r
      pure (.param id dt nn d, r)
  | _ => none
partial def parseVals : Nat → List String → Option (Vals × List String)
  | 0, r => some (.nil, r)
  | n + 1, r => do
      let (v, r) ← parseVal r
      let (vs, r) ← parseVals n r
      pure (.cons v vs, r)
partial def parseKVs : Nat → List String → Option (KVs × List String)
  | 0, r => some (.nil, r)
  | n + 1, "KI" :: k :: r => do
      let k ← k.toInt?
      let (v, r) ← parseVal r
      let (kvs, r) ← parseKVs n r
      pure (.cons (.int k) v kvs, r)
  | n + 1, "KS" :: k :: r => do
      let k ← decStr k
      let (v, r) ← parseVal r
      let (kvs, r) ← parseKVs n r
      pure (.cons (.str k) v kvs, r)
  | _, _ => none
end

mutual
partial def parseJson : List String → Option (Json × List String)
  | "N" :: r => some (.null, r)
  | "T" :: r => some (.bool true, r)
  | "F" :: r => some (.bool false, r)
  | "I" :: n :: r => n.toInt?.map fun n => (.int n, r)
  | "D" :: h :: r => (parseHex h).map fun n => (.float n, r)
  | "S" :: s :: r => (decStr s).map fun s => (.str s, r)
  | "L" :: n :: r => do
      let n ← n.toNat?
      let (xs, r) ← parseJsons n r
      pure (.arr xs, r)
  | "M" :: n :: r => do
      let n ← n.toNat?
      let (kvs, r) ← parseJKVs n r
      pure (.obj kvs, r)
  | _ => none
partial def parseJsons : Nat → List String → Option (Jsons × List String)
  | 0, r => some (.nil, r)
  | n + 1, r => do
      let (v, r) ← parseJson r
      let (vs, r) ← parseJsons n r
      pure (.cons v vs, r)
partial def parseJKVs : Nat → List String → Option (JKVs × List String)
  | 0, r => some (.nil, r)
  | n + 1, "KS" :: k :: r => do
      let k ← decStr k
      let (v, r) ← parseJson r
      let (kvs, r) ← parseJKVs n r
      pure (.cons k v kvs, r)
  | _, _ => none
end

def fullVal (ws : List String) : Option Val :=
  match parseVal ws with
  | some (v, []) => some v
  | _ => none

def fullJson (ws : List String) : Option Json :=
  match parseJson ws with
  | some (v, []) => some v
  | _ => none

def showOpt : Option Val → String
  | some v => "ok " ++ " ".intercalate (showVal v)
  | none => "raise"

def findClass (n : String) : Option ClassKeys :=
  TTGen.C17_StateKeys.classes.find? fun c => c.name == n

def findLoop (n : String) : Option LoopSpec :=
  TTGen.C17_StateKeys.loops.find? fun l => l.name == n

def handle (line : String) : String :=
  match splitWords line with
  | "codec" :: dflt :: ws =>
    match parseDT dflt, fullVal ws with
    | some d, some v => showOpt (decode d (encode v))
    | _, _ => "bad-op"
  | "canon" :: dflt :: ws =>
    match parseDT dflt, fullVal ws with
    | some d, some v => showOpt (canon d v)
    | _, _ => "bad-op"
  | "encode" :: ws =>
    match fullVal ws with
    | some v => " ".intercalate (showJson (encode v))
    | none => "bad-op"
  | "decode" :: dflt :: ws =>
    match parseDT dflt, fullJson ws with
    | some d, some j => showOpt (decode d j)
    | _, _ => "bad-op"
  | "intkeys" :: ws =>
    match fullVal ws with
    | some (.dict d) => " ".intercalate (showVal (.dict d.intKeys))
    | _ => "bad-op"
  | "attached" :: ws =>
    match ws.reverse with
    | i :: rest =>
      match i.toInt?, fullVal rest.reverse with
      | some i, some (.dict d) => if (attached d i).isSome then "1" else "0"
      | _, _ => "bad-op"
    | [] => "bad-op"
  | "keys" :: cls :: conds =>
    match findClass cls with
    | some c =>
      let en := fun (s : String) => s == "" || (s.splitOn "&").all fun p => conds.contains p
      match c.delegateW with
      | some a => s!"delegate {a}"
      | none =>
        let w := (c.written.filter fun e => en e.cond).map (·.key)
        let r := (c.read.filter fun e => en e.cond).map (·.key)
        s!"W {",".intercalate w} R {",".intercalate r}"
    | none => "bad-op"
  | ["classok", cls] =>
    match findClass cls with
    | some c => if c.ok then "1" else "0"
    | none => "bad-op"
  | ["loop", name, iters, k] =>
    match findLoop name, iters.toNat?, k.toNat? with
    | some l, some n, some k =>
      let c := savedCounter l k
      let labels := (resumedRun (fun _ (s : Nat) => s) n c 0).map (·.1)
      let ev := fun (e : LoopEvent) => match e with
        | .step => "step" | .decide => "decide" | .logger => "logger" | .tune => "tune" | .scheduler => "scheduler"
        | .convergence => "convergence" | .adapt => "adapt" | .snapshot => "snapshot" | .increment => "increment"
        | .save => "save" | .other => "other"
      s!"counter {c} labels {",".intercalate (labels.map toString)} order {",".intercalate ((l.events.filter (· != .other)).map ev)} storesNext {l.storesNext}"
    | _, _, _ => "bad-op"
  | "reinject" :: dflt :: ws =>
    match parseDT dflt, ws.splitOn "||" with
    | some d, [a, b] =>
      match fullJson a, fullJson b with
      | some spec, some (.obj saved) =>
        let ck := fun (i : String) => match saved.lookup "id" with
          | some (.str j) => if i = j then some saved else none
          | _ => none
        showOpt (paramFromSpec d (updateParams ck spec))
      | _, _ => "bad-op"
    | _, _ => "bad-op"
  | "reinject-nested" :: dflt :: ws =>
    -- the entry of the saved parameter is defined inline inside another Parameter entry: update the outer one, then
    -- rebuild the first inline `…_like` definition
    match parseDT dflt, ws.splitOn "||" with
    | some d, [a, b] =>
      match fullJson a, fullJson b with
      | some spec, some (.obj saved) =>
        let ck := fun (i : String) => match saved.lookup "id" with
          | some (.str j) => if i = j then some saved else none
          | _ => none
        match updateParams ck spec with
        | .obj out =>
          let inner := ["full_like", "zeros_like", "ones_like", "eye_like"].findSome? (fun k => out.lookup k)
          match inner with
          | some j => showOpt (paramFromSpec d j)
          | none => "no-inline"
        | _ => "bad-op"
      | _, _ => "bad-op"
    | _, _ => "bad-op"
  | ["tables"] =>
    let cs := TTGen.C17_StateKeys.classes.map (·.name)
    let ls := TTGen.C17_StateKeys.loops.map (·.name)
    let na := TTGen.C17_StateKeys.notInstantiable.map (·.1)
    s!"classes {",".intercalate cs} loops {",".intercalate ls} abstract {",".intercalate na} ok {TTGen.C17_StateKeys.translatorOk}"
  | _ => "bad-op"

def main : IO Unit := mainLoop handle
