import TTModel.Proto
import TTModel.C09_BDSK
import TTModel.C09_Options
import TTGen.C09_Options
/-!
C09 driver (Float).  Floats cross the pipe as 16-hex-digit bit patterns.
  logprob <m> <survival 0|1> <hasr 0|1> lam×m mu×m psi×m rho×m [r×m] times×(m+1) <ntips> tips… <nints> ints…
      -> `<value> ix i,… iy i,… rhotip b,… n c,… N c,…`
  pab <m> lam×m mu×m psi×m rho×m times×(m+1)   -> `p h,…(m+1) A h,…(m) B h,…(m)`
  epi <R> <delta> <s> [<r>]                     -> `lam mu psi`
  opts                                          -> per class `name:ok` and translatorOk
  constlogprob <survival> lam mu psi rho T <ntips> tips… <nints> ints… -> value of the constant-rate model (BirthDeath.log_prob)
  refine <m> <i> <s> lam×m mu×m psi×m rho×m times×(m+1) -> `lam … mu … psi … rho … times …` of the grid with epoch i cut at s
-/
open TT.C09 TT.Proto

def arr (xs : List Float) : Nat → Float := fun i => xs.getD i 0.0

def takeFloats (n : Nat) (ws : List String) : Option (List Float × List String) :=
  if ws.length < n then none else
  match (ws.take n).mapM parseFloatBits with
  | some fs => some (fs, ws.drop n)
  | none => none

def commaF (xs : List Float) : String := ",".intercalate (xs.map floatBits)
def commaN (xs : List Nat) : String := ",".intercalate (xs.map toString)
def commaI (xs : List Int) : String := ",".intercalate (xs.map toString)

def handle (line : String) : String :=
  match splitWords line with
  | "logprob" :: m :: sv :: hr :: rest =>
    match m.toNat?, sv, hr with
    | some m, sv, hr =>
      if m = 0 ∨ ¬ (sv = "0" ∨ sv = "1") ∨ ¬ (hr = "0" ∨ hr = "1") then "bad-op" else
      let r? := do
        let (lam, ws) ← takeFloats m rest
        let (mu, ws) ← takeFloats m ws
        let (psi, ws) ← takeFloats m ws
        let (rho, ws) ← takeFloats m ws
        let (rr, ws) ← (if hr = "1" then takeFloats m ws else some ([], ws))
        let (times, ws) ← takeFloats (m + 1) ws
        match ws with
        | nt :: ws =>
          let nt ← nt.toNat?
          let (tips, ws) ← takeFloats nt ws
          match ws with
          | ni :: ws =>
            let ni ← ni.toNat?
            let (ints, ws) ← takeFloats ni ws
            if ws.isEmpty then some (lam, mu, psi, rho, rr, times, tips, ints) else none
          | [] => none
        | [] => none
      match r? with
      | none => "bad-op"
      | some (lam, mu, psi, rho, rr, times, tips, ints) =>
        let r : Rates Float := ⟨arr lam, arr mu, arr psi, arr rho⟩
        let t := arr times
        let rem := if hr = "1" then some (arr rr) else none
        let v := logProb r rem t m (sv = "1") tips ints
        let xs := ints.map fun h => t m - h
        let ys := tips.map fun h => t m - h
        let ix := xs.map (idxX t m)
        let iy := ys.map (idxY t m)
        let rt := ys.map fun y => if isRhoTip r t m y then 1 else 0
        let n := (List.range (m - 1)).map fun k => nCross t (k + 1) xs ys
        let nn := (List.range m).map fun i => nAt t i ys
        s!"{floatBits v} ix {commaN ix} iy {commaN iy} rhotip {commaN rt} n {commaI n} N {commaN nn}"
    | _, _, _ => "bad-op"
  | "pab" :: m :: rest =>
    match m.toNat? with
    | some m =>
      if m = 0 then "bad-op" else
      let r? := do
        let (lam, ws) ← takeFloats m rest
        let (mu, ws) ← takeFloats m ws
        let (psi, ws) ← takeFloats m ws
        let (rho, ws) ← takeFloats m ws
        let (times, ws) ← takeFloats (m + 1) ws
        if ws.isEmpty then some (lam, mu, psi, rho, times) else none
      match r? with
      | none => "bad-op"
      | some (lam, mu, psi, rho, times) =>
        let r : Rates Float := ⟨arr lam, arr mu, arr psi, arr rho⟩
        let t := arr times
        let ps := (List.range (m + 1)).map (pAt r t m)
        let as := (List.range m).map (Acoef r)
        let bs := (List.range m).map (BAt r t m)
        s!"p {commaF ps} A {commaF as} B {commaF bs}"
    | none => "bad-op"
  | "epi" :: ws =>
    match ws.mapM parseFloatBits with
    | some [R, d, s] => let (a, b, c) := epiToBD R d s none; s!"{floatBits a} {floatBits b} {floatBits c}"
    | some [R, d, s, r] => let (a, b, c) := epiToBD R d s (some r); s!"{floatBits a} {floatBits b} {floatBits c}"
    | _ => "bad-op"
  | "refine" :: m :: i :: sv :: rest =>
    match m.toNat?, i.toNat?, parseFloatBits sv with
    | some m, some i, some sv =>
      if m = 0 ∨ ¬ i < m then "bad-op" else
      let r? := do
        let (lam, ws) ← takeFloats m rest
        let (mu, ws) ← takeFloats m ws
        let (psi, ws) ← takeFloats m ws
        let (rho, ws) ← takeFloats m ws
        let (times, ws) ← takeFloats (m + 1) ws
        if ws.isEmpty then some (lam, mu, psi, rho, times) else none
      match r? with
      | none => "bad-op"
      | some (lam, mu, psi, rho, times) =>
        let r : Rates Float := ⟨arr lam, arr mu, arr psi, arr rho⟩
        let r' := cutRates r i
        let t' := cutTimes (arr times) i sv
        let ks := List.range (m + 1)
        s!"lam {commaF (ks.map r'.lam)} mu {commaF (ks.map r'.mu)} psi {commaF (ks.map r'.psi)} rho {commaF (ks.map r'.rho)} times {commaF ((List.range (m + 2)).map t')}"
    | _, _, _ => "bad-op"
  | "constlogprob" :: sv :: rest =>
    if ¬ (sv = "0" ∨ sv = "1") then "bad-op" else
    let r? := do
      let (ps, ws) ← takeFloats 5 rest
      match ws with
      | nt :: ws =>
        let nt ← nt.toNat?
        let (tips, ws) ← takeFloats nt ws
        match ws with
        | ni :: ws =>
          let ni ← ni.toNat?
          let (ints, ws) ← takeFloats ni ws
          if ws.isEmpty then some (ps, tips, ints) else none
        | [] => none
      | [] => none
    match r? with
    | some ([lam, mu, psi, rho, T], tips, ints) => floatBits (logProbConst lam mu psi rho T (sv = "1") tips ints)
    | _ => "bad-op"
  | ["opts"] =>
    let cs := TTGen.C09_Options.classes.map fun c => s!"{c.name}:{c.ok}"
    s!"{" ".intercalate cs} translatorOk:{TTGen.C09_Options.translatorOk}"
  | _ => "bad-op"

def main : IO Unit := mainLoop handle
