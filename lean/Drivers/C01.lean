import TTModel.C01_Handle
/-! C01 driver: see `TTModel/C01_Handle.lean` for the protocol. -/
def main : IO Unit := TT.Proto.mainLoop TT.C01.Drv.handle
