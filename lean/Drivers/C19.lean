import TTModel.Proto
import TTModel.C13_Json
import TTModel.C13_Codec
import TTModel.C19_CLI
import TTGen.C19_Dispatch
/-! C19 driver: create_jacobians / make_unconstrained / create_meanfield's rewriting on wire-encoded JSON. -/
open TT.Proto TT.C13 TT.C13.Json TT.C19

def toF : JNumber → Float
  | .int n => Float.ofInt n
  | .flt x => x

/-- the CLI process computes the inverse transforms on `torch.tensor(<python floats>)`, i.e. in float32 -/
def to32 (x : JNumber) : Float32 := (toF x).toFloat32
def of32 (x : Float32) : JNumber := .flt x.toFloat

def tiny32 : Float32 := (1.1754943508222875e-38 : Float).toFloat32
def eps32 : Float32 := (1.1920928955078125e-07 : Float).toFloat32

/-- StickBreakingTransform._inverse on a vector (float32) -/
def stickInvF (y : List Float32) : List Float32 :=
  let k := y.length
  let crop := y.take (k - 1)
  let rec go : List Float32 → Float32 → Nat → List Float32
    | [], _, _ => []
    | v :: vs, cum, i =>
      let cum' := cum + v
      let sf := 1.0 - cum'
      let sf := if sf < tiny32 then tiny32 else sf
      let off := Float32.ofNat (k - (i + 1))
      (Float32.log v - Float32.log sf + Float32.log off) :: go vs cum' (i + 1)
  go crop 0.0 0

instance : CliNum JNumber where
  isZero x := toF x == 0.0
  isOne x := toF x == 1.0
  pos x := toF x > 0.0
  eq a b := toF a == toF b
  zeroF := .flt 0.0
  oneF := .flt 1.0
  zeroI := .int 0
  pred
    | .int n => .int (n - 1)
    | .flt x => .flt (x - 1.0)
  toNat
    | .int n => if n ≥ 0 then some n.toNat else none
    | .flt _ => none
  sub a b := of32 (to32 a - to32 b)
  log a := of32 (Float32.log (to32 a))
  logit a :=
    -- SigmoidTransform._inverse clamps to [finfo.tiny, 1 - finfo.eps]
    let y := to32 a
    let y := if y < tiny32 then tiny32 else y
    let y := if y > 1.0 - eps32 then 1.0 - eps32 else y
    of32 (Float32.log y - Float32.log (1.0 - y))
  stickInv ys := (stickInvF (ys.map to32)).map of32

def handle (line : String) : String :=
  match splitWords line with
  | ["ping"] => "pong"
  | "jac" :: toks => match decodeAll toks with
    | some j => match createJacobians j with
      | some ids => "ok " ++ encodeStr (.arr ids)
      | none => "raises"
    | none => "bad-op"
  | "unc" :: toks => match decodeAll toks with
    | some j => match makeUnconstrained TTGen.C19.unconstrain j with
      | some r => "ok " ++ encodeStr (.arr [r.json, .arr r.unres, .arr r.params])
      | none => "raises"
    | none => "bad-op"
  | "mf" :: toks => match decodeAll toks with
    | some j => match meanfieldRewrite TTGen.C19.meanfield j with
      | some r => "ok " ++ encodeStr r
      | none => "raises"
    | none => "bad-op"
  /- `final <hmc|mcmc|advi> <clock><ratio><piecewise><nonCentered as 0/1> <json>` -/
  | "final" :: cmd :: flags :: toks =>
    let post? : Option Post := match cmd with
      | "hmc" => some TTGen.C19.postHmc | "mcmc" => some TTGen.C19.postMcmc | "advi" => some TTGen.C19.postAdvi
      | _ => none
    match post?, flags.toList, decodeAll toks with
    | some post, [a, b, c, d], some j =>
      let f : Flags := ⟨a == '1', b == '1', c == '1', d == '1'⟩
      (match finalJacobians post f j with
       | some l => "ok " ++ encodeStr (jointJacobian l)
       | none => "raises")
    | _, _, _ => "bad-op"
  | ["table"] => s!"{TTGen.C19.recognised} {repr TTGen.C19.unconstrain} {repr TTGen.C19.meanfield}"
  | "collect" :: toks => match decodeAll toks with
    | some j => match collect (subvalues j) with
      | some ids => "ok " ++ encodeStr (.arr ids)
      | none => "raises"
    | none => "bad-op"
  | _ => "bad-op"

def main : IO Unit := mainLoop handle
