import TTModel.Proto
import TTModel.C13_Json
import TTModel.C13_Codec
import TTModel.C19_CLI
/-! C19 driver: create_jacobians / make_unconstrained / create_meanfield's rewriting on wire-encoded JSON. -/
open TT.Proto TT.C13 TT.C13.Json TT.C19

def toF : JNumber → Float
  | .int n => Float.ofInt n
  | .flt x => x

/-- StickBreakingTransform._inverse on a vector -/
def stickInvF (y : List Float) : List Float :=
  let k := y.length
  let crop := y.take (k - 1)
  let rec go : List Float → Float → Nat → List Float
    | [], _, _ => []
    | v :: vs, cum, i =>
      let cum' := cum + v
      let sf := 1.0 - cum'
      let sf := if sf < 1.1754943508222875e-38 then 1.1754943508222875e-38 else sf
      let off := Float.ofNat (k - (i + 1))
      (Float.log v - Float.log sf + Float.log off) :: go vs cum' (i + 1)
  go crop 0.0 0

instance : CliNum JNumber where
  isZero x := toF x == 0.0
  isOne x := toF x == 1.0
  pos x := toF x > 0.0
  eq a b := toF a == toF b
  zeroF := .flt 0.0
  oneF := .flt 1.0
  zeroI := .int 0
  pred
    | .int n => .int (n - 1)
    | .flt x => .flt (x - 1.0)
  toNat
    | .int n => if n ≥ 0 then some n.toNat else none
    | .flt _ => none
  sub a b := .flt (toF a - toF b)
  log a := .flt (Float.log (toF a))
  logit a :=
    -- SigmoidTransform._inverse clamps to [finfo.tiny, 1 - finfo.eps] (float32 in the CLI process)
    let y := toF a
    let y := if y < 1.1754943508222875e-38 then 1.1754943508222875e-38 else y
    let y := if y > 1.0 - 1.1920928955078125e-07 then 1.0 - 1.1920928955078125e-07 else y
    .flt (Float.log y - Float.log (1.0 - y))
  stickInv ys := (stickInvF (ys.map toF)).map JNumber.flt

def handle (line : String) : String :=
  match splitWords line with
  | ["ping"] => "pong"
  | "jac" :: toks => match decodeAll toks with
    | some j => match createJacobians j with
      | some ids => "ok " ++ encodeStr (.arr ids)
      | none => "raises"
    | none => "bad-op"
  | "unc" :: toks => match decodeAll toks with
    | some j => match makeUnconstrained j with
      | some r => "ok " ++ encodeStr (.arr [r.json, .arr r.unres, .arr r.params])
      | none => "raises"
    | none => "bad-op"
  | "mf" :: toks => match decodeAll toks with
    | some j => match meanfieldRewrite j with
      | some r => "ok " ++ encodeStr r
      | none => "raises"
    | none => "bad-op"
  | "collect" :: toks => match decodeAll toks with
    | some j => match collect (subvalues j) with
      | some ids => "ok " ++ encodeStr (.arr ids)
      | none => "raises"
    | none => "bad-op"
  | _ => "bad-op"

def main : IO Unit := mainLoop handle
