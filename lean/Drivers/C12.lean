import TTModel.Proto
import TTModel.C12_Expr
import TTModel.C12_Models
import TTModel.C12_Pruning
import TTModel.C04_Subst
import TTModel.C05_SiteModel
import TTModel.C06_Heights
import TTModel.C08_Coalescent
import TTModel.C12_CoalModels
/-!
C12 driver: value and forward-mode gradient (`Dual Float`) of the density models.
Request: `<op> <ints…> | <group> | <group> …`; floats are 16-hex-digit IEEE bit patterns, integers decimal.
Reply: hex floats separated by blanks; `bad-op` for anything unknown or malformed.

  coal_def  <const|skyride|skygrid> | θ… | heights… | grid…     C08 definitions run at Dual Float (sort included)
            -> value, d/dθ_k …, d/dheight_i …
  coal_expr <const|skyride|skygrid> <m> | θ… | sorted times… | sorted marks…      C12 builders
            -> value, d/dθ_k …, d/dsorted_time_j …
  gmrf      | field… | τ c | weights… (may be empty)            -> value, d/dfield_i …, d/dτ
  weibull / weibull_def  <K> | shape | [pinv] | [mu]            -> rates…, then d rates/d shape, [d/d pinv], [d/d mu]
  ratio / ratio_def <n> | p c p c … | det… | bounds(n-1) | x(n-1)
            -> logJ, d logJ/dx_i …, heights…, then row i = d heights/dx_i
  jc69 / jc69_def | t                                           -> a, da/dt, b, db/dt
  prune <n> | node left right … | branch lengths (2n-2) | tip partials (site-major, taxon, 4 states)
            -> log-likelihood (JC69), d/d branch_b …
-/
open TT TT.Proto TT.C12 TT.C12.Expr

abbrev DF := Dual Float

def splitGroups (ws : List String) : List (List String) :=
  let rec go (ws : List String) (cur : List String) (acc : List (List String)) : List (List String) :=
    match ws with
    | [] => (cur.reverse :: acc).reverse
    | w :: rest => if w = "|" then go rest [] (cur.reverse :: acc) else go rest (w :: cur) acc
  go ws [] []

def floats (g : List String) : Option (List Float) := g.mapM parseFloatBits
def ints (g : List String) : Option (List Int) := g.mapM parseInt
def nats (g : List String) : Option (List Nat) := g.mapM (·.toNat?)

def showF (l : List Float) : String := " ".intercalate (l.map floatBits)

/-- the list with tangent 1 at position `i` and 0 elsewhere -/
def seedList (l : List Float) (i : Nat) : List DF :=
  l.zipIdx.map fun (x, j) => ⟨x, if j = i then 1.0 else 0.0⟩

def constList (l : List Float) : List DF := l.map fun x => ⟨x, 0.0⟩

/-- value and gradient of `f` over the concatenation of the groups `gs` (every entry a coordinate) -/
def gradGroups (gs : List (List Float)) (f : List (List DF) → DF) : List Float :=
  let v := (f (gs.map constList)).v
  let total := gs.zipIdx.flatMap fun (g, gi) => (List.range g.length).map fun i => (gi, i)
  v :: total.map fun (gi, i) =>
    (f (gs.zipIdx.map fun (g, gj) => if gj = gi then seedList g i else constList g)).d

/-- environment from a list of duals -/
def envD (l : List DF) : Nat → DF := fun i => l.getD i ⟨0.0, 0.0⟩

/-! ### coalescents -/

def coalDef (kind : String) (θ h grid : List DF) : Option DF :=
  match kind with
  | "const" => match θ with
    | [t] => some (C08.constantLogProb t h)
    | _ => none
  | "skyride" => some (C08.skyrideLogProb θ h)
  | "skygrid" => some (C08.skygridLogProb θ grid h)
  | _ => none

def coalExpr (kind : String) (m : Nat) (nθ nt : Nat) (marks : List Int) : Option Expr :=
  let θs := (List.range nθ).map fun j => var j
  let ts := (List.range nt).map fun j => var (nθ + j)
  match kind with
  | "const" => if nθ = 1 then some (constantE (var 0) ts marks m) else none
  | "skyride" => some (skyrideE θs ts marks)
  | "skygrid" => some (skygridE θs ts marks)
  | _ => none

/-! ### ratio transform -/

def pairs : List Nat → Option (List (Nat × Nat))
  | [] => some []
  | a :: b :: rest => (pairs rest).map fun l => (a, b) :: l
  | _ => none

def triples : List Nat → Option (List (Nat × Nat × Nat))
  | [] => some []
  | a :: b :: c :: rest => (triples rest).map fun l => (a, b, c) :: l
  | _ => none

/-- `[logJ] ++ heights` from the builders; variables: `x_j = var j`, `b_j = var (m + j)`, `m = n - 1` -/
def ratioExprs (n : Nat) (fwd : List (Nat × Nat)) (det : List Nat) : List Expr :=
  let m := n - 1
  let xE : Nat → Expr := fun j => var j
  let bE : Nat → Expr := fun j => var (m + j)
  let hE := heightsE fwd bE xE
  logJacE det bE hE :: (List.range m).map hE

/-- the same through the C06 definitions at `Dual Float`; `b` is addressed as `_bounds[n + j]` -/
def ratioDef (n : Nat) (fwd : List (Nat × Nat)) (det : List Nat) (b x : List DF) : List DF :=
  let m := n - 1
  let bF : Nat → DF := fun i => b.getD (i - n) ⟨0.0, 0.0⟩
  let xF : Nat → DF := fun j => x.getD j ⟨0.0, 0.0⟩
  let h := C06.ratioFwd n bF fwd xF
  (((C06.ratioDetTerms n bF det h).map Trans.log).sum) :: (List.range m).map h

/-! ### pruning with JC69 -/

def buildTree (n : Nat) (post : List (Nat × Nat × Nat)) : Option C01.ITree :=
  let step (st : Option (List (Nat × C01.ITree))) (tr : Nat × Nat × Nat) : Option (List (Nat × C01.ITree)) := do
    let st ← st
    let get (i : Nat) : Option C01.ITree :=
      if i < n then some (.leaf i) else (st.find? (·.1 = i)).map (·.2)
    let l ← get tr.2.1
    let r ← get tr.2.2
    pure ((tr.1, .node tr.1 l r) :: st)
  match post.foldl step (some []), post.getLast? with
  | some st, some last => (st.find? (·.1 = last.1)).map (·.2)
  | _, _ => none

/-- tabulate a 4×4 matrix once -/
def memoMat (f : Fin 4 → Fin 4 → DF) : Fin 4 → Fin 4 → DF :=
  let a : Array DF := Array.ofFn fun i : Fin 16 =>
    f ⟨i.val / 4, Nat.div_lt_of_lt_mul i.isLt⟩ ⟨i.val % 4, Nat.mod_lt _ (by decide)⟩
  fun i j => a.getD (i.val * 4 + j.val) ⟨0.0, 0.0⟩

def pruneLogLik (t : C01.ITree) (bl : List DF) (tips : Array Float) (n nsites : Nat) : DF :=
  let mat : Nat → Fin 4 → Fin 4 → DF := fun b => memoMat (C04.jc69P (bl.getD b ⟨0.0, 0.0⟩))
  let π : Fin 4 → DF := fun _ => ⟨0.25, 0.0⟩
  ((List.range nsites).map fun s =>
    let tip : Nat → Fin 4 → DF := fun i k => ⟨tips.getD ((s * n + i) * 4 + k.val) 0.0, 0.0⟩
    Trans.log (siteLikT π tip mat t)).sum

/-! ### dispatch -/

def handleGroups (op : String) (args : List String) (gs : List (List String)) : Option String := do
  match op, args, gs with
  | "coal_def", [kind], [θ, h, grid] =>
    let θ ← floats θ; let h ← floats h; let grid ← floats grid
    if h.length % 2 == 0 then none
    -- definedness of the kind
    let _ ← coalDef kind (constList θ) (constList h) (constList grid)
    let out := gradGroups [θ, h] fun g =>
      match g with
      | [θd, hd] => (coalDef kind θd hd (constList grid)).getD ⟨0.0, 0.0⟩
      | _ => ⟨0.0, 0.0⟩
    pure (showF out)
  | "coal_expr", [kind, m], [θ, ts, marks] =>
    let θ ← floats θ; let ts ← floats ts; let marks ← ints marks; let m ← m.toNat?
    if marks.length != ts.length then none
    let e ← coalExpr kind m θ.length ts.length marks
    let out := gradGroups [θ, ts] fun g => eval (envD g.flatten) e
    pure (showF out)
  | "gmrf", [], [x, tc, w] =>
    let x ← floats x; let tc ← floats tc; let w ← floats w
    match tc with
    | [τ, c] =>
      if w.length != 0 && w.length + 1 != x.length then none
      let n := x.length
      let e := gmrfE ((List.range n).map var) (var n)
        (if w.isEmpty then none else some ((List.range w.length).map fun j => var (n + 2 + j))) (var (n + 1))
      let all := gradGroups [x, [τ], [c], w] fun g => eval (envD g.flatten) e
      -- value, d/dx…, d/dτ
      pure (showF (all.take (n + 2)))
    | _ => none
  | "weibull", [k], [sh, inv, mu] =>
    let K ← k.toNat?; let sh ← floats sh; let inv ← floats inv; let mu ← floats mu
    if K == 0 || sh.length != 1 || inv.length > 1 || mu.length > 1 then none
    let nv := 1 + inv.length
    let es := weibullRatesE K (var 0) (if inv.isEmpty then none else some (var 1))
      (if mu.isEmpty then none else some (var nv))
    let cols := es.map fun e => gradGroups [sh, inv, mu] fun g => eval (envD g.flatten) e
    -- values of all rates, then per parameter the tangents of all rates
    let nparam := 1 + inv.length + mu.length
    let vals := cols.map fun c => c.headD 0.0
    let tang := (List.range nparam).flatMap fun p => cols.map fun c => c.getD (p + 1) 0.0
    pure (showF (vals ++ tang))
  | "weibull_def", [k], [sh, inv, mu] =>
    let K ← k.toNat?; let sh ← floats sh; let inv ← floats inv; let mu ← floats mu
    if K == 0 || sh.length != 1 || inv.length > 1 || mu.length > 1 then none
    let sm (g : List (List DF)) : C05.SM DF :=
      match g with
      | [s, i, m] => C05.weibull K (s.headD ⟨1.0, 0.0⟩) i.head? m.head?
      | _ => C05.constant none
    let rates (g : List (List DF)) : List DF := let s := sm g; (List.finRange s.n).map s.rates
    let n := (rates [constList sh, constList inv, constList mu]).length
    let cols := (List.range n).map fun r => gradGroups [sh, inv, mu] fun g => (rates g).getD r ⟨0.0, 0.0⟩
    let nparam := 1 + inv.length + mu.length
    let vals := cols.map fun c => c.headD 0.0
    let tang := (List.range nparam).flatMap fun p => cols.map fun c => c.getD (p + 1) 0.0
    pure (showF (vals ++ tang))
  | "ratio", [n], [fwd, det, b, x] =>
    let n ← n.toNat?; let fwd ← nats fwd; let fwd ← pairs fwd; let det ← nats det
    let b ← floats b; let x ← floats x
    if n < 2 || b.length != n - 1 || x.length != n - 1 then none
    let es := ratioExprs n fwd det
    let cols := es.map fun e => gradGroups [x, b] fun g => eval (envD g.flatten) e
    let m := n - 1
    let logJ := cols.headD []
    let hs := cols.drop 1
    -- logJ, d logJ/dx_i, heights, rows i: d h_k / d x_i
    let out := (logJ.take (m + 1)) ++ hs.map (fun c => c.headD 0.0)
      ++ (List.range m).flatMap fun i => hs.map fun c => c.getD (i + 1) 0.0
    pure (showF out)
  | "ratio_def", [n], [fwd, det, b, x] =>
    let n ← n.toNat?; let fwd ← nats fwd; let fwd ← pairs fwd; let det ← nats det
    let b ← floats b; let x ← floats x
    if n < 2 || b.length != n - 1 || x.length != n - 1 then none
    let m := n - 1
    let cols := (List.range (m + 1)).map fun r => gradGroups [x] fun g =>
      match g with
      | [xd] => (ratioDef n fwd det (constList b) xd).getD r ⟨0.0, 0.0⟩
      | _ => ⟨0.0, 0.0⟩
    let logJ := cols.headD []
    let hs := cols.drop 1
    let out := (logJ.take (m + 1)) ++ hs.map (fun c => c.headD 0.0)
      ++ (List.range m).flatMap fun i => hs.map fun c => c.getD (i + 1) 0.0
    pure (showF out)
  | "jc69", [], [t] =>
    let t ← floats t
    match t with
    | [t] =>
      let a := eval (envD [⟨t, 1.0⟩]) (jcDiagE (var 0))
      let b := eval (envD [⟨t, 1.0⟩]) (jcOffE (var 0))
      pure (showF [a.v, a.d, b.v, b.d])
    | _ => none
  | "jc69_def", [], [t] =>
    let t ← floats t
    match t with
    | [t] =>
      let P := C04.jc69P (⟨t, 1.0⟩ : DF)
      pure (showF [(P 0 0).v, (P 0 0).d, (P 0 1).v, (P 0 1).d])
    | _ => none
  | "prune", [n], [post, bl, tips] =>
    let n ← n.toNat?; let post ← nats post; let post ← triples post
    let bl ← floats bl; let tips ← floats tips
    if n < 2 || bl.length != 2 * n - 2 || tips.length % (4 * n) != 0 then none
    let t ← buildTree n post
    let nsites := tips.length / (4 * n)
    let arr := tips.toArray
    let out := gradGroups [bl] fun g =>
      match g with
      | [bd] => pruneLogLik t bd arr n nsites
      | _ => ⟨0.0, 0.0⟩
    pure (showF out)
  | _, _, _ => none

def handle (line : String) : String :=
  match splitGroups (splitWords line) with
  | (op :: args) :: gs =>
    -- extra operations (C08 exponential / linear / soft, C20 GMRF variants): TTModel/C12_CoalModels.lean
    ((handleGroups op args gs).orElse fun _ => TT.C12.handleExtra op args gs).getD "bad-op"
  | _ => "bad-op"

def main : IO Unit := mainLoop handle
