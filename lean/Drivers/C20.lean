import TTModel.Proto
import TTModel.C08_Coalescent
import TTModel.C20_GMRF
/-!
C20 driver.  `<op> <F|Q> <mode> <numbers> | <numbers> | …`; `F` = IEEE bit patterns / `Float`,
`Q` = `p/q` / `Rat`.  `mode`: `P` plain, `W` weighted (extra group: weights), `T0` / `T1` time-aware without /
with rescale (extra group: internal node heights).

  quad  X mode tau | field | extra      -> `<Σ scaled squared differences · tau> <xᵀ Q x>`   (exact at Q)
  pmat  X mode tau | field | extra      -> rows of the published precision matrix, `;`-separated
  gmrf  F mode log2pi tau | field | extra                      -> GMRF log density
  gint  F mode log2pi shape rate lgA lgAd | field | extra      -> GMRFGammaIntegrated
  cstat X P | heights                                          -> Σ lchoose2·durations
  cint  F P alpha beta lgA lgAm | heights                      -> ConstantCoalescentIntegrated
  ssgrid X P | heights | grid           -> `ss … cnt …`        (sufficient statistics, counts)
  ssride X P | heights                  -> `ss … cnt …`
  repgrid F P thetas | heights | grid   -> `<Σ ss/θ + c log θ> <-log_prob>`
  repride F P thetas | heights          -> `<Σ ss/θ + c log θ> <-log_prob>`
-/
open TT TT.Proto TT.C08 TT.C20

def splitGroups (ws : List String) : List (List String) :=
  let rec go (ws : List String) (cur : List String) (acc : List (List String)) : List (List String) :=
    match ws with
    | [] => (cur.reverse :: acc).reverse
    | w :: rest => if w = "|" then go rest [] (cur.reverse :: acc) else go rest (w :: cur) acc
  go ws [] []

section generic
variable {α : Type} [Add α] [Sub α] [Mul α] [Div α] [Neg α] [Zero α] [IntCast α] [OfNat α 2]
  [LE α] [DecidableLE α]

/-- the weights selected by the mode, `none` = plain; `bad` when the groups do not fit -/
def weightsOf (mode : String) (field : List α) (extra : Option (List α)) : Option (Option (List α)) :=
  match mode, extra with
  | "P", none => some none
  | "W", some w => if w.length + 1 = field.length then some (some w) else none
  | "T0", some h => if h.length = field.length then some (some (timeAwareWeights false h)) else none
  | "T1", some h => if h.length = field.length then some (some (timeAwareWeights true h)) else none
  | _, _ => none

def quadReply (shw : α → String) (mode : String) (τ : α) (field : List α) (extra : Option (List α)) :
    Option String :=
  (weightsOf mode field extra).map fun w =>
    let s := (scaledDiffSq w field).sum * τ
    let q := quadForm (precisionMatrix (offDiag τ w field.length)) field
    s!"{shw s} {shw q}"

def pmatReply (shw : α → String) (mode : String) (τ : α) (field : List α) (extra : Option (List α)) :
    Option String :=
  (weightsOf mode field extra).map fun w =>
    ";".intercalate ((precisionMatrix (offDiag τ w field.length)).map fun row =>
      " ".intercalate (row.map shw))

def ssReply (shw : α → String) (p : List α × List Nat) : String :=
  s!"ss {" ".intercalate (p.1.map shw)} cnt {" ".intercalate (p.2.map toString)}"

end generic

def oddLen {α} (h : List α) : Bool := h.length % 2 == 1

def extraOf {α} : List (List α) → Option (Option (List α))
  | [] => some none
  | [e] => some (some e)
  | _ => none

def handleF (op mode : String) (g : List (List Float)) : Option String :=
  match op, g with
  | "quad", [τ] :: field :: rest => (extraOf rest).bind fun e => quadReply floatBits mode τ field e
  | "pmat", [τ] :: field :: rest => (extraOf rest).bind fun e => pmatReply floatBits mode τ field e
  | "gmrf", [l2p, τ] :: field :: rest =>
      (extraOf rest).bind fun e => (weightsOf mode field e).map fun w =>
        floatBits (gmrfLogProb l2p τ (scaledDiffSq w field) field.length)
  | "gint", [l2p, sh, rt, lgA, lgAd] :: field :: rest =>
      (extraOf rest).bind fun e => (weightsOf mode field e).map fun w =>
        floatBits (gammaIntegratedLogProb l2p sh rt lgA lgAd (scaledDiffSq w field) field.length)
  | "cstat", [[], h] => if oddLen h then some (floatBits (constantStat h)) else none
  | "cint", [[a, b, lgA, lgAm], h] =>
      if oddLen h then
        some (floatBits (constantIntegratedLogProb a b lgA lgAm (constantStat h) (taxaCount h - 1)))
      else none
  | "ssgrid", [[], h, grid] => if oddLen h then some (ssReply floatBits (skygridSuffStats grid h)) else none
  | "ssride", [[], h] => if oddLen h then some (ssReply floatBits (skyrideSuffStats h)) else none
  | "repgrid", [θ, h, grid] =>
      if oddLen h then
        let p := skygridSuffStats grid h
        some s!"{floatBits (reproduce θ p.1 p.2)} {floatBits (-(skygridLogProb θ grid h))}"
      else none
  | "repride", [θ, h] =>
      if oddLen h then
        let p := skyrideSuffStats h
        some s!"{floatBits (reproduce θ p.1 p.2)} {floatBits (-(skyrideLogProb θ h))}"
      else none
  | _, _ => none

def handleQ (op mode : String) (g : List (List Rat)) : Option String :=
  match op, g with
  | "quad", [τ] :: field :: rest => (extraOf rest).bind fun e => quadReply showRat mode τ field e
  | "pmat", [τ] :: field :: rest => (extraOf rest).bind fun e => pmatReply showRat mode τ field e
  | "cstat", [[], h] => if oddLen h then some (showRat (constantStat h)) else none
  | "ssgrid", [[], h, grid] => if oddLen h then some (ssReply showRat (skygridSuffStats grid h)) else none
  | "ssride", [[], h] => if oddLen h then some (ssReply showRat (skyrideSuffStats h)) else none
  | _, _ => none

def handle (line : String) : String :=
  match splitWords line with
  | op :: "F" :: mode :: rest =>
    match (splitGroups rest).mapM (fun g => g.mapM parseFloatBits) with
    | some g => (handleF op mode g).getD "bad-op"
    | none => "bad-op"
  | op :: "Q" :: mode :: rest =>
    match (splitGroups rest).mapM (fun g => g.mapM parseRat) with
    | some g => (handleQ op mode g).getD "bad-op"
    | none => "bad-op"
  | _ => "bad-op"

def main : IO Unit := mainLoop handle
