import TTModel.FS
import TTModel.Proto
